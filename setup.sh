#!/bin/sh
# Offline setup: contracts library beside the repository's interpreter (git-ignored .deps),
# then a syntax check of the framework.  Checks that need .deps re-run this themselves.
cd "$(dirname "$0")" || exit 1
export PIP_NO_INDEX=1 PIP_DISABLE_PIP_VERSION_CHECK=1
if [ ! -d .deps/icontract ]; then
  /venv/bin/pip install -q --no-index --find-links /opt/veriftools/wheels --target .deps icontract >/dev/null 2>&1 || echo "setup: icontract not installed (checks fall back to their own wrappers)"
fi
/venv/bin/python -m compileall -q vlib checks >/dev/null || exit 1
/venv/bin/python -c "import json; json.load(open('MANIFEST.json')); json.load(open('known_findings.json'))" || exit 1
echo "setup ok"
