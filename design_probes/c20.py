import sys, os, random, io; sys.path.insert(0, "/tmp/scratch")
from sess import mk, XSH
ex, ctx = mk()
E = sys.__stderr__
import xonsh.procs.jobs as J
class Proc:
    def __init__(s, pid): s.pid = pid; s.rc = None
    def poll(s): return s.rc
class Spec: captured = "hiddenobject"
class Pipe:
    spec = Spec()
    def __init__(s): s.resumed = []
    def resume(s, job, tee_output=True): s.resumed.append(tee_output)
def start(pid, bg=True, status="running"):
    p = Proc(pid)
    J.add_job({"cmds": [["sleep", str(pid)]], "pids": [pid], "status": status, "obj": p, "bg": bg, "pipeline": Pipe(), "pgrp": None})
    return p
def state(): return (sorted(J.get_jobs()), list(J.get_tasks()))
J._continue = lambda job: job.__setitem__("status", "running")  # avoid real signals in probe
procs = {}
rng = random.Random(3)
viol = 0
for step in range(400):
    op = rng.choice(["start", "start", "exit", "jobs", "fg", "bg", "disown", "num"])
    before = state()
    try:
        if op == "start":
            pid = 1000 + step; procs[pid] = start(pid, bg=rng.random() < .7, status=rng.choice(["running", "suspended"])); r = None
        elif op == "exit":
            live = [p for p in procs.values() if p.rc is None]
            if live: rng.choice(live).rc = 0
            r = None
        elif op == "jobs":
            buf = io.StringIO(); r = J.jobs([], stdout=buf); r = buf.getvalue().count("\n")
        elif op in ("fg", "bg"):
            arg = rng.choice([[], ["+"], ["-"], [str(rng.randint(0, 6))], ["x"], ["1", "2"]])
            r = (J.fg if op == "fg" else J.bg)(arg); r = (arg, r)
        elif op == "disown":
            arg = rng.choice([[], [rng.randint(0, 6)], [1, 99]])
            r = (arg, J.disown_fn(arg))
        else:
            r = J.get_next_job_number()
    except Exception as e:
        r = "EXC " + repr(e)[:80]
    jobs_, tasks = state()
    J._clear_dead_jobs(); jobs2, tasks2 = state()
    ok = sorted(tasks2) == jobs2 and len(set(tasks2)) == len(tasks2) and all(J.get_jobs()[t]["obj"].poll() is None for t in tasks2)
    if not ok or (isinstance(r, str) and r.startswith("EXC")):
        viol += 1; print("STEP", step, op, r, before, "->", (jobs_, tasks), "purged", (jobs2, tasks2), file=E)
print("violations", viol, "final", state(), file=E)
