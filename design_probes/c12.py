import sys, os, shutil, time; sys.path.insert(0, "/tmp/scratch")
shutil.rmtree("/tmp/scratch/data", ignore_errors=True)
from sess import mk, XSH
ex, ctx = mk()
from xonsh.history.json import JsonHistory
import xonsh.history.json as J
XSH.env["HISTCONTROL"] = {"ignoredups"}
h = JsonHistory(filename="/tmp/scratch/data/h1.json", sessionid="s1", buffersize=2, gc=False)
XSH.history = h
# delay flusher
orig = J.JsonHistoryFlusher.dump
def slow(self):
    time.sleep(0.3); return orig(self)
J.JsonHistoryFlusher.dump = slow
h.append({"inp": "a", "rtn": 0, "ts": [1.0, 1.1]})
h.append({"inp": "a", "rtn": 0, "ts": [2.0, 2.1]})
n = len(h)
try:
    print("len", n, "last", h.inps[n-1], file=sys.__stderr__)
except Exception as e:
    print("len", n, "index error:", repr(e), file=sys.__stderr__)
time.sleep(0.5)
print("len after", len(h), list(h.inps), file=sys.__stderr__)
# unicode + index
J.JsonHistoryFlusher.dump = orig
XSH.env["HISTCONTROL"] = set()
h2 = JsonHistory(filename="/tmp/scratch/data/h2.json", sessionid="s2", buffersize=3, gc=False)
cmds = ["echo héllo ✓", "x = '😀'", "multi\nline\n", "tab\there \\ \"q\" ", "z"*3]
for i, c in enumerate(cmds): h2.append({"inp": c, "rtn": i, "ts": [i, i+.5]})
h2.flush(); time.sleep(0.3)
print([h2.inps[i] == cmds[i] for i in range(len(cmds))], len(h2), file=sys.__stderr__)
