import sys, os, shutil, random, time, json, collections; sys.path.insert(0, "/tmp/scratch")
shutil.rmtree("/tmp/scratch/data12", ignore_errors=True); os.makedirs("/tmp/scratch/data12/history_json")
os.environ["XONSH_DATA_DIR"] = "/tmp/scratch/data12"
from sess import mk, XSH
ex, ctx = mk()
E = sys.__stderr__
XSH.env["XONSH_DATA_DIR"] = "/tmp/scratch/data12"
import xonsh.history.json as J, xonsh.lib.lazyjson as LJ
from xonsh.history.sqlite import SqliteHistory
seed = int(sys.argv[1]); rng = random.Random(seed)
TEXTS = ["ls", "echo héllo ✓", "x = '😀'", "multi\nline\n  indented\n", "tab\there", "q \"dq\" 'sq' \\ back", "trailing  ", " leading", "dup", "dup", "́combining", "a" * 300, "nul-free \x01\x02 ctrl", "emoji 👩‍👩‍👧"]
res = collections.Counter(); shown = collections.Counter()
def check(h, ref, opts, backend, where):
    # lower bound: entries that no rule could drop
    n = len(h)
    try:
        inps = [h.inps[i] for i in range(n)]; tss = [tuple(h.tss[i]) for i in range(n)]; rtns = [h.rtns[i] for i in range(n)]
    except Exception as x:
        return "READ-EXC " + type(x).__name__
    ids = [t[0] for t in tss]
    if len(set(ids)) != len(ids): return "DUPLICATE"
    refids = [r["ts"][0] for r in ref]
    if any(i not in refids for i in ids): return "INVENTED"
    if ids != sorted(ids, key=refids.index): return "REORDERED"
    byid = {r["ts"][0]: r for r in ref}
    for i, t, rc in zip(ids, inps, rtns):
        exp = byid[i]["inp"] if backend == "json" else byid[i]["inp"].rstrip()
        if t != exp: return "TEXT-ALTERED"
        if rc != byid[i]["rtn"]: return "RTN-ALTERED"
    must = []
    prev = None
    for r in ref:
        droppable = ("ignoreerr" in opts and r["rtn"] != 0) or ("ignoredups" in opts and prev is not None and (r["inp"] == prev["inp"] or r["inp"].rstrip() == prev["inp"].rstrip()))
        if not droppable: must.append(r["ts"][0])
        prev = r
    if any(m not in ids for m in must): return "LOST"
    sl = h[max(0, n - 3): n] if n else []
    if [e.cmd for e in sl] != inps[max(0, n - 3):]: return "SLICE-MISMATCH"
    return "ok"
for it in range(int(sys.argv[2])):
    backend = rng.choice(["json", "json", "sqlite"])
    opts = set(rng.sample(["ignoredups", "ignoreerr", "ignorespace"], rng.randint(0, 2)))
    XSH.env["HISTCONTROL"] = opts
    for f in os.listdir("/tmp/scratch/data12/history_json"): os.remove("/tmp/scratch/data12/history_json/" + f)
    for f in os.listdir("/tmp/scratch/data12"):
        if f.endswith(".sqlite") or "sqlite" in f: os.remove("/tmp/scratch/data12/" + f)
    if backend == "json": h = J.JsonHistory(sessionid="s%d" % it, buffersize=rng.choice([1, 2, 3, 10]), gc=False)
    else: h = SqliteHistory(gc=False, sessionid="s%d" % it)
    XSH.history = h
    ref = []; tsc = 1.0; trace = []
    for step in range(rng.randint(3, 25)):
        op = rng.choice(["append"] * 6 + ["flush", "read", "read"])
        trace.append(op)
        if op == "append":
            inp = rng.choice(TEXTS); spc = inp.startswith(" "); rtn = rng.choice([0, 0, 0, 1])
            tsc += 1; cmd = {"inp": inp, "rtn": rtn, "ts": [tsc, tsc + .5], "spc": spc}
            if "ignorespace" in opts and spc: h.append(dict(cmd)); continue
            ref.append(cmd); hf = h.append(dict(cmd))
            if hf is not None and hasattr(hf, "join"): hf.join()      # no overlap in this pilot
        elif op == "flush":
            hf = h.flush()
            if hf is not None and hasattr(hf, "join"): hf.join()
        else:
            r = check(h, ref, opts, backend, step)
            if r != "ok":
                key = backend + " " + r + " opts=" + ",".join(sorted(opts)); res[key] += 1
                if shown[key] < 2: shown[key] += 1; print(key, "buffersize", getattr(h, "buffersize", None), "ops", trace[-8:], "len", len(h), "ref", [(r_["inp"][:8], r_["rtn"]) for r_ in ref][-6:], file=E)
                break
    else:
        res["ok-seq " + backend] += 1
print(sorted(res.items()), file=E)
