import sys, os, shutil; sys.path.insert(0, "/tmp/scratch")
from sess import mk, XSH
ex, ctx = mk()
import faulthandler; faulthandler.dump_traceback_later(60, exit=True, file=sys.__stderr__)
E = sys.__stderr__
from xonsh.completer import Completer
import xonsh.completers.init  # noqa
d = "/tmp/scratch/names"; shutil.rmtree(d, ignore_errors=True); os.makedirs(d); os.chdir(d); XSH.env["PWD"] = d
names = ["plain", "sp ace", "qu'ote", 'dq"uote', "do$llar", "back\\slash", "endback\\", "ba!ng", "both'\"$x", "new\nline", "tab\tx", "#hash", "-dash", "~tilde", "st*ar", "br[ack]", "and", "a;b", "a&b", "a|b", "(par)", "a=b", "ünï", "{brace}", "a`b", "a@b", "a>b", "a,b", "%pc", "two  spaces"]
for n in names: open(n, "w").close()
LOG = []
def rec(args, stdin=None): LOG.append(list(args)); return 0
XSH.aliases["rec"] = rec
XSH.env["COMPLETIONS_CONFIRM"] = False
comp = Completer()
bad = 0
for n in names:
    for pre in ("", n[:1], n[:3]):
        for q in ("", "'", '"'):
            line = "rec " + q + pre; print("LINE", repr(line), file=E, flush=True)
            try:
                res = comp.complete_line(line)
                comps, lprefix = res
            except Exception as e:
                print("EXC complete", repr(line), repr(e)[:80], file=E); bad += 1; continue
            for c in comps:
                full = line[: len(line) - lprefix] + str(c)
                LOG.clear()
                try:
                    ex.exec(full, glbs=ctx, locs=ctx, mode="exec")
                    got = LOG[0] if LOG else None
                except BaseException as e:
                    got = type(e).__name__
                if got is None or isinstance(got, str) or len(got) != 1 or got[0] not in names:
                    pass
                # judge only completions that target n
                tgt = got[0] if isinstance(got, list) and len(got) == 1 else got
                if isinstance(got, list) and len(got) == 1 and got[0] in names: continue
                bad += 1
                if bad < 40: print("BAD", repr(line), "->", repr(str(c)), "=>", repr(full), "argv:", got, file=E)
print("bad", bad, file=E)
