import ast, sys, os, random, json, collections, signal, time
sys.path.insert(0, "/tmp/ptab")
from xonsh.execer import Execer
from xonsh.built_ins import XSH
from xonsh.environ import Env
exr = Execer(parser_args=dict(yacc_optimize=False, yacc_table="verif_ptab", outputdir="/tmp/ptab"))
XSH.load(execer=exr, ctx={}, env=Env({"PATH": [], "HOME": "/tmp/scratch/home"}))
import builtins as _b
CTX = set(dir(_b)) | {"xs", "cond", "val", "log"}
def norm(n):
    if isinstance(n, ast.AST):
        return (type(n).__name__, [(f, norm(getattr(n, f, None))) for f in n._fields if f not in ("kind", "type_comment")])
    if isinstance(n, list): return [norm(x) for x in n]
    return repr(n)
seed = int(sys.argv[1]); N = int(sys.argv[2]); rng = random.Random(seed)
WORDS = ["a", "-x", "--long", "--k=v", "-n1", "a/b.c", "./x", "../y", "a:b", "a,b", "+x", "%d", "k=v", "12", "1.5", "x-y", "x_y", "a.b", "*.py", "~/z", "ünï", "@", "a@b", "a+b", "x==y", "-", "--", "http://h/p?q=1", "{a,b}", "a[1]", "=", "a=", "-I/usr/include"]
STRS = ["'s p'", '"d q"', "r'\\raw'", "f'{val}'", "'it''s'", '"$HOME"', "''", "'a'b", "'''t'''"]
SUBS = ["$HOME", "${'HO'+'ME'}", "@(val)", "@([1,2])", "$(cmd9 q)", "@$(cmd9 q)", "pre@(val)post", "$HOME/x"]
REDIR = ["> out.txt", ">> out.txt", "2> err.txt", "e>o", "2>&1", "a> all.txt", "< in.txt", "o> o.txt e> e.txt"]
def arg():
    r = rng.random()
    if r < .6: return rng.choice(WORDS)
    if r < .8: return rng.choice(STRS)
    return rng.choice(SUBS)
def simple():
    toks = ["cmd%d" % rng.randint(0, 5)] + [arg() for _ in range(rng.randint(0, 4))]
    if rng.random() < .2: toks.append(rng.choice(REDIR))
    return " ".join(toks)
def pipeline():
    s = simple()
    for _ in range(rng.choice([0, 0, 0, 1, 2])): s += rng.choice([" | ", "|", " |"] if False else [" | "]) + simple()
    return s
def chain(depth=0):
    # returns (bare, explicit)
    if depth >= 2 or rng.random() < .5:
        p = pipeline(); return p, "![" + p + "]"
    op = rng.choice([" and ", " or ", " && ", " || "])
    a, ae = chain(depth + 1); b, be = chain(depth + 1)
    if rng.random() < .2 and depth > 0: return "(" + a + op + b + ")", "(" + ae + op + be + ")"
    return a + op + b, ae + op + be
def place(b, e):
    k = rng.randrange(9)
    if k == 0: return b + "\n", e + "\n"
    if k == 1: return "val = 1; " + b + "\n", "val = 1; " + e + "\n"
    if k == 2: return "if cond:\n    " + b + "\n", "if cond:\n    " + e + "\n"
    if k == 3: return "for i in xs:\n\tif i:\n\t\t" + b + "\n\telse:\n\t\tpass\n", "for i in xs:\n\tif i:\n\t\t" + e + "\n\telse:\n\t\tpass\n"
    if k == 4: return "def f():\n  " + b + "\n  return 1\n", "def f():\n  " + e + "\n  return 1\n"
    if k == 5: return "try:\n    " + b + "\nexcept Exception:\n    " + b + "\n", "try:\n    " + e + "\nexcept Exception:\n    " + e + "\n"
    if k == 6: return "if cond: " + b + "\n", "if cond: " + e + "\n"
    if k == 7: return b + "; " + b + "\n", e + "; " + e + "\n"
    if k == 8:
        # backslash continuation at a blank
        def cont(s):
            idx = [i for i, c in enumerate(s) if c == " "]
            if not idx: return s
            i = rng.choice(idx); return s[:i] + " \\\n" + s[i + 1:]
        st = rng.getstate(); b2 = cont(b); return b2 + "\n", None
def alarm(*a): raise TimeoutError()
signal.signal(signal.SIGALRM, alarm)
res = collections.Counter(); ex = {}
for i in range(N):
    b, e = chain(); B, E = place(b, e)
    if E is None:
        E = "![" + b + "]\n" if "![" not in b and not any(o in b for o in (" and ", " or ", " && ", " || ")) else None
        if E is None: continue
    signal.alarm(10)
    try:
        te = exr.parse(E, ctx=set(CTX))
    except SyntaxError as x:
        res["EXPLICIT-REJECTED"] += 1; signal.alarm(0); continue
    except BaseException as x:
        res["EXPLICIT-CRASH " + type(x).__name__] += 1; ex.setdefault("EXPLICIT-CRASH " + type(x).__name__, E); signal.alarm(0); continue
    try:
        tb = exr.parse(B, ctx=set(CTX))
        k = "OK" if norm(tb) == norm(te) else "TREE-DIFF"
    except SyntaxError as x: k = "BARE-REJECTED"
    except TimeoutError: k = "HANG"
    except BaseException as x: k = "CRASH " + type(x).__name__ + " " + str(x)[:40]
    finally: signal.alarm(0)
    res[k] += 1
    if k != "OK":
        ex.setdefault(k, [])
        if len(ex[k]) < 400: ex[k].append(B)
print(json.dumps({"res": res.most_common(), "ex": ex}))
