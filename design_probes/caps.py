import ctypes, os, struct
libc = ctypes.CDLL(None, use_errno=True)
CAP_DAC_OVERRIDE, CAP_DAC_READ_SEARCH, CAP_FOWNER = 1, 2, 3
class Hdr(ctypes.Structure): _fields_ = [("version", ctypes.c_uint32), ("pid", ctypes.c_int)]
class Data(ctypes.Structure): _fields_ = [("effective", ctypes.c_uint32), ("permitted", ctypes.c_uint32), ("inheritable", ctypes.c_uint32)]
hdr = Hdr(0x20080522, 0); data = (Data * 2)()
assert libc.capget(ctypes.byref(hdr), data) == 0
mask = ~((1 << CAP_DAC_OVERRIDE) | (1 << CAP_DAC_READ_SEARCH)) & 0xFFFFFFFF
data[0].effective &= mask; data[0].permitted &= mask; data[0].inheritable &= mask
r = libc.capset(ctypes.byref(hdr), data); print("capset", r, ctypes.get_errno())
d = "/tmp/scratch/noperm"; os.makedirs(d, exist_ok=True); os.chmod(d, 0)
print("uid", os.getuid(), "access X:", os.access(d, os.X_OK))
try: os.chdir(d); print("chdir ok (bad)")
except OSError as e: print("chdir:", e)
import json, xonsh.tools  # imports from /root/.pyenv still fine?
print("import ok", os.listdir("/root")[:2])
os.chmod(d, 0o755)
