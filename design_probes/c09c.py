import sys, os, time; sys.path.insert(0, "/tmp/scratch")
from sess import mk, XSH
ex, ctx = mk()
E = sys.__stderr__
def _p(args, stdin=None, stdout=None): print("x", file=stdout)
def _c(args, stdin=None, stdout=None):
    for l in stdin: pass
    time.sleep(0.2)
XSH.aliases["prod"] = _p; XSH.aliases["cons"] = _c
so, se = sys.stdout, sys.stderr
for i in range(3): ex.exec("prod | cons", glbs=ctx, locs=ctx, mode="exec")
time.sleep(0.5)
print("stdout same:", sys.stdout is so, type(sys.stdout).__name__, "stderr same:", sys.stderr is se, type(sys.stderr).__name__, file=E)
