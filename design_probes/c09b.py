import sys, os, time, threading, signal; sys.path.insert(0, "/tmp/scratch")
from sess import mk, XSH
ex, ctx = mk()
XSH.env["XONSH_SUBPROC_RAISE_ERROR"] = False
def kids():
    out=[]
    for k in open(f"/proc/self/task/{os.getpid()}/children").read().split():
        try: out.append((k, open(f"/proc/{k}/stat").read().split()[2], open(f"/proc/{k}/cmdline").read().replace("\0"," ")))
        except OSError: pass
    return out
for c in ["yes | nonexistent_cmd_xyz", "sleep 30 | nonexistent_cmd_xyz", "echo hi"]:
    n0 = len(os.listdir("/proc/self/fd"))
    try: ex.exec(c, glbs=ctx, mode="exec")
    except BaseException as e: print("exc", e)
    time.sleep(0.5)
    print(repr(c), "kids:", kids(), "fd delta", len(os.listdir("/proc/self/fd"))-n0, file=sys.__stderr__)
# SIGINT effect after alias pipeline
def a_ok(args, stdin=None, stdout=None): print("hello", file=stdout)
XSH.aliases["aok"] = a_ok
ex.exec("aok | cat", glbs=ctx, mode="exec")
print("handler", signal.getsignal(signal.SIGINT), file=sys.__stderr__)
for i in range(3):
    try:
        os.kill(os.getpid(), signal.SIGINT); time.sleep(0.2); print("no KeyboardInterrupt!", file=sys.__stderr__)
    except KeyboardInterrupt:
        print("KeyboardInterrupt ok", i, file=sys.__stderr__)
import subprocess; [os.kill(int(k[0]), 9) for k in kids()]
