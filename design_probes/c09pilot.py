import sys, os, time, threading, signal, gc, collections, random; sys.path.insert(0, "/tmp/scratch")
from sess import mk, XSH
ex, ctx = mk()
import faulthandler; faulthandler.dump_traceback_later(500, exit=True, file=sys.__stderr__)
E = sys.__stderr__
XSH.env["XONSH_SUBPROC_RAISE_ERROR"] = False
os.makedirs("/tmp/scratch/c09d", exist_ok=True); os.chdir("/tmp/scratch/c09d"); XSH.env["PWD"] = os.getcwd()
def a_ok(args, stdin=None, stdout=None): print("hello", file=stdout); return 0
def a_cat(args, stdin=None, stdout=None):
    for l in (stdin or []): stdout.write(l)
def a_one(args, stdin=None, stdout=None):
    stdout.write(stdin.readline())
def a_boom(args, stdin=None): raise RuntimeError("boom")
def a_exit(args, stdin=None): raise SystemExit(3)
def a_fail(args, stdin=None): return 2
def a_big(args, stdin=None, stdout=None):
    for i in range(20000): stdout.write("line %d\n" % i)
from xonsh.tools import unthreadable
@unthreadable
def a_unth(args, stdin=None, stdout=None): print("u", file=stdout)
XSH.aliases.update(dict(aok=a_ok, acat=a_cat, aone=a_one, aboom=a_boom, aexit=a_exit, afail=a_fail, abig=a_big, aunth=a_unth))
def kids():
    out = []
    try:
        for k in open(f"/proc/self/task/{os.getpid()}/children").read().split():
            try: out.append((open(f"/proc/{k}/stat").read().split()[2], open(f"/proc/{k}/cmdline").read().replace("\0", " ").strip()[:30]))
            except OSError: pass
    except OSError: pass
    return sorted(out)
def snap():
    fds = {}
    for f in os.listdir("/proc/self/fd"):
        try: fds[int(f)] = os.readlink(f"/proc/self/fd/{f}")
        except OSError: pass
    return dict(fds=fds, threads=sorted(t.name.split("(")[0].split("-")[0] + ("/d" if t.daemon else "") for t in threading.enumerate()), kids=kids(), cwd=os.getcwd(), std=(sys.stdin, sys.stdout, sys.stderr), env=dict(XSH.env.detype()))
def quiesce():
    last = None
    for _ in range(40):
        gc.collect(); s = snap(); key = (len(s["fds"]), s["threads"], s["kids"])
        if key == last: return s
        last = key; time.sleep(0.1)
    return s
stages_ok = ["echo hi", "cat", "aok", "acat", "abig", "yes", "head -n 1", "aone", "sh -c 'exit 3'", "afail"]
shapes = ["echo hi", "aok", "echo hi | cat", "aok | acat", "aok | cat", "echo hi | acat", "abig | head -n 1", "abig | aone", "yes | head -n 1", "yes | aone",
          "nonexistent_xyz", "echo hi | nonexistent_xyz", "nonexistent_xyz | cat", "aok | nonexistent_xyz", "yes | nonexistent_xyz", "echo a | cat | nonexistent_xyz | cat",
          "aboom", "aboom | cat", "echo hi | aboom", "aexit", "aexit | cat", "echo hi | aexit", "afail | cat", "sh -c 'exit 3' | cat",
          "echo hi > out1", "aok > out2", "cat < /nonexistent/f", "echo hi | cat < /nonexistent/f", "echo hi > /nonexistent/d/f", "aok | cat > /nonexistent/d/f", "yes | cat > /nonexistent/d/f",
          "aunth", "aok | aunth", "aunth | cat", "echo hi e>o | cat", "echo hi a> out3", "aok e> out4 | cat",
          "x = $(echo hi)", "x = $(aok | acat)", "x = $(nonexistent_xyz)", "x = $(yes | head -n 1)", "x = !(echo hi); x.end()", "x = !(aok); x.end()", "x = !(nonexistent_xyz); x.end()", "x = !(yes | head -n 1); x.end()", "x = !(echo hi | nonexistent_xyz); x.end()",
          "$[echo hi]", "echo @$(echo a b)", "echo @$(nonexistent_xyz)", "@error_ignore sh -c 'exit 1'"]
res = collections.Counter()
for c in shapes:
    def runit():
        try: ex.exec(c, glbs=ctx, locs=ctx, mode="exec")
        except BaseException as e: return type(e).__name__
    runit(); runit(); s0 = quiesce()
    for _ in range(5): runit()
    s1 = quiesce()
    diffs = []
    nf = {k: v for k, v in s1["fds"].items() if k not in s0["fds"]}
    if len(s1["fds"]) != len(s0["fds"]): diffs.append(("fd+%d" % (len(s1["fds"]) - len(s0["fds"])), sorted(set(v.split(":")[0] for v in nf.values()))))
    if s1["threads"] != s0["threads"]: diffs.append(("threads", [t for t in s1["threads"] if s1["threads"].count(t) > s0["threads"].count(t)][:4]))
    if s1["kids"] != s0["kids"]: diffs.append(("kids", [k for k in s1["kids"] if s1["kids"].count(k) > s0["kids"].count(k)][:4]))
    if s1["cwd"] != s0["cwd"]: diffs.append(("cwd",))
    if any(a is not b for a, b in zip(s1["std"], s0["std"])): diffs.append(("std",))
    if s1["env"] != s0["env"]: diffs.append(("env", {k for k in set(s1["env"]) | set(s0["env"]) if s1["env"].get(k) != s0["env"].get(k)}))
    try:
        os.kill(os.getpid(), signal.SIGINT); time.sleep(0.3); diffs.append(("SIGINT-not-raised",))
    except KeyboardInterrupt: pass
    print(("LEAK " if diffs else "ok   ") + repr(c), diffs, file=E)
    res["leak" if diffs else "ok"] += 1
print(dict(res), file=E)
for st, cmdl in kids(): pass
for k in open(f"/proc/self/task/{os.getpid()}/children").read().split():
    try: os.kill(int(k), 9)
    except OSError: pass
