import ast, sys, os, random, json, collections, signal
sys.path.insert(0, "/tmp/ptab"); sys.path.insert(0, "/tmp/scratch")
from xonsh.execer import Execer
from xonsh.built_ins import XSH
from xonsh.environ import Env
from xonsh.formatter.core import format_source, FormatError
exr = Execer(parser_args=dict(yacc_optimize=False, yacc_table="verif_ptab", outputdir="/tmp/ptab"))
XSH.load(execer=exr, ctx={}, env=Env({"PATH": [], "HOME": "/tmp/scratch/home"}))
import builtins as _b
CTX = set(dir(_b)) | {"xs", "cond", "val", "log"}
def norm(n):
    if isinstance(n, ast.AST): return (type(n).__name__, [(f, norm(getattr(n, f, None))) for f in n._fields if f not in ("kind", "type_comment")])
    if isinstance(n, list): return [norm(x) for x in n]
    return repr(n)
seed = int(sys.argv[1]); N = int(sys.argv[2]); rng = random.Random(seed)
WORDS = ["a", "-x", "--long", "--k=v", "-n1", "a/b.c", "./x", "a:b", "a,b", "+x", "%d", "k=v", "12", "x-y", "a.b", "*.py", "~/z", "a@b", "a+b", "x==y", "x!=y", "a<=b", "http://h/p?q=1", "{a,b}", "a[1]", "a[1:2]", "host:/p", "-v", "$PWD:/w", "a->b", "a;b", "x+=1", "1+1", "a**b", "a//b", "(x)", "a|b"]
STRS = ["'s p'", '"d  q"', "r'\\raw'", "f'{val}'", "f'{val!r:>5}'", "'''t  \nu'''", '"""a\n  b  \n"""']
SUBS = ["$HOME", "@(val)", "@([1,2])", "$(cmd9  q)", "@$(cmd9 q)", "pre@(val)post", "![cmd9 x]", "$[cmd9 x]", "!(cmd9 x)", "${'H'+'OME'}"]
def arg():
    r = rng.random()
    return rng.choice(WORDS) if r < .6 else rng.choice(STRS) if r < .8 else rng.choice(SUBS)
def cmdline():
    toks = ["cmd%d" % rng.randint(0, 5)] + [arg() for _ in range(rng.randint(0, 4))]
    sep = rng.choice([" ", " ", "  ", "   "])
    s = sep.join(toks)
    if rng.random() < .2: s += rng.choice([" > out.txt", " 2>&1", " e>o", " | cmd7 -x", " && cmd8", " || cmd8 a:b", " &"])
    return s
PY = ["x = 1", "y=x+1", "def f(a,b = 2):\n    return a", "if cond :\n  val = [1,2 ,3]", "for i in xs:\n\tlog.append( i )", "z = {'a':1 , 'b' : 2}", "w = val[1 : 2]", "print( 'a' , end = '' )", "lam = lambda q=1 : q", "s = '''m  \n  n'''", "t = f'{val}  {val!r}'", "# comment   ", "x = 1  # trailing", "import os,sys", "class C :\n    pass", "with open('f') as g : pass", "assert val , 'm'", "u = val if cond else 0", "v = not cond", "k = val@val"]
MAC = ["cmd0! raw  text  here", "cmd1!  a,b : c", "f!(x  +  1, y)", "with! cond:\n    raw  block  text\n    more"]
def source():
    parts = []
    for _ in range(rng.randint(1, 5)):
        r = rng.random()
        if r < .45: parts.append(cmdline())
        elif r < .85: parts.append(rng.choice(PY))
        elif r < .93: parts.append(rng.choice(MAC))
        else: parts.append("if cond:\n    " + cmdline() + "\n    " + rng.choice(["x = 1", cmdline()]))
        if rng.random() < .15: parts.append("")
    return "\n".join(parts) + "\n"
def alarm(*a): raise TimeoutError()
signal.signal(signal.SIGALRM, alarm)
res = collections.Counter(); ex = collections.defaultdict(list)
for i in range(N):
    s = source(); signal.alarm(15)
    try:
        try: t0 = norm(exr.parse(s, ctx=set(CTX)))
        except SyntaxError: res["input-rejected-by-xonsh"] += 1; continue
        try: o = format_source(s)
        except FormatError: res["FormatError"] += 1; continue
        try: t1 = norm(exr.parse(o, ctx=set(CTX)))
        except SyntaxError: k = "OUTPUT-UNPARSABLE"
        else: k = "ok" if t1 == t0 else "MEANING-CHANGED"
        if k == "ok" and format_source(o) != o: k = "NOT-IDEMPOTENT"
    except TimeoutError: k = "HANG"
    except BaseException as x: k = "CRASH " + type(x).__name__ + " " + str(x)[:40]
    finally: signal.alarm(0)
    res[k] += 1
    if k != "ok" and len(ex[k]) < 300: ex[k].append((s, o if 'o' in dir() else None))
print(json.dumps({"res": res.most_common(), "ex": {k: v for k, v in ex.items()}}))
