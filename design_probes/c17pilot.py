import ast, sys, os, random, time, json, collections, textwrap, signal
from xonsh.formatter.core import format_source, FormatError
seed, nshard, shard = int(sys.argv[1]), int(sys.argv[2]), int(sys.argv[3])
root = os.path.dirname(ast.__file__)
files = sorted(os.path.join(dp, f) for dp, dn, fn in os.walk(root) for f in fn if f.endswith(".py"))
random.Random(seed).shuffle(files); files = files[shard::nshard][: int(sys.argv[4])]
stmts = set(); whole = []
for fn in files:
    try: src = open(fn, encoding="utf-8").read(); tree = ast.parse(src)
    except Exception: continue
    if len(src) < 60000: whole.append(src)
    for node in ast.walk(tree):
        if isinstance(node, ast.stmt):
            seg = ast.get_source_segment(src, node, padded=True)
            if seg and len(seg) < 3000: stmts.add(textwrap.dedent(seg) + "\n")
stmts = sorted(stmts); random.Random(seed).shuffle(stmts); stmts = stmts[: int(sys.argv[5])] + whole
res = collections.Counter(); ex = {}
def dump(s): return ast.dump(ast.parse(s))
def alarm(*a): raise TimeoutError()
signal.signal(signal.SIGALRM, alarm)
t0 = time.time(); n = 0
for s in stmts:
    try: e = dump(s)
    except Exception: continue
    n += 1; signal.alarm(20)
    try:
        o = format_source(s)
        try: g = dump(o)
        except SyntaxError as x: k = "BROKEN-OUTPUT " + str(x.msg)[:40]
        else:
            if g != e:
                # locate first differing line roughly
                k = "MEANING-CHANGED"
            else:
                o2 = format_source(o)
                k = "OK" if o2 == o else "NOT-IDEMPOTENT"
    except FormatError as x: k = "FORMATERROR " + str(x)[:40]
    except TimeoutError: k = "HANG"
    except BaseException as x: k = "CRASH " + type(x).__name__ + " " + str(x)[:40]
    finally: signal.alarm(0)
    res[k] += 1
    if k != "OK" and (k not in ex or len(s) < len(ex[k])): ex[k] = s
print(json.dumps({"n": n, "wall": time.time() - t0, "res": res.most_common(), "ex": ex}))
