import sys, os, shutil, time, builtins; sys.path.insert(0, "/tmp/scratch")
shutil.rmtree("/tmp/scratch/data", ignore_errors=True)
from sess import mk, XSH
ex, ctx = mk()
E = sys.__stderr__
import xonsh.history.json as J, xonsh.lib.lazyjson as LJ
fn = "/tmp/scratch/data/hx.json"
h = J.JsonHistory(filename=fn, sessionid="sx", buffersize=100, gc=False)
for i in range(5): h.append({"inp": f"cmd{i}", "rtn": 0, "ts": [i, i + .5]})
h.flush(at_exit=True)
print("saved", [c["inp"] for c in LJ.LazyJSON(fn).load()["cmds"]], file=E)
# inject OSError on the read-open of the existing file during next flush
real_open = builtins.open
state = {"n": 0}
def bad_open(path, *a, **k):
    mode = a[0] if a else k.get("mode", "r")
    if str(path) == fn and "r" in mode and "w" not in mode:
        state["n"] += 1
        if state["n"] == 1: raise OSError(24, "Too many open files")
    return real_open(path, *a, **k)
J.open = bad_open
h.append({"inp": "new", "rtn": 0, "ts": [9, 9.5]})
h.flush(at_exit=True)
del J.open
print("after faulty flush", [c["inp"] for c in LJ.LazyJSON(fn).load()["cmds"]], file=E)
# C09: sys.stdout identity after two alias stages
import threading
def a1(args, stdin=None, stdout=None): print("x", file=stdout)
def a2(args, stdin=None, stdout=None):
    for l in stdin: pass
    time.sleep(0.2)
XSH.aliases["a1"] = a1; XSH.aliases["a2"] = a2
so = sys.stdout
for i in range(5): ex.exec("a1 | a2", glbs=ctx, mode="exec")
print("stdout same:", sys.stdout is so, type(sys.stdout).__name__, file=E)
