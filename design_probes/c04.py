import sys, os, shutil, time; sys.path.insert(0, "/tmp/scratch")
from sess import mk, XSH
ex, ctx = mk()
LOG = []
def rec(args, stdin=None): LOG.append(list(args)); return 0
XSH.aliases["rec"] = rec
os.makedirs("/tmp/scratch/g", exist_ok=True); os.chdir("/tmp/scratch/g"); XSH.env["PWD"] = os.getcwd()
for n in ("a1", "a2"): open(n, "w").close()
def run(src, **kw):
    LOG.clear(); ctx.update(kw)
    try: ex.exec(src, glbs=ctx, mode="exec")
    except BaseException as e: return type(e).__name__, str(e)[:60]
    return LOG[:]
E = sys.__stderr__
print(run("rec @(x)", x="a*"), file=E)
print(run("rec p@(x)", x="*"), file=E)
print(run("rec @(x)q", x="a*"), file=E)
print(run("rec @(x)/b", x="~"), file=E)
print(run("rec @(x)z", x="$HOME"), file=E)
print(run("rec @(x)", x=["a b", "c\nd", "", "*", b"by\xfftes", 5]), file=E)
print(run("rec 'a\\\\' \"$HOME\" r'$HOME' '~' f'{x}*'", x="q"), file=E)
print(run("rec! a  'b' $HOME *  "), file=E)
print(run("rec @$(echo '*' '$HOME' '~' 'a b')"), file=E)
print(run("rec a\\ b 'x'y \"q\"'r'"), file=E)
# C08 chmod staleness
from xonsh.procs.executables import locate_executable
d1, d2 = "/tmp/scratch/p1", "/tmp/scratch/p2"
for d in (d1, d2):
    shutil.rmtree(d, ignore_errors=True); os.makedirs(d)
    with open(d + "/tool", "w") as f: f.write("#!/bin/sh\necho $0\n")
    os.chmod(d + "/tool", 0o755)
XSH.env["PATH"] = [d1, d2]
cc = XSH.commands_cache
print("before", locate_executable("tool"), cc.locate_binary("tool"), "tool" in cc, file=E)
os.chmod(d1 + "/tool", 0o644)
import shutil as sh
print("after chmod -x", locate_executable("tool"), cc.locate_binary("tool"), "tool" in cc, "which:", sh.which("tool", path=os.pathsep.join([d1, d2])), file=E)
os.remove(d2 + "/tool"); os.utime(d2, (time.time()+5, time.time()+5))
print("after rm p2", locate_executable("tool"), cc.locate_binary("tool"), "tool" in cc, file=E)
# C14 boundary
from xonsh.history.json import _xhj_gc_files_to_rmfiles, _xhj_gc_commands_to_rmfiles, _xhj_gc_bytes_to_rmfiles
files = [(1.0, 3, "f1", 100), (2.0, 0, "f2", 0), (3.0, 5, "f3", 200)]
print("files0", _xhj_gc_files_to_rmfiles(0, files), "cmds0", _xhj_gc_commands_to_rmfiles(0, files), "cmds5", _xhj_gc_commands_to_rmfiles(5, files), "bytes0", _xhj_gc_bytes_to_rmfiles(0, files), file=E)
