import sys, os, time, shutil; sys.path.insert(0, "/tmp/scratch")
from sess import mk, XSH
ex, ctx = mk()
XSH.env["XONSH_SUBPROC_RAISE_ERROR"] = False
d = "/tmp/scratch/r"; shutil.rmtree(d, ignore_errors=True); os.makedirs(d); os.chdir(d); XSH.env["PWD"] = d
def al(args, stdin=None, stdout=None, stderr=None):
    tag = args[0]; data = stdin.read() if (len(args) > 1 and args[1] == "in" and stdin is not None) else ""
    stdout.write(f"O{tag}[{data}]\n"); stderr.write(f"E{tag}\n")
XSH.aliases["al"] = al
PY = sys.executable; EM = "/tmp/scratch/emit.py"
def term_mark(): return (os.fstat(1).st_size, os.fstat(2).st_size)
def term_since(m):
    out = open("/tmp/scratch/c07.t1", "rb").read()[m[0]:]; err = open("/tmp/scratch/c07.t2", "rb").read()[m[1]:]
    return out, err
res = []
cases = []
for kind, cmd in (("ext", f"{PY} {EM} 1"), ("alias", "al 1")):
    for op in [">", "o>", "1>", "out>", ">>", "e>", "2>", "err>", "e>>", "a>", "&>", "all>", "a>>"]:
        cases.append((kind, op, f"{cmd} {op} f_{kind}.txt"))
    for op in ["e>o", "2>&1", "err>out", "o>e", "1>&2", "out>err"]:
        cases.append((kind, op, f"{cmd} {op}"))
        cases.append((kind, op + "|", f"{cmd} {op} | {PY} {EM} 2 in"))
    for op in ["e>p", "a>p", "err>p", "all>p", "2>p"]:
        cases.append((kind, op + "|", f"{cmd} {op} | {PY} {EM} 2 in"))
    cases.append((kind, "cap$()", f"x = $({cmd})"))
    cases.append((kind, "cap$() e>o", f"x = $({cmd} e>o)"))
for kind, op, src in cases:
    for f in os.listdir(d): os.remove(os.path.join(d, f))
    open(f"f_{kind}.txt", "w").write("OLD\n")
    ctx.pop("x", None)
    open("/tmp/scratch/c07.prog","a").write(src+"\n"); sys.stdout.flush(); sys.stderr.flush(); m = term_mark(); t0 = time.time()
    try: ex.exec(src, glbs=ctx, locs=ctx, mode="exec"); exc = None
    except BaseException as e: exc = type(e).__name__ + ":" + str(e)[:50]
    sys.stdout.flush(); sys.stderr.flush(); time.sleep(0.05)
    o, e = term_since(m)
    fc = open(f"f_{kind}.txt").read() if os.path.exists(f"f_{kind}.txt") else None
    res.append((kind, op, dict(file=fc, t1=o.decode(), t2=e.decode(), cap=ctx.get("x"), exc=exc, ms=int((time.time()-t0)*1000))))
import json
open("/tmp/scratch/c07.res", "w").write("\n".join(json.dumps(r) for r in res))
