import sys, os, random, collections, signal; sys.path.insert(0, "/tmp/scratch")
from sess import mk, XSH
ex, ctx = mk()
from xonsh.aliases import Aliases
E = sys.__stderr__
seed = int(sys.argv[1]); rng = random.Random(seed)
NAMES = ["a", "b", "c", "d", "e", "ls", "g", "h"]
def gen_table():
    n = rng.randint(1, 7); names = rng.sample(NAMES, n); t = {}
    for nm in names:
        r = rng.random()
        if r < .15: t[nm] = ("call", nm)
        else:
            head = rng.choice(names + ["ext1", "ext2", nm])
            t[nm] = ("list", [head] + [rng.choice(["-x", "--k=v", "p q", "*", "$HOMEX", "z"]) for _ in range(rng.randint(0, 2))])
    return t
def build(t, order):
    al = Aliases()
    fns = {}
    for nm in order:
        kind, v = t[nm]
        if kind == "call":
            def f(args, stdin=None, _n=nm): return 0
            fns[nm] = f; al[nm] = f
        else: al[nm] = list(v)
    return al
def ref(t, cmd):
    name, *args = cmd
    if name not in t: return None
    seen = {name}; kind, val = t[name]; acc = list(args); steps = 0
    while True:
        steps += 1
        if kind == "call": return ["<callable:%s>" % val] + acc
        token, *rest = val
        if token in seen or token not in t: return [token] + rest + acc
        seen.add(token); acc = rest + acc; kind, val = t[token]
def show(r):
    if r is None: return None
    return [("<callable:%s>" % getattr(x, "__name__", "?")) if callable(x) else x for x in r]
def alarm(*a): raise TimeoutError()
signal.signal(signal.SIGALRM, alarm)
res = collections.Counter()
for i in range(int(sys.argv[2])):
    t = gen_table(); names = list(t)
    cmd = [rng.choice(names + ["nope"])] + [rng.choice(["u1", "u 2", "*", "-x"]) for _ in range(rng.randint(0, 3))]
    outs = []
    for _ in range(3):
        order = names[:]; rng.shuffle(order); al = build(t, order)
        signal.alarm(5)
        try: r = al.get(list(cmd)); r = show(list(r) if r is not None else None)
        except TimeoutError: r = "HANG"
        except BaseException as x: r = "EXC " + type(x).__name__ + ": " + str(x)[:50]
        finally: signal.alarm(0)
        outs.append(r)
    exp = ref(t, cmd)
    if exp is not None: exp = [e if e.startswith("<callable") else e for e in exp]
    # callable names: FuncAlias __name__ may differ; compare by position type
    def canon(r):
        if r is None or isinstance(r, str): return r
        return [("<callable>" if isinstance(x, str) and x.startswith("<callable") else x) for x in r]
    k = "ok"
    if any(canon(o) != canon(outs[0]) for o in outs): k = "ORDER-DEPENDENT"
    elif isinstance(outs[0], str): k = outs[0].split(":")[0]
    elif canon(outs[0]) != canon(exp): k = "DIFF-FROM-REF"
    elif outs[0] is not None and cmd[1:] and outs[0][-len(cmd[1:]):] != cmd[1:]: k = "ARGS-NOT-SUFFIX"
    res[k] += 1
    if k != "ok" and res[k] <= 3: print(k, "table", t, "cmd", cmd, "got", outs[0], "exp", exp, file=E)
print(res.most_common(), file=E)
