import ast, sys
from xonsh.parser import Parser
p = Parser()
srcs = ["self.x: int = 1\n", "for i, in xs:\n    pass\n", "1>=1\n", "{a, *b}\n", "def f(a, *args: T, **kw: T):\n    pass\n", "with (a as b, c as d):\n    pass\n", "x = 1\n", "a>=1\n", "f'{x!r:>{w}}'\n", "async def f():\n    await x\n", "match x:\n    case [1, *r]:\n        pass\n", "type X = int\n", "def f[T](x: T) -> T: ...\n", "x = (yield)\n", "lambda *, a: a\n", "print(*a, **b)\n", "a[1:2, ::3]\n", "a = b = c\n", "x: int\n", "(x): int = 1\n", "del a, b\n", "global a\n", "f'''{\nx\n}'''\n", "1_000.0e1j\n", "a if b else c\n", "[x async for x in y]\n", "class A(B, metaclass=M): pass\n", "try:\n  pass\nexcept* E:\n  pass\n", "x = a @ b\n", "a @= b\n", "not a\n", "a is not b\n", "a not in b\n", "x = 1 if 2 else 3,\n","assert x, y\n","raise X from Y\n","from . import a\n", "from ..a.b import (c as d, e)\n", "import a.b as c\n", "while x:\n  pass\nelse:\n  pass\n", "u'abc' b'abc' \n", "a = rb'\\x'\n", "x = 0o17 + 0xff + 0b1\n","print(a, end='')\n", "a<b\n", "a<b>c\n", "2>1\n", "a>b\n"]
def dump(t): return ast.dump(t, include_attributes=False)
for s in srcs:
    try:
        e = dump(ast.parse(s))
    except SyntaxError as ex:
        print("PYREJECT", repr(s)); continue
    try:
        t = p.parse(s)
        g = dump(t)
        if g != e:
            print("DIFF", repr(s)); print("   exp", e); print("   got", g)
        else:
            try:
                compile(t, "<x>", "exec"); print("OK", repr(s))
            except Exception as ex:
                print("COMPILEFAIL", repr(s), ex)
    except BaseException as ex:
        print("REJECT", repr(s), type(ex).__name__, str(ex)[:100])
