import sys, os, shutil, random, time, collections, io, contextlib; sys.path.insert(0, "/tmp/scratch")
DD = "/tmp/scratch/data14"; shutil.rmtree(DD, ignore_errors=True); os.makedirs(DD + "/history_json")
os.environ["XONSH_DATA_DIR"] = DD
from sess import mk, XSH
ex, ctx = mk()
E = sys.__stderr__
XSH.env["XONSH_DATA_DIR"] = DD
import xonsh.history.json as J, xonsh.lib.lazyjson as LJ
import xonsh.xoreutils.uptime as up
boot = up.boottime(); now = time.time()
seed = int(sys.argv[1]); rng = random.Random(seed)
res = collections.Counter(); shown = collections.Counter()
HD = DD + "/history_json"
for it in range(int(sys.argv[2])):
    for f in os.listdir(HD): os.remove(os.path.join(HD, f))
    n = rng.randint(0, 8); files = []
    ages = sorted(rng.sample(range(10, 100000), n), reverse=True)
    for i in range(n):
        ncmd = rng.choice([0, 0, 1, 2, 3, 5, 10]); age = ages[i]
        kind = rng.choices(["unlocked", "live-locked", "stale-locked", "corrupt", "empty"], [6, 2, 1, 1, 1])[0]
        ts_end = now - age; ts_beg = ts_end - 5
        if kind == "stale-locked": ts_beg = boot - 1000 - i; ts_end = None
        if kind == "live-locked": ts_beg = max(boot + 1, now - age - 5); ts_end = None
        path = os.path.join(HD, "xonsh-f%02d.json" % i)
        cmds = [{"inp": "c%d_%d" % (i, j) + "x" * rng.randint(0, 40), "rtn": 0, "ts": [ts_beg, ts_beg + 1]} for j in range(ncmd)]
        meta = {"cmds": cmds, "sessionid": "f%02d" % i, "ts": [ts_beg, ts_end], "locked": kind in ("live-locked", "stale-locked")}
        with open(path, "w", newline="\n") as fp:
            if kind == "empty": pass
            elif kind == "corrupt": fp.write(LJ.dumps(meta)[: rng.randint(5, 60)])
            else: LJ.ljdump(meta, fp, sort_keys=True)
        sort_ts = (ts_end or ts_beg) if kind not in ("empty", "corrupt") else os.path.getmtime(path)
        files.append(dict(path=path, kind=kind, ncmd=ncmd if kind not in ("empty", "corrupt") else 0, ts=sort_ts, size=os.path.getsize(path)))
    unit = rng.choice(["commands", "files", "s", "b"]); force = rng.random() < .4
    U = sorted([f for f in files if f["kind"] in ("unlocked", "stale-locked", "empty")], key=lambda f: f["ts"])
    tot = {"commands": sum(f["ncmd"] for f in U), "files": len(U), "b": sum(f["size"] for f in U), "s": int(now - U[0]["ts"]) + 1 if U else 0}[unit]
    cand = sorted(set([0, 1, tot, max(tot - 1, 0), tot + 1] + ([U[-1]["ncmd"], U[-1]["ncmd"] + 1] if U and unit == "commands" else []) + [rng.randint(0, max(tot, 1))]))
    lim = rng.choice(cand)
    if unit == "s" and lim == 0: lim = 1
    buf = io.StringIO()
    with contextlib.redirect_stdout(buf):
        gc = J.JsonHistoryGC(wait_for_shell=False, size=(lim, unit), force=force); gc.join(30)
    refused = "would discard more" in buf.getvalue()
    remaining = set(os.path.join(HD, f) for f in os.listdir(HD))
    D = [f for f in files if f["path"] not in remaining]
    bad = None
    def measure(fs): return {"commands": sum(f["ncmd"] for f in fs), "files": len(fs), "b": sum(f["size"] for f in fs)}.get(unit)
    def fits(K):
        if unit == "s": return all(now - f["ts"] < lim for f in K)
        return measure(K) <= lim
    if any(f["kind"] == "live-locked" for f in D): bad = "LOCKED-DELETED"
    elif any(f["kind"] == "corrupt" for f in D): bad = "CORRUPT-DELETED?"
    elif [f["path"] for f in D] != [f["path"] for f in U[: len(D)]]: bad = "NOT-OLDEST-FIRST"
    elif fits(U) and D: bad = "DELETED-THOUGH-FITS"
    elif D or (force and not refused):
        K = [f for f in U if f["path"] in remaining]
        if not fits(K): bad = "KEPT-EXCEEDS-LIMIT"
        elif D and fits(K + [D[-1]]) if unit != "s" else False: bad = "NOT-MAXIMAL"
    if bad is None and not fits(U) and not D and force: bad = "FORCED-BUT-NOTHING-DELETED"
    key = (bad or "ok") + " " + unit
    res[key] += 1
    if bad and shown[key] < 2:
        shown[key] += 1
        print(key, "lim", lim, "force", force, "refused", refused, "files", [(os.path.basename(f["path"]), f["kind"], f["ncmd"], f["size"], int(now - f["ts"])) for f in sorted(files, key=lambda f: f["ts"])], "deleted", [os.path.basename(f["path"]) for f in D], file=E)
print(sorted(res.items()), file=E)
