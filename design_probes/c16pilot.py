import sys, os, shutil, random, io, contextlib, collections; sys.path.insert(0, "/tmp/scratch")
from sess import mk, XSH
ex, ctx = mk()
import xonsh.dirstack as D
E = sys.__stderr__
seed = int(sys.argv[1]); rng = random.Random(seed)
root = os.path.realpath("/tmp/scratch/t16_%d" % seed); shutil.rmtree(root, ignore_errors=True)
dirs = ["A", "B", "C", "A/x", "A/y", "B/z", "sp ace", "-dash", "+3"]
for d in dirs: os.makedirs(os.path.join(root, d))
os.symlink(os.path.join(root, "A/x"), os.path.join(root, "lnk")); open(os.path.join(root, "file"), "w").close()
HOME = os.path.join(root, "A"); XSH.env["HOME"] = HOME
class Model:
    def __init__(s): s.P = root; s.O = None; s.S = []
def isdir(P, d): return os.path.isdir(os.path.join(P, d))
def model_step(m, op, args, env):
    # returns ("ok"|"err"|"skip")
    P, S = m.P, m.S; L = [P] + S
    F, B = ("+", "-") if env["PUSHD_MINUS"] else ("-", "+")
    def chdir(t):
        t = os.path.abspath(os.path.join(P, t))
        if not os.path.isdir(t): return False
        m.O = P; m.P = t; return True
    def idx(a):
        if len(a) < 2 or a[0] not in "+-": return None
        try: n = int(a[1:])
        except ValueError: return None
        if n < 0: return None
        return (a[0], n)
    if op == "cd":
        if not args: return "ok" if chdir(HOME) else "err"
        d = args[0]
        if isdir(P, d): t = d
        elif d == "-":
            if m.O is None: return "err"
            t = m.O
        elif d.startswith("-"):
            try: n = int(d[1:])
            except ValueError: return "err"
            if n == 0: return "ok"
            if n < 0 or n > len(S): return "err"
            t = S[n - 1]
        else: return "err"
        if not os.path.isdir(os.path.join(P, t)): return "err"
        if env["AUTO_PUSHD"]: m.S = ([P] + S)[: env["DIRSTACK_SIZE"]]
        return "ok" if chdir(t) else "err"
    if op == "pushd":
        if not args:
            if not S: return "err"
            t = S[0]
            if not os.path.isdir(t): return "err"
            m.S = [P] + S[1:]; chdir(t); m.S = m.S[: env["DIRSTACK_SIZE"]]; return "ok"
        a = args[0]
        if isdir(P, a):
            m.S = [P] + S; chdir(a); m.S = m.S[: env["DIRSTACK_SIZE"]]; return "ok"
        r = idx(a)
        if r is None: return "err"
        sign, n = r
        if n > len(S): return "err"
        i = n if sign == B else len(L) - 1 - n
        L2 = L[i:] + L[:i]
        if L2[0] != P and not os.path.isdir(L2[0]): return "err"
        if L2[0] != P: m.O = P
        m.P = L2[0]; m.S = L2[1:][: env["DIRSTACK_SIZE"]]; return "ok"
    if op == "popd":
        if not args:
            if not S: return "err"
            if not os.path.isdir(S[0]): return "err"
            t = S[0]; m.S = S[1:]; chdir(t); return "ok"
        r = idx(args[0])
        if r is None: return "err"
        sign, n = r
        if n > len(S) or not S: return "err"
        i = n if sign == B else len(L) - 1 - n
        if i == 0:
            if not os.path.isdir(S[0]): return "err"
            t = S[0]; m.S = S[1:]; chdir(t); return "ok"
        m.S = S[: i - 1] + S[i:]; return "ok"
    return "skip"
res = collections.Counter(); shown = collections.Counter()
for hist in range(int(sys.argv[2])):
    env = dict(PUSHD_MINUS=rng.random() < .3, AUTO_PUSHD=rng.random() < .3, DIRSTACK_SIZE=rng.choice([1, 3, 20]))
    for k, v in env.items(): XSH.env[k] = v
    XSH.env["PUSHD_SILENT"] = True; XSH.env["CDPATH"] = []
    os.chdir(root); XSH.env["PWD"] = root
    try: del XSH.env["OLDPWD"]
    except KeyError: pass
    D.DIRSTACK[:] = []; m = Model(); trace = []
    for step in range(14):
        op = rng.choice(["cd", "cd", "pushd", "pushd", "popd"])
        if op == "cd": args = rng.choice([[], ["-"], ["-1"], ["-2"], ["-0"], ["-x"], ["nonexist"], ["file"]] + [[rng.choice(["A", "B", "C", "x", "y", "z", "..", "../B", "lnk", "lnk/..", root + "/C", "sp ace", "A/x"])]] * 6)
        elif op == "pushd": args = rng.choice([[], ["+0"], ["+1"], ["+2"], ["-0"], ["-1"], ["-2"], ["+9"], ["+x"], ["nonexist"], ["file"]] + [[rng.choice(["A", "B", "C", "..", "lnk", root + "/A/y", "x"])]] * 5)
        else: args = rng.choice([[], [], ["+0"], ["+1"], ["+2"], ["-0"], ["-1"], ["+9"], ["-x"], ["3"]])
        f = {"cd": D.cd, "pushd": D.pushd, "popd": D.popd}[op]
        before = (os.getcwd(), XSH.env["PWD"], XSH.env.get("OLDPWD"), list(D.DIRSTACK))
        buf = io.StringIO()
        with contextlib.redirect_stderr(buf):
            try: r = f(list(args))
            except BaseException as x: r = ("EXC", repr(x)[:60], 99)
        rc = (r[2] if isinstance(r, tuple) and len(r) > 2 else 0) if r is not None else 0
        err = ((r[1] or "") if isinstance(r, tuple) and len(r) > 1 else "") + buf.getvalue()
        after = (os.getcwd(), XSH.env["PWD"], XSH.env.get("OLDPWD"), list(D.DIRSTACK))
        exp = model_step(m, op, args, env)
        trace.append((op, args))
        bad = None
        if os.path.realpath(after[0]) != os.path.realpath(after[1]): bad = "I1 cwd!=PWD"
        elif (rc != 0 or err.strip()) and after != before: bad = "I2 failed-op-changed-state"
        elif isinstance(r, tuple) and r[0] == "EXC": bad = "EXC " + r[1]
        elif exp == "err" and not (rc != 0 or err.strip()): bad = "M model-says-error impl-silent"
        elif exp == "ok" and (rc != 0 or err.strip()): bad = "M model-ok impl-error: " + err.strip()[:40]
        elif exp == "ok" and (os.path.realpath(m.P) != os.path.realpath(after[0]) or [os.path.realpath(x) for x in m.S] != [os.path.realpath(x) for x in after[3]]): bad = "M state-differs"
        elif exp == "ok" and m.O and after[2] and os.path.realpath(m.O) != os.path.realpath(after[2]): bad = "M OLDPWD differs"
        elif len(after[3]) > env["DIRSTACK_SIZE"] and op == "pushd": bad = "I3 stack>size"
        if bad:
            key = bad.split(":")[0] + " @" + op + (" N" if args and args[0][:1] in "+-" and args[0][1:].isdigit() else (" dir" if args else " noarg"))
            res[key] += 1
            if shown[key] < 2:
                shown[key] += 1
                rel = lambda p: os.path.relpath(p, root) if p else p
                print(key, "| env", env, "| trace", trace[-4:], "| before", [rel(before[0]), [rel(x) for x in before[3]]], "| after", [rel(after[0]), rel(after[2]), [rel(x) for x in after[3]]], "| model", [rel(m.P), rel(m.O), [rel(x) for x in m.S]], "| rc", rc, err.strip()[:50], file=E)
            break   # resync next history
        res["ok-step"] += 1
print(res.most_common(), file=E)
