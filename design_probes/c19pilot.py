import sys, os, shutil, io, contextlib, marshal; sys.path.insert(0, "/tmp/scratch")
shutil.rmtree("/tmp/scratch/data19", ignore_errors=True); os.makedirs("/tmp/scratch/data19")
os.environ["XONSH_DATA_DIR"] = "/tmp/scratch/data19"
from sess import mk, XSH
ex, ctx = mk()
E = sys.__stderr__
XSH.env["XONSH_DATA_DIR"] = "/tmp/scratch/data19"; XSH.env["XONSH_CACHE_SCRIPTS"] = True
import xonsh.codecache as C
script = "/tmp/scratch/data19/s.xsh"
open(script, "w").write("x = [i*i for i in range(5)]\nprint('out', x)\ndef f(a):\n    return a + 1\nprint(f(2))\n")
def run():
    g = {}; buf = io.StringIO()
    with contextlib.redirect_stdout(buf):
        r = C.run_script_with_cache(script, ex, glb=g, loc=None, mode="exec")
    return buf.getvalue(), None if r == (None, None, None) else repr(r[1])[:80]
base = run(); cachef = C.get_cache_filename(script, code=False)
good = open(cachef, "rb").read(); print("cache bytes", len(good), "baseline", base, file=E)
bad = 0; kinds = {}
def trial(name, data):
    global bad
    open(cachef, "wb").write(data); os.utime(cachef, None)
    try: r = run()
    except BaseException as x: r = ("EXC", repr(x)[:80])
    if r != base:
        bad += 1; kinds.setdefault(name.split(":")[0], []).append((name, r))
for n in range(len(good)): trial("trunc:%d" % n, good[:n])
for n in range(1, len(good), 7): trial("zerotail:%d" % n, good[:n] + b"\0" * (len(good) - n))
hdr_end = good.index(b"\n", good.index(b"\n") + 1) + 1
trial("otherver", b"0.0.1\n" + good[good.index(b"\n") + 1:]); trial("otherpy", good[:good.index(b"\n") + 1] + b"\x03\x0b\x00\n" + good[hdr_end:])
trial("payload-int", good[:hdr_end] + marshal.dumps(5)); trial("payload-none", good[:hdr_end] + marshal.dumps(None)); trial("payload-text", good[:hdr_end] + b"hello world\n")
trial("payload-str", good[:hdr_end] + marshal.dumps("print('evil')")); trial("empty", b""); trial("longheader", b"x" * 5000)
print("bad", bad, {k: v[:3] for k, v in kinds.items()}, file=E)
