import sys, os, shutil, time, json; sys.path.insert(0, "/tmp/scratch")
shutil.rmtree("/tmp/scratch/data13", ignore_errors=True); os.makedirs("/tmp/scratch/data13")
os.environ["XONSH_DATA_DIR"] = "/tmp/scratch/data13"
from sess import mk, XSH
ex, ctx = mk()
E = sys.__stderr__
import xonsh.history.json as J, xonsh.lib.lazyjson as LJ
fn = "/tmp/scratch/data13/h.json"
def prestate():
    for f in os.listdir("/tmp/scratch/data13"): os.remove("/tmp/scratch/data13/" + f)
    h = J.JsonHistory(filename=fn, sessionid="s", buffersize=1000, gc=False)
    for i in range(6): h.append({"inp": f"old{i} ✓", "rtn": 0, "ts": [i, i + .5]})
    h.flush(at_exit=True)
    return h
def cmds():
    return [c["inp"] for c in LJ.LazyJSON(fn).load()["cmds"]]
EVENTS = ("open", "os.rename", "os.remove", "os.truncate", "tempfile.mkstemp", "os.chmod", "os.mkdir")
state = {"armed": False, "n": 0, "k": None, "mode": None, "log": []}
def hook(ev, args):
    if not state["armed"] or ev not in EVENTS: return
    a0 = args[0] if args else None
    if ev == "open" and not (isinstance(a0, str) and a0.startswith("/tmp/scratch/data13")) : return
    state["n"] += 1; state["log"].append((ev, str(a0)[-30:], args[1] if ev == "open" else ""))
    if state["k"] == state["n"]:
        if state["mode"] == "kill": os._exit(137)
        raise OSError(28, "injected ENOSPC")
sys.addaudithook(hook)
def op(h):
    for i in range(3): h.append({"inp": f"new{i}", "rtn": 0, "ts": [10 + i, 10.5 + i]})
    h.flush(at_exit=True)
# dry run
h = prestate(); state.update(armed=True, n=0, k=None, log=[]); op(h); state["armed"] = False
N = state["n"]; print("events in flush:", N, state["log"], "after:", cmds(), file=E)
bad = []
for mode in ("kill", "fail"):
    for k in range(1, N + 1):
        h = prestate(); before = cmds()
        pid = os.fork()
        if pid == 0:
            state.update(armed=True, n=0, k=k, mode=mode, log=[])
            try: op(h)
            except BaseException as x: pass
            os._exit(0)
        _, st = os.waitpid(pid, 0)
        try: after = cmds(); ok = after[: len(before)] == before
        except Exception as x: after = "UNLOADABLE " + repr(x)[:60]; ok = False
        print(mode, k, state["log"][k - 1] if False else "", "status", st, "ok" if ok else "VIOLATION", after if not ok else len(after), [f for f in os.listdir("/tmp/scratch/data13")], file=E)
