from xonsh.formatter.core import format_source
for s in ["echo a,b\n", "echo a:b\n", "echo x==y\n", "echo a=b\n", "echo http://x.y/z?q=1\n", "ls *.py | grep -v 'a  b'\n", "x = '''a  \nb'''\n", "echo  a   b\n", "echo -n a\n", "git commit -m 'x'\n", "echo $HOME/a\n", "echo a>b\n", "echo a > b\n", "echo a 2>&1\n", "docker run -it --rm -v $PWD:/w img\n", "echo {a,b}\n", "echo [1:2]\n", "scp a b:c\n", "echo a;echo b\n", "if x:\n  echo a:b\n", "echo @(x) a,b\n", "timeit! x = 1;  y=2\n", "echo 'a' 'b',c\n", "rsync -av a/ host:b/\n"]:
    try:
        o = format_source(s)
    except Exception as e:
        o = "ERR %r" % e
    print(repr(s), "->", repr(o), "" if o == s else "  CHANGED")
