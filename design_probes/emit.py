import sys
tag = sys.argv[1]
data = sys.stdin.read() if len(sys.argv) > 2 and sys.argv[2] == "in" else ""
sys.stdout.write(f"O{tag}[{data}]\n"); sys.stdout.flush()
sys.stderr.write(f"E{tag}\n"); sys.stderr.flush()
