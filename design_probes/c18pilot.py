import sys, os, shutil, collections, signal; sys.path.insert(0, "/tmp/scratch")
from sess import mk, XSH
ex, ctx = mk()
import faulthandler; faulthandler.dump_traceback_later(240, exit=True, file=sys.__stderr__)
E = sys.__stderr__
from xonsh.completer import Completer
os.makedirs("/tmp/scratch/emptybin", exist_ok=True)
XSH.env["PATH"] = ["/tmp/scratch/emptybin"]; XSH.env["COMPLETE_DOTS"] = "never"; XSH.env["XONSH_SUBPROC_RAISE_ERROR"] = False
XSH.env["BASH_COMPLETIONS"] = []; XSH.env["CDPATH"] = []
for a in list(XSH.aliases): 
    try: del XSH.aliases[a]
    except Exception: pass
LOG = []
def rec(args, stdin=None): LOG.append(list(args)); return 0
XSH.aliases["rec"] = rec
comp = Completer()
names = ["plain", "sp ace", "qu'ote", 'dq"uote', "do$llar", "$HOME", "back\\slash", "endback\\", "ba!ng", "both'\"q", "both'\"$x", "new\nline", "tab\tx", "#hash", "-dash", "~tilde", "~", "st*ar", "qm?ark", "br[ack]", "and", "or", "if", "a;b", "a&b", "a|b", "(par)", "a=b", "ünï", "{brace}", "a`b", "a@b", "@(x)", "a>b", "a<b", "a,b", "%pc", "two  spaces", " lead", "trail ", "'", '"', "\\", "!", "$", "a\\'b", "cr\rx", "x" * 120, "😀", "a\\nb"]
res = collections.Counter(); shown = collections.Counter()
base = "/tmp/scratch/c18d"; shutil.rmtree(base, ignore_errors=True)
def alarm(*a): raise TimeoutError()
signal.signal(signal.SIGALRM, alarm)
for i, n in enumerate(names):
    for isdir in (False, True):
        d = os.path.join(base, "%03d%s" % (i, "d" if isdir else "f")); os.makedirs(d)
        try:
            if isdir: os.mkdir(os.path.join(d, n))
            else: open(os.path.join(d, n), "w").close()
        except OSError: res["skip-os-rejects-name"] += 1; continue
        os.chdir(d); XSH.env["PWD"] = d
        exp = n + "/" if isdir else n
        for pre in sorted(set(["", n[:1], n[: max(1, len(n) // 2)]])):
            for q in ("", "'", '"', "r'", "'''"):
                if q and any(c in pre for c in "'\"\\\n\r\t"): continue   # typed prefix inside a quote must itself be valid there
                line = "rec " + q + pre
                signal.alarm(20)
                try: comps, lprefix = comp.complete_line(line)
                except TimeoutError: res["COMPLETE-HANG"] += 1; continue
                except BaseException as x:
                    res["COMPLETE-EXC " + type(x).__name__] += 1
                    if shown["cexc"] < 3: shown["cexc"] += 1; print("COMPLETE-EXC", repr(line), repr(x)[:100], file=E)
                    continue
                finally: signal.alarm(0)
                if not comps: res["no-completion"] += 1; continue
                for c in comps:
                    full = line[: len(line) - lprefix] + str(c)
                    LOG.clear(); signal.alarm(20)
                    try: ex.exec(full, glbs=ctx, locs=ctx, mode="exec"); got = [list(a) for a in LOG]
                    except TimeoutError: got = "HANG"
                    except SyntaxError: got = "SyntaxError"
                    except BaseException as x: got = "EXC " + type(x).__name__
                    finally: signal.alarm(0)
                    ok = got == [[exp]] or (not isdir and got == [[exp]])
                    key = ("ok" if ok else "BAD") + (" dir" if isdir else " file") + (" q=" + q if q else " bare")
                    res[key] += 1
                    if not ok:
                        k2 = repr(n)[:24]
                        if shown[k2] < 1: shown[k2] += 1; print("BAD name", repr(n), "isdir", isdir, "line", repr(line), "->", repr(str(c)), "argv", got if isinstance(got, str) else got, file=E)
print(sorted(res.items()), file=E); print("distinct bad names", len([k for k in shown if k != 'cexc']), file=E)
