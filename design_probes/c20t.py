import sys, os, random, io, threading, time, collections; sys.path.insert(0, "/tmp/scratch")
from sess import mk, XSH
ex, ctx = mk()
E = sys.__stderr__
import xonsh.procs.jobs as J
class Proc:
    def __init__(s, pid): s.pid = pid; s.rc = None
    def poll(s): return s.rc
class Spec: captured = "hiddenobject"
class Pipe:
    spec = Spec()
    def resume(s, job, tee_output=True): pass
J._continue = lambda job: job.__setitem__("status", "running")
seed = int(sys.argv[1]); PROB = float(sys.argv[3])
mon = sys.monitoring; TOOL = 3; mon.use_tool_id(TOOL, "verif"); tl = threading.local(); cnt = [0]
def cb(code, line):
    r = getattr(tl, "r", None)
    if r is None: r = tl.r = random.Random(repr((seed, threading.current_thread().name, code.co_name)))
    if r.random() < PROB: cnt[0] += 1; time.sleep(r.choice((0, 0.0002, 0.001)))
mon.register_callback(TOOL, mon.events.LINE, cb)
for f in (J._clear_dead_jobs, J.add_job, J.get_next_job_number, J.get_next_task, J.resume_job, J.disown_fn.__wrapped__ if hasattr(J.disown_fn, "__wrapped__") else J.disown_fn, J.jobs.__wrapped__ if hasattr(J.jobs, "__wrapped__") else J.jobs, J.format_job_string, J.print_one_job):
    try: mon.set_local_events(TOOL, f.__code__, mon.events.LINE)
    except Exception as x: print("no code for", f, x, file=E)
res = collections.Counter()
for it in range(int(sys.argv[2])):
    XSH.all_jobs.clear(); J._tasks_main.clear()
    rng = random.Random((seed, it).__repr__())
    procs = {}; added = []; disowned = []; errors = []; stop = threading.Event()
    def worker():
        r = random.Random((seed, it, "w").__repr__())
        while not stop.is_set():
            try:
                op = r.choice(["jobs", "jobs", "disown", "bg"])
                if op == "jobs": J.jobs([], stdout=io.StringIO())
                elif op == "disown":
                    with J.use_main_jobs(): ks = list(J.get_jobs())
                    if ks:
                        k = r.choice(ks); out = J.disown_fn([k])
                        if isinstance(out, str) and "Removed job" in out: disowned.append(k)
                else: J.bg([r.choice(["+", "-", "1", "2"])]) if r.random() < .5 else J.bg([])
            except BaseException as x: errors.append("worker " + type(x).__name__ + ": " + str(x)[:60])
    t = threading.Thread(target=worker, name="w"); t.start()
    try:
        for step in range(60):
            op = rng.choice(["start", "start", "exit", "num"])
            try:
                if op == "start":
                    pid = 5000 + step; p = Proc(pid); procs[pid] = p
                    J.add_job({"cmds": [["sleep", str(pid)]], "pids": [pid], "status": "running", "obj": p, "bg": True, "pipeline": Pipe(), "pgrp": None}); added.append(pid)
                elif op == "exit":
                    live = [p for p in procs.values() if p.rc is None]
                    if live: rng.choice(live).rc = 0
                else: J.get_next_job_number()
            except BaseException as x: errors.append("main " + type(x).__name__ + ": " + str(x)[:60])
    finally:
        stop.set(); t.join()
    J._clear_dead_jobs()
    jobs = J.get_jobs(); tasks = list(J.get_tasks())
    live_pids = {p.pid for p in procs.values() if p.rc is None}
    present = {j["pids"][0] for j in jobs.values()}
    key = "ok"
    if errors: key = "EXC " + errors[0].split(":")[0]
    elif sorted(tasks) != sorted(jobs) or len(set(tasks)) != len(tasks): key = "DIVERGED dict/deque"
    elif not present <= live_pids: key = "DEAD-LISTED"
    elif len(live_pids - present) > len(disowned): key = "LOST-JOB"
    res[key] += 1
    if key != "ok" and res[key] <= 2: print(key, errors[:2], "jobs", sorted(jobs), "tasks", tasks, "live-present", sorted(live_pids - present), "disowned", disowned, file=E)
print(sorted(res.items()), "delays", cnt[0], file=E)
