import sys, os, time, inspect; sys.path.insert(0, "/tmp/scratch")
from sess import mk, XSH
ex, ctx = mk()
import xonsh.procs.posix as P
src, start = inspect.getsourcelines(P.PopenThread._alt_mode_writer)
target = next(start + i for i, l in enumerate(src) if "membuf.seek(0, io.SEEK_END)" in l)
mon = sys.monitoring; TOOL = 3; mon.use_tool_id(TOOL, "verif"); hits = [0]
def cb(code, line):
    if line == target: hits[0] += 1; time.sleep(0.03)
mon.register_callback(TOOL, mon.events.LINE, cb)
if os.environ.get("INJECT", "1") == "1": mon.set_local_events(TOOL, P.PopenThread._alt_mode_writer.__code__, mon.events.LINE)
WR = "/tmp/scratch/writer.py"
def expected(n): return (b''.join(b'%07d\n' % i for i in range(n // 8 + 1)))[:n]
bad = 0; N = 12
for i in range(N):
    n = 20000; cmd = f"{sys.executable} {WR} {n} 512 0.002 0"
    ex.exec("r = !(%s).raw_out" % cmd, glbs=ctx, locs=ctx, mode="exec")
    got = ctx["r"]; exp = expected(n)
    if got != exp: bad += 1; print("MISMATCH len", len(got), "vs", len(exp), file=sys.__stderr__)
print("runs", N, "bad", bad, "forced delays", hits[0], file=sys.__stderr__)
