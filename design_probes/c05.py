import sys, os; sys.path.insert(0, "/tmp/scratch")
from sess import mk, XSH
ex, ctx = mk()
LOG = []
def mkrec(name, rc):
    def f(args, stdin=None):
        LOG.append((name, list(args))); return rc
    return f
XSH.aliases["ok"] = mkrec("ok", 0); XSH.aliases["bad"] = mkrec("bad", 3)
def run(src, **env):
    LOG.clear(); ctx["after"] = []
    for k, v in env.items(): XSH.env[k] = v
    try:
        ex.exec(src + "\nafter.append(1)\n", glbs=ctx, mode="exec"); out = "noraise"
    except BaseException as e:
        out = type(e).__name__ + ":" + str(getattr(e, "returncode", ""))
    return out, [n for n, _ in LOG], ctx["after"]
for cmdraise in (False, True):
    for src in ["bad -x || ok fb", "bad x y || ok fb", "bad -x && ok", "bad x y && ok", "ok a || bad b", "ok a && bad x y", "ok a && !(bad x y)", "ok a && @error_ignore bad x y", "@error_raise bad x y || ok", "x = $(bad x y)", "$(bad x y)", "ok @$(bad x y)", "!(bad x y)", "$[bad x y]", "bad x y | ok", "ok | bad x y", "(bad x y || ok a) && bad -z"]:
        print(cmdraise, repr(src), run(src, XONSH_SUBPROC_CMD_RAISE_ERROR=cmdraise, XONSH_SUBPROC_RAISE_ERROR=True), file=sys.__stderr__)
