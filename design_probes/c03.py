import sys; sys.path.insert(0, "/tmp/scratch")
from sess import mk, XSH
ex, ctx = mk()
LOG = []
def rec(name):
    def f(args, stdin=None):
        LOG.append((name, list(args)))
        return 0
    return f
for n in ("mkdir", "ls", "echo", "foo", "false_"):
    XSH.aliases[n] = rec(n)
def run(src):
    LOG.clear()
    try:
        ex.exec(src, glbs=ctx, locs=None, mode="exec")
        return ("ok", list(LOG))
    except BaseException as e:
        return (type(e).__name__, str(e)[:80], list(LOG))
for src in ["mkdir x || ls --color=auto", "![mkdir x] || ![ls --color=auto]", "echo a && echo --b=c", "echo a b", "if True:\n    echo a && ls -l\n", "echo 'a b'  c", "echo @('x y') z", "for i in range(2):\n    echo @(i)\n", "echo a; ls b", "echo a \\\n b", "x = 1\necho $HOME > /tmp/scratch/o.txt"]:
    print(repr(src), "->", run(src))
