import sys, os, time, random, threading; sys.path.insert(0, "/tmp/scratch")
from sess import mk, XSH
ex, ctx = mk()
import xonsh.procs.readers as R, xonsh.procs.posix as P, xonsh.procs.pipelines as PL, xonsh.procs.proxies as PX
SEED = int(os.environ.get("SEED", "1")); PROB = float(os.environ.get("PROB", "0.05"))
mon = sys.monitoring; TOOL = 3
mon.use_tool_id(TOOL, "verif")
cnt = {"n": 0, "sleeps": 0}
tl = threading.local()
def line_cb(code, line):
    r = getattr(tl, "r", None)
    if r is None:
        r = tl.r = random.Random((SEED, threading.current_thread().name.split("-")[0], code.co_name).__repr__())
    cnt["n"] += 1
    if r.random() < PROB:
        cnt["sleeps"] += 1
        time.sleep(r.choice((0, 0.0005, 0.002, 0.01)))
mon.register_callback(TOOL, mon.events.LINE, line_cb)
targets = [R.populate_fd_queue, R.QueueReader.read_queue, R.QueueReader.is_fully_read, R.QueueReader.iterqueue, P.PopenThread.run, P.PopenThread._read_write, P.PopenThread._alt_mode_writer, PL.CommandPipeline.iterraw, PL.CommandPipeline._close_prev_procs, PL.CommandPipeline._prev_procs_done, PL.CommandPipeline.tee_stdout, PX.ProcProxyThread.run]
if os.environ.get("INJECT", "1") == "1":
    for f in targets:
        mon.set_local_events(TOOL, f.__code__, mon.events.LINE)
WR = "/tmp/scratch/writer.py"
open(WR, "w").write("import sys,os,time\nn=int(sys.argv[1]);chunk=int(sys.argv[2]);d=float(sys.argv[3])\nbuf=(b''.join(b'%07d\\n'%i for i in range(n//8+1)))[:n]\nfor i in range(0,len(buf),chunk):\n    os.write(1,buf[i:i+chunk]);\n    if d: time.sleep(d)\nsys.exit(int(sys.argv[4]))\n")
def expected(n): return (b''.join(b'%07d\n'%i for i in range(n//8+1)))[:n]
bad = 0; t0=time.time(); runs=0
rng = random.Random(SEED)
forms = ["$(%s)", "!(%s).out", "!(%s).raw_out"]
for it in range(int(os.environ.get("N","40"))):
    n = rng.choice([0,1,7,8,1023,1024,1025,4096,65535,65536,65537,200000]); chunk = rng.choice([1,7,1024,4096,65536]) if n<70000 else rng.choice([4096,65536]); d = rng.choice([0,0,0.001])
    if n//chunk>300: d=0
    form = rng.choice(forms)
    cmd = f"{sys.executable} {WR} {n} {chunk} {d} 0"
    src = "r = " + form % cmd
    try:
        ex.exec(src, glbs=ctx, mode="exec")
        r = ctx["r"]
    except BaseException as e:
        print("EXC", src, repr(e)[:200]); bad+=1; continue
    exp = expected(n)
    got = r if isinstance(r, bytes) else r.encode()
    e2 = exp
    if form == "$(%s)" or form.endswith(".out"):
        if exp.count(b"\n") == 1 and exp.endswith(b"\n"): e2 = exp[:-1]
    runs+=1
    if got != e2:
        bad += 1
        print("MISMATCH", form, n, chunk, d, len(got), len(e2), got[:40], "dup?" , len(got)>len(e2))
print("runs", runs, "bad", bad, "events", cnt, "wall", round(time.time()-t0,2))
