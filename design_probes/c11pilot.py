import sys, os, random, collections, threading; sys.path.insert(0, "/tmp/scratch")
from sess import mk, XSH
ex, ctx = mk()
from xonsh.environ import Env
E = sys.__stderr__
seed = int(sys.argv[1]); rng = random.Random(seed)
KEYS = ["SETSTR", "SETPATH", "AUTO_CD", "XONSH_DEBUG", "UNKNOWNVAR", "FOOPATH", "XONSH_DATA_DIR", "HISTCONTROL", "SETBOOL", "LS_COLORS_X"]
def fresh():
    env = Env({"SETSTR": "s0", "SETPATH": "/a:/b", "SETBOOL": "1", "HOME": "/tmp/scratch/home", "PATH": "/bin"})
    XSH.env = env
    return env
def reader(env):
    snap = {}
    keys = sorted(k for k in env)
    det = env.detype()
    for k in KEYS:
        try: v = env[k]; v = repr(list(v)) if hasattr(v, "_l") else repr(v)
        except KeyError: v = "<KeyError>"
        snap[k] = (v, k in env, repr(env.get(k, "<dflt>")) if not hasattr(env.get(k, None), "_l") else repr(list(env.get(k))), k in keys, det.get(k, "<absent>"), env.detype_all().get(k, "<absent>"))
    return snap
VALS = {"SETSTR": ["x", "y"], "SETPATH": [["/c"], "/d:/e"], "AUTO_CD": [True, False], "XONSH_DEBUG": [1, 2], "UNKNOWNVAR": ["u1", "u2"], "FOOPATH": [["/f"]], "XONSH_DATA_DIR": ["/tmp/dd"], "HISTCONTROL": [{"ignoredups"}], "SETBOOL": [False, True], "LS_COLORS_X": ["q"]}
res = collections.Counter(); shown = collections.Counter()
class Boom(Exception): pass
def run_prog(env, depth, log, path):
    k = rng.sample(KEYS, rng.randint(1, 3))
    kw = {}
    for key in k:
        kw[key] = Env.DELETE_VAR if rng.random() < .25 else rng.choice(VALS[key])
    before = reader(env)
    raised = False
    try:
        with env.swap(**kw):
            inside = reader(env)
            for key, v in kw.items():
                if v is Env.DELETE_VAR:
                    if inside[key][1] or inside[key][3] or inside[key][4] != "<absent>" or inside[key][0] != "<KeyError>":
                        log.append(("MASK-VISIBLE", key, inside[key], path + [kw]))
            if depth < 3 and rng.random() < .6: run_prog(env, depth + 1, log, path + [kw])
            if rng.random() < .2: raise Boom()
    except Boom: raised = True
    after = reader(env)
    for key in KEYS:
        if before[key] != after[key]:
            cls = "default-valued" if (key in ("AUTO_CD", "XONSH_DEBUG", "XONSH_DATA_DIR", "HISTCONTROL") ) else ("unknown" if key in ("UNKNOWNVAR", "FOOPATH", "LS_COLORS_X") else "set")
            log.append(("NOT-RESTORED/" + cls + ("/mask" if kw.get(key) is Env.DELETE_VAR else "/value" if key in kw else "/untouched"), key, before[key], after[key], path + [kw]))
for i in range(int(sys.argv[2])):
    env = fresh(); reader(env); reader(env)
    log = []
    run_prog(env, 0, log, [])
    for item in log:
        res[item[0]] += 1
        if shown[item[0]] < 2:
            shown[item[0]] += 1; print(item[0], item[1], "before", item[2], "after", item[3] if len(item) > 4 else "", "| scopes", [ {k: ("DEL" if v is Env.DELETE_VAR else v) for k, v in d.items()} for d in item[-1]], file=E)
    res["programs"] += 1
print(res.most_common(), file=E)
