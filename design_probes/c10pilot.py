import sys, os, random, collections, pathlib, warnings; sys.path.insert(0, "/tmp/scratch")
warnings.simplefilter("ignore")
from sess import mk, XSH
ex, ctx = mk()
E = sys.__stderr__
from xonsh.environ import Env, DEFAULT_VARS, EnvPath
seed = int(sys.argv[1]); rng = random.Random(seed)
def gen_for(name, var):
    v = var.validate.__name__ if hasattr(var.validate, "__name__") else ""
    S = ["", "a", "a b", "/x:/y", "~", "ü", "0", "1", "true", "False", "a,b", " x "]
    if v == "is_bool": return [True, False]
    if v == "is_int": return [0, 1, -1, 10**9]
    if v == "is_float": return [0.0, 0.5, 1e-9, 1e20, -2.5]
    if v in ("is_string", "is_string_or_callable"): return S
    if v == "is_env_path": return [EnvPath([]), EnvPath(["/a"]), EnvPath(["/a", "/b c", ""]), EnvPath(["~/x", "rel", "/a", "/a"]), EnvPath([pathlib.Path("/p")])]
    if v == "is_path": return [pathlib.Path("/a/b"), pathlib.Path("rel"), pathlib.Path(".")]
    if v == "is_string_set": return [set(), {"ignoredups"}, {"ignoredups", "ignoreerr"}, {"a,b"}]
    if v == "is_history_tuple": return [(0, "commands"), (8128, "commands"), (3, "files"), (1.5, "s"), (3600, "s"), (1024, "b"), (10, "b")]
    if v == "is_bool_or_none": return [True, False, None]
    if v == "is_dynamic_cwd_width": return [(20.0, "c"), (50.0, "%"), (float("inf"), "c")]
    if v == "is_logfile_opt": return [None, "/tmp/x.log", False]
    if v == "is_nonstring_seq_of_strings": return [[".EXE", ".BAT"], []]
    if v == "is_valid_shlvl": return [0, 1, 999]
    if v == "is_completions_display_value": return ["none", "single", "multi"]
    if v == "is_completion_mode": return ["default", "menu-complete"]
    if v == "is_regex": return ["", "a.*", "^\\s"]
    if v == "is_tok_color_dict": return [{}]
    return None
res = collections.Counter(); shown = set()
pat_vars = {"FOOPATH": [EnvPath(["/a", "/b"]), EnvPath([])], "BAR_DIRS": [EnvPath(["/d"])]}
items = [(k, v, gen_for(k, v)) for k, v in sorted(DEFAULT_VARS.items())]
for k, var, vals in items:
    if var.detype is None: res["skip-undetypable"] += 1; continue
    if vals is None: res["skip-nogen " + getattr(var.validate, "__name__", "?")] += 1; continue
    for val in vals:
        try:
            if not var.validate(val): res["skip-invalid"] += 1; continue
            s = var.detype(val)
            if s is None: res["detype-none"] += 1; continue
            if not isinstance(s, str): key = "DETYPE-NONSTR"
            else:
                back = Env({k: s})[k]
                same = (list(back) == list(val)) if isinstance(val, EnvPath) else (back == val and type(back) == type(val))
                key = "ok" if same else "ROUNDTRIP-DIFF"
        except Exception as x:
            key = "EXC " + type(x).__name__
        res[key] += 1
        if key != "ok":
            sig = (key, getattr(var.validate, "__name__", "?"), repr(val)[:30])
            if sig not in shown:
                shown.add(sig); print(key, k, "validator", getattr(var.validate, "__name__", "?"), "val", repr(val)[:40], "str", repr(s)[:40] if 's' in dir() else "", "back", repr(back)[:40] if key == "ROUNDTRIP-DIFF" else "", file=E)
print(sorted(res.items()), file=E)
