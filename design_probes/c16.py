import sys, os, shutil; sys.path.insert(0, "/tmp/scratch")
from sess import mk, XSH
ex, ctx = mk()
import xonsh.dirstack as D
root = "/tmp/scratch/tree"; shutil.rmtree(root, ignore_errors=True)
for d in "ABCDE": os.makedirs(f"{root}/{d}")
os.chdir(root); XSH.env["PWD"] = root; XSH.env["PUSHD_SILENT"] = True
def st(): return (os.path.basename(os.getcwd()), os.path.basename(XSH.env["PWD"]), [os.path.basename(x) for x in D.DIRSTACK])
def run(name, args):
    f = {"cd": D.cd, "pushd": D.pushd, "popd": D.popd, "dirs": D.dirs}[name]
    r = f(list(args))
    print(name, args, "->", r if r is None else tuple(x if not isinstance(x,str) else x.strip()[:50] for x in r), st(), file=sys.__stderr__)
run("cd", ["A"]); run("pushd", ["../B"]); run("pushd", ["../C"]); run("pushd", ["../D"])
run("dirs", []); run("pushd", ["+2"]); run("dirs", ["-p"])
run("pushd", ["-0"]); run("popd", ["+1"]); run("popd", ["-0"]); run("pushd", []); 
os.rmdir(f"{root}/E"); 
run("pushd", ["../E"]); 
shutil.rmtree(f"{root}/A"); run("popd", []); run("popd", []); run("popd", []); run("popd", [])
run("cd", ["-"]); run("cd", ["/nonexistent"]); run("pushd", ["+9"]); run("popd", ["+9"]); run("cd", ["-3"])
