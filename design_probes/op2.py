import os, tempfile, sys
d = "/tmp/scratch/hd"; fn = d + "/h.json"
pid = os.fork()
if pid == 0:
    fd, tmp = tempfile.mkstemp(dir=d, suffix=".json.tmp")
    with os.fdopen(fd, "w") as f:
        f.write("x" * 20000)
    os.replace(tmp, fn)
    os._exit(0)
_, st = os.waitpid(pid, 0)
sys.exit(0 if st == 0 else 3)
