import sys, os; sys.path.insert(0, "/tmp/scratch")
from sess import mk, XSH
ex, ctx = mk()
E = sys.__stderr__
env = XSH.env
XSH.env["XONSH_SUBPROC_RAISE_ERROR"] = False
env["FOOPATH"] = ["/a"]
ex.exec("p = $FOOPATH\nr1 = $(env)\np.append('/b')\nr2 = $(env)\nr3 = $(env)\n", glbs=ctx, locs=ctx)
g = lambda r: [l for l in r.splitlines() if l.startswith("FOOPATH=")]
print("captured:", g(ctx["r1"]), g(ctx["r2"]), file=E)
# uncaptured path (no per-command env): write to file
ex.exec("q = $FOOPATH\nenv > /tmp/scratch/e1.txt\nq.append('/c')\nenv > /tmp/scratch/e2.txt\n", glbs=ctx, locs=ctx)
print("uncaptured:", g(open('/tmp/scratch/e1.txt').read()), g(open('/tmp/scratch/e2.txt').read()), "typed:", list(env["FOOPATH"]), file=E)
ex.exec("env > /tmp/scratch/e3.txt\n", glbs=ctx, locs=ctx)
print("after fresh read:", g(open('/tmp/scratch/e3.txt').read()), file=E)
