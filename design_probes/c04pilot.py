import sys, os, random, collections, ast, signal; sys.path.insert(0, "/tmp/scratch")
from sess import mk, XSH
ex, ctx = mk()
E = sys.__stderr__
LOG = []
def rec(args, stdin=None): LOG.append(list(args)); return 0
XSH.aliases["rec"] = rec
XSH.env["XONSH_SUBPROC_RAISE_ERROR"] = False
os.makedirs("/tmp/scratch/c04d", exist_ok=True); os.chdir("/tmp/scratch/c04d"); XSH.env["PWD"] = os.getcwd()
for n in ("f1", "f2"): open(n, "w").close()
seed = int(sys.argv[1]); rng = random.Random(seed)
ALPHA = list(" \t\n'\"\\*?[]{}$~#;&|<>!@()=,:%-+./") + list("abfxy01") + ["ü", "😀", "\u0301", "\udcff"]
def rstr():
    n = rng.choice([0, 1, 1, 2, 3, 5, 8])
    return "".join(rng.choice(ALPHA) for _ in range(n))
def lit_forms(v):
    out = [("repr", repr(v))]
    if "\udcff" in v: return out
    if "'" not in v and "\\" not in v and "\n" not in v: out.append(("raw-sq", "r'" + v + "'"))
    if '"' not in v and "\\" not in v and "\n" not in v: out.append(("raw-dq", 'r"' + v + '"'))
    if "'''" not in v and "\\" not in v and not v.endswith("'"): out.append(("triple-raw", "r'''" + v + "'''"))
    d = '"' + v.replace("\\", "\\\\").replace('"', '\\"').replace("\n", "\\n").replace("\t", "\\t") + '"'
    out.append(("dq-escaped", d))
    return out
def alarm(*a): raise TimeoutError()
signal.signal(signal.SIGALRM, alarm)
res = collections.Counter(); shown = collections.Counter()
def run(src, **kw):
    LOG.clear(); ctx.update(kw); signal.alarm(10)
    try: ex.exec(src, glbs=ctx, locs=ctx, mode="exec"); return [list(a) for a in LOG]
    except TimeoutError: return "HANG"
    except SyntaxError as x: return "SyntaxError"
    except BaseException as x: return "EXC " + type(x).__name__ + ": " + str(x)[:40]
    finally: signal.alarm(0)
def judge(kind, src, got, exp, v):
    ok = got == [exp]
    k = "ok " + kind if ok else "BAD " + kind
    res[k] += 1
    if not ok:
        feats = "".join(sorted(set(c for c in v if c in "$~*?[]{}\\\n\t'\"!#") ))
        kk = kind + " chars=" + repr(feats) + " -> " + (got if isinstance(got, str) else "argv")
        shown[kk] += 1
        if shown[kk] <= 1: print("BAD", kind, "src", repr(src), "got", got, "exp", [exp], file=E)
for i in range(int(sys.argv[2])):
    v = rstr(); pos = rng.choice(["first", "mid", "last"])
    pre, post = {"first": ("", " z"), "mid": ("a ", " z"), "last": ("a ", "")}[pos]
    wrap = lambda e: ([] if not pre else ["a"]) + e + ([] if not post else ["z"])
    # @() standalone
    judge("@(v)", "rec %s@(v)%s" % (pre, post), run("rec %s@(v)%s\n" % (pre, post), v=v), wrap([v]), v)
    judge("@([v,v])", "", run("rec %s@([v, v])%s\n" % (pre, post), v=v), wrap([v, v]), v)
    # glued
    judge("p@(v)q", "", run("rec %sp@(v)q%s\n" % (pre, post), v=v), wrap(["p" + v + "q"]), v)
    # literals: value has no expansion triggers => must be verbatim for all; with triggers only raw forms judged
    for kind, lit in lit_forms(v):
        try: pyval = ast.literal_eval(lit)
        except Exception: continue
        if pyval != v: continue
        raw = kind.startswith("raw") or kind.startswith("triple-raw")
        if not raw and ("$" in v or v.startswith("~")): continue
        judge("lit:" + kind, "", run("rec %s%s%s\n" % (pre, lit, post)), wrap([v]), v)
    # f-string
    if "\udcff" not in v: judge("fstr", "", run("rec %sf'{v}'%s\n" % (pre, post), v=v), wrap([v]) if not ("$" in v or v.startswith("~")) else None, v) if not ("$" in v or v.startswith("~")) else None
print(sorted(res.items()), file=E)
print("distinct bad classes:", len(shown), file=E)
for k, n in sorted(shown.items(), key=lambda x: -x[1])[:40]: print("  ", n, k, file=E)
