import sys, os; sys.path.insert(0, "/tmp/scratch")
from sess import mk, XSH
ex, ctx = mk()
from xonsh.environ import Env, DEFAULT_VARS
env = XSH.env
bad = []
for k, v in sorted(DEFAULT_VARS.items()):
    if v.detype is None: continue
    try:
        val = env[k]
    except Exception as e:
        continue
    try:
        s = v.detype(val)
    except Exception as e:
        bad.append((k, "detype raised", repr(e)[:80])); continue
    if s is None: continue
    if not isinstance(s, str):
        bad.append((k, "detype non-str", type(s).__name__)); continue
    try:
        e2 = Env({k: s}); back = e2[k]
    except Exception as e:
        bad.append((k, "convert raised", repr(s)[:40], repr(e)[:100])); continue
    try: same = (back == val)
    except Exception as e: same = False
    if not same:
        bad.append((k, "roundtrip differs", repr(val)[:50], repr(s)[:40], repr(back)[:50]))
for b in bad: print(b, file=sys.__stderr__)
print(len(bad), "bad of", len(DEFAULT_VARS), file=sys.__stderr__)
