"""scratch session helper"""
import os, sys, builtins
os.environ.setdefault("XONSH_DATA_DIR", "/tmp/scratch/data"); os.makedirs("/tmp/scratch/data", exist_ok=True)
from xonsh.built_ins import XSH
from xonsh.execer import Execer
def mk(ptab_dir="/tmp/ptab", **env):
    sys.path.insert(0, ptab_dir)
    ex = Execer(parser_args=dict(yacc_optimize=False, yacc_table="verif_ptab", outputdir=ptab_dir))
    ctx = {}
    XSH.load(execer=ex, ctx=ctx, inherit_env=True)
    XSH.env["XONSH_INTERACTIVE"] = False
    XSH.env["RAISE_SUBPROC_ERROR"] = False if False else XSH.env.get("RAISE_SUBPROC_ERROR")
    for k, v in env.items():
        XSH.env[k] = v
    return ex, ctx
