import sys, os, time, threading, signal; sys.path.insert(0, "/tmp/scratch")
from sess import mk, XSH
ex, ctx = mk()
def a_ok(args, stdin=None, stdout=None):
    print("hello", file=stdout); return 0
def a_cat(args, stdin=None, stdout=None):
    for l in (stdin or []): stdout.write(l)
    return 0
def a_boom(args, stdin=None): raise RuntimeError("boom")
def a_slow(args, stdin=None, stdout=None):
    time.sleep(0.05); print("slow", file=stdout)
XSH.aliases.update(dict(aok=a_ok, acat=a_cat, aboom=a_boom, aslow=a_slow))
def snap():
    fds = {}
    for f in os.listdir("/proc/self/fd"):
        try: fds[int(f)] = os.readlink(f"/proc/self/fd/{f}")
        except OSError: pass
    th = sorted(t.name for t in threading.enumerate() if t.is_alive())
    try: kids = open(f"/proc/self/task/{os.getpid()}/children").read().split()
    except OSError: kids = []
    return dict(nfd=len(fds), fds=fds, threads=th, kids=kids, cwd=os.getcwd(), std=(id(sys.stdin), id(sys.stdout), id(sys.stderr)), sigint=signal.getsignal(signal.SIGINT))
cmds = ["echo hi", "echo hi | cat", "aok", "aok | acat", "aok | cat", "echo hi | acat", "nonexistent_cmd_xyz", "echo hi | nonexistent_cmd_xyz", "nonexistent_cmd_xyz | cat", "aboom", "aboom | cat", "echo hi | aboom", "yes | head -n 1", "x = $(echo hi)", "x = !(echo hi)", "x = !(aok)", "x=$(aok | acat)", "false", "echo hi > /tmp/scratch/o1", "aok > /tmp/scratch/o2", "cat < /nonexistent/file", "echo a | cat | cat | acat", "aslow | aok", "aok | aslow", "echo hi e>o | cat", "yes | aok"]
XSH.env["XONSH_SUBPROC_RAISE_ERROR"] = False
import gc
for c in cmds:
    # warm-up once
    for phase in ("warm", "meas"):
        gc.collect(); s0 = snap()
        for _ in range(3):
            try: ex.exec(c, glbs=ctx, mode="exec")
            except BaseException as e: print("   exc", c, type(e).__name__, str(e)[:60])
        time.sleep(0.3); gc.collect(); s1 = snap()
    diffs = []
    if s1["nfd"] != s0["nfd"]: diffs.append(("fd", {k:v for k,v in s1["fds"].items() if k not in s0["fds"]}))
    if s1["threads"] != s0["threads"]: diffs.append(("threads", [t for t in s1["threads"] if t not in s0["threads"]]))
    if s1["kids"] != s0["kids"]: diffs.append(("kids", s1["kids"]))
    if s1["std"] != s0["std"]: diffs.append(("std", type(sys.stdout).__name__))
    if s1["sigint"] != s0["sigint"]: diffs.append(("sigint", s1["sigint"]))
    print(("LEAK " if diffs else "ok   ") + repr(c), diffs, file=sys.__stderr__)
