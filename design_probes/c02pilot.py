import ast, sys, os, random, time, signal, json, collections
sys.path.insert(0, "/tmp/ptab")
from xonsh.execer import Execer
from xonsh.built_ins import XSH
from xonsh.environ import Env
exr = Execer(parser_args=dict(yacc_optimize=False, yacc_table="verif_ptab", outputdir="/tmp/ptab")); XSH.load(execer=exr, ctx={}, env=Env({"PATH": []}))
import builtins as _b
class P:
    def parse(self, s):
        names = {n.id for n in ast.walk(ast.parse(s)) if isinstance(n, ast.Name)} | set(dir(_b))
        return exr.parse(s, ctx=names, user_names=names)
p = P()
LOC = {"lineno","col_offset","end_lineno","end_col_offset"}
def norm(n):
    if isinstance(n, ast.AST):
        d = {}
        for f in n._fields:
            if f in ("kind", "type_comment"): continue
            v = getattr(n, f, None)
            if v is None and f in ("type_params","decorator_list","keywords","bases","type_ignores","orelse","finalbody","handlers","posonlyargs","kw_defaults","defaults","kwonlyargs"): v = []
            d[f] = norm(v)
        if isinstance(n, ast.JoinedStr):
            vals = []
            for v in n.values:
                if isinstance(v, ast.Constant) and isinstance(v.value, str):
                    if vals and isinstance(vals[-1], str): vals[-1] += v.value
                    else: vals.append(v.value)
                else: vals.append(norm(v))
            d["values"] = [v for v in vals if v != ""]
        return (type(n).__name__, d)
    if isinstance(n, list): return [norm(x) for x in n]
    return ("c", type(n).__name__, repr(n)) if not isinstance(n, (str, int, type(None))) or isinstance(n,bool) else n
def firstdiff(a, b, path=""):
    if type(a) != type(b): return path + f" type {type(a).__name__}/{type(b).__name__}"
    if isinstance(a, tuple) and len(a) == 2 and isinstance(a[1], dict):
        if a[0] != b[0]: return path + f" node {a[0]}/{b[0]}"
        for k in a[1]:
            if k not in b[1]: return path + f".{k} missing"
            r = firstdiff(a[1][k], b[1][k], path + "/" + a[0] + "." + k)
            if r: return r
        return None
    if isinstance(a, list):
        if len(a) != len(b): return path + f" len {len(a)}/{len(b)}"
        for i, (x, y) in enumerate(zip(a, b)):
            r = firstdiff(x, y, path)
            if r: return r
        return None
    return None if a == b else path + f" value"
seed, nshard, shard = int(sys.argv[1]), int(sys.argv[2]), int(sys.argv[3])
root = os.path.dirname(ast.__file__)
files = sorted(os.path.join(dp, f) for dp, dn, fn in os.walk(root) for f in fn if f.endswith(".py"))
random.Random(seed).shuffle(files)
files = files[shard::nshard][: int(sys.argv[4])]
stmts = set()
for fn in files:
    try:
        src = open(fn, encoding="utf-8").read(); tree = ast.parse(src)
    except Exception: continue
    for node in ast.walk(tree):
        if isinstance(node, ast.stmt):
            seg = ast.get_source_segment(src, node, padded=True)
            if seg and len(seg) < 3000:
                import textwrap
                seg = textwrap.dedent(seg) + "\n"
                stmts.add(seg)
stmts = sorted(stmts); random.Random(seed).shuffle(stmts); stmts = stmts[: int(sys.argv[5])]
res = collections.Counter(); ex = {}
def alarm(*a): raise TimeoutError()
signal.signal(signal.SIGALRM, alarm)
t0 = time.time(); n = 0
for s in stmts:
    try: e = norm(ast.parse(s))
    except Exception: continue
    n += 1
    signal.alarm(10)
    try:
        t = p.parse(s); g = norm(t)
        d = firstdiff(e, g)
        k = "OK" if d is None else "DIFF " + d
    except SyntaxError as x: k = "REJECT " + str(x).split("(")[0][:40]
    except TimeoutError: k = "HANG"
    except BaseException as x: k = "CRASH " + type(x).__name__ + str(x)[:40]
    finally: signal.alarm(0)
    res[k] += 1
    if k != "OK" and (k not in ex or len(s) < len(ex[k])): ex[k] = s
print(json.dumps({"n": n, "wall": time.time() - t0, "res": res.most_common(), "ex": ex}))
