"""Driver shared by all checks: shard -> worker processes -> aggregate -> verdict.

Exit codes (DESIGN §0): 0 held on everything explored (known findings are
printed, not alarmed), 1 at least one violation that known_findings.json does
not list, 2 inconclusive (a deciding monitor was never reached, a worker was
lost, the tree could not be built).
"""

import argparse
import concurrent.futures
import faulthandler
import hashlib
import json
import os
import re
import signal
import subprocess
import sys
import tempfile
import time
import traceback

from . import build

VERIF = build.VERIF
MAX_PROCS = int(os.environ.get("VERIF_PROCS", "16"))


# --------------------------------------------------------------------------- worker side
class Rec:
    """Per-shard recorder; everything the monitors observed goes through it."""

    def __init__(self, out_path, shard):
        self.out_path = out_path
        self.shard = shard
        self.evaluations = 0
        self.keys = set()
        self.counters = {}
        self.sets = {}
        self.samples = {}
        self.nviol = 0
        self._per_mech = {}
        self.inconclusive_reasons = []
        self._fh = open(out_path, "a", encoding="utf-8")
        self._cur = out_path + ".cur"
        self.t0 = time.time()
        self.deadline = None  # set by the worker: generation stops (gracefully) when 70 % of the shard's timeout is used

    # -- bookkeeping
    def begin(self, case):
        """Remember the case being executed so a lost worker can be diagnosed."""
        try:
            with open(self._cur, "w", encoding="utf-8") as f:
                json.dump(case, f, default=repr)
        except OSError:
            pass

    def case(self, nontrivial=None):
        self.evaluations += 1
        if nontrivial is not None:
            self.keys.add(_h(nontrivial))

    def count(self, name, n=1):
        self.counters[name] = self.counters.get(name, 0) + n

    def setadd(self, name, key):
        self.sets.setdefault(name, set()).add(_h(key))

    def sample(self, obj, cls="default", per_class=2):
        lst = self.samples.setdefault(cls, [])
        if len(lst) < per_class:
            lst.append(obj)

    def violation(self, mechanism, case, detail=None):
        self.nviol += 1
        n = self._per_mech.get(mechanism, 0) + 1
        self._per_mech[mechanism] = n
        if n > 25 or (n == 1 and len(self._per_mech) > 400):
            # bounded log: every mechanism keeps its first 25 witnesses per shard, the rest are only counted
            self.count("violations_counted_not_logged")
            self.counters["viol:" + mechanism] = self.counters.get("viol:" + mechanism, 0) + 1
            return
        self._emit({"t": "v", "mechanism": mechanism, "case": case, "detail": detail})

    def inconclusive(self, reason):
        if reason not in self.inconclusive_reasons:
            self.inconclusive_reasons.append(reason)

    def merge_file(self, path):
        """Fold in what a forked helper process (pty session child) recorded with its own Rec(path).
        Returns False when that process never wrote its summary."""
        viol, s = _collect(path)
        for v in viol:
            self.nviol += 1
            self._emit(v)
        if s is None:
            return False
        self.evaluations += s["evaluations"]
        self.keys.update(s["keys"])
        for k, n in s["counters"].items():
            self.counters[k] = self.counters.get(k, 0) + n
        for k, vals in s["sets"].items():
            self.sets.setdefault(k, set()).update(vals)
        for cls, lst in s["samples"].items():
            cur = self.samples.setdefault(cls, [])
            cur.extend(lst[: max(0, 2 - len(cur))])
        for r in s["inconclusive"]:
            self.inconclusive(r)
        return True

    def _emit(self, obj):
        self._fh.write(json.dumps(obj, default=repr, ensure_ascii=True) + "\n")
        self._fh.flush()

    def finish(self):
        self._emit(
            {
                "t": "summary",
                "evaluations": self.evaluations,
                "keys": sorted(self.keys),
                "counters": self.counters,
                "sets": {k: sorted(v) for k, v in self.sets.items()},
                "samples": self.samples,
                "inconclusive": self.inconclusive_reasons,
                "wall": time.time() - self.t0,
            }
        )
        self._fh.close()
        try:
            os.remove(self._cur)
        except OSError:
            pass


def budgeted(iterable, rec):
    """Yield from ``iterable`` until the shard's time budget is used up.  A loaded machine then explores less (the counters
    and floors say how much) instead of losing the whole shard to the watchdog, which would be inconclusive."""
    for x in iterable:
        if rec.deadline is not None and time.time() > rec.deadline:
            rec.count("generation_stopped_on_time_budget")
            return
        yield x


def _h(key):
    if not isinstance(key, (str, bytes)):
        key = json.dumps(key, sort_keys=True, default=repr)
    if isinstance(key, str):
        key = key.encode("utf-8", "surrogatepass")
    return hashlib.blake2b(key, digest_size=8).hexdigest()


class CaseTimeout(BaseException):
    pass


_LOAD = [0.0, 1.0]


def load_factor():
    """>= 1: how much longer than on an idle machine things may take right now (1-minute load average per core, sampled at
    most every 5 s).  Watchdogs are stretched by it: a wall-clock alarm must never become a verdict because twenty other
    jobs share the machine."""
    now = time.time()
    if now - _LOAD[0] > 5:
        _LOAD[0] = now
        try:
            _LOAD[1] = max(1.0, min(10.0, 2.0 * os.getloadavg()[0] / (os.cpu_count() or 1)))
        except OSError:
            _LOAD[1] = 1.0
    return _LOAD[1]


class alarm:
    """SIGALRM-based per-case watchdog for in-process pure-Python work (stretched by the machine's load)."""

    def __init__(self, seconds):
        self.seconds = seconds * load_factor()

    def _raise(self, *a):
        raise CaseTimeout()

    def __enter__(self):
        self.old = signal.signal(signal.SIGALRM, self._raise)
        signal.setitimer(signal.ITIMER_REAL, self.seconds)
        return self

    def __exit__(self, *exc):
        signal.setitimer(signal.ITIMER_REAL, 0)
        signal.signal(signal.SIGALRM, self.old)
        return False


def _worker_main(check, spec_path):
    with open(spec_path, encoding="utf-8") as f:
        spec = json.load(f)
    faulthandler.enable(file=sys.__stderr__)
    if spec.get("dump_after"):
        faulthandler.dump_traceback_later(spec["dump_after"], exit=False, file=sys.__stderr__)
    rec = Rec(spec["out"], spec["shard"])
    if spec.get("timeout"):
        rec.deadline = time.time() + 0.7 * float(spec["timeout"])
    try:
        if spec.get("replay") is not None:
            check.run_case(spec["replay"], rec)
        else:
            check.run_shard(spec["shard"], rec)
    except CaseTimeout:
        rec.inconclusive("worker watchdog fired outside a case")
    except BaseException:
        rec.inconclusive("worker exception: " + traceback.format_exc()[-1500:])
    finally:
        faulthandler.cancel_dump_traceback_later()
        rec.finish()
    for stream in (sys.stdout, sys.stderr):
        try:
            stream.flush()
        except Exception:  # the system under test may have closed the worker's std streams (a C09 finding, reported there)
            pass
    os._exit(0)


# --------------------------------------------------------------------------- parent side
def load_known(prop):
    path = os.path.join(VERIF, "known_findings.json")
    try:
        with open(path, encoding="utf-8") as f:
            data = json.load(f)
    except FileNotFoundError:
        return {}
    out = {}
    for e in data.get("findings", []):
        if e.get("property") == prop:
            out[e["mechanism"]] = e
    return out


def _run_one(check, tree, spec, timeout, env):
    fd, spec_path = tempfile.mkstemp(prefix="spec-", suffix=".json", dir=os.path.join(tree.root, "tmp"))
    with os.fdopen(fd, "w", encoding="utf-8") as f:
        json.dump(spec, f)
    errp = spec["out"] + ".stderr"
    outp = spec["out"] + ".stdout"
    t0 = time.time()
    with open(errp, "wb") as ef, open(outp, "wb") as of:
        p = subprocess.Popen(
            [build.PY, "-X", "faulthandler", "-m", check.module, "--worker", spec_path],
            stdin=subprocess.DEVNULL,
            stdout=of,
            stderr=ef,
            env=env,
            cwd=tree.root,
            start_new_session=True,
        )
        try:
            rc = p.wait(timeout=timeout)
            status = "exit" if rc == 0 else f"rc={rc}"
        except subprocess.TimeoutExpired:
            status = "timeout"
        finally:
            try:
                os.killpg(p.pid, signal.SIGKILL)
            except (ProcessLookupError, PermissionError):
                pass
            try:
                p.wait(timeout=10)
            except Exception:
                pass
    return status, time.time() - t0


def _collect(out_path):
    viol, summary = [], None
    try:
        with open(out_path, encoding="utf-8") as f:
            for line in f:
                try:
                    o = json.loads(line)
                except ValueError:
                    continue
                if o.get("t") == "v":
                    viol.append(o)
                elif o.get("t") == "summary":
                    summary = o
    except FileNotFoundError:
        pass
    return viol, summary


def _slug(s):
    return re.sub(r"[^A-Za-z0-9._-]+", "_", s)[:80]


def main(check):
    ap = argparse.ArgumentParser(prog=f"check {check.id}")
    ap.add_argument("--worker")
    ap.add_argument("--tier", default=os.environ.get("VERIF_TIER", "quick"), choices=["quick", "thorough"])
    ap.add_argument("--seed", type=int, default=int(os.environ.get("VERIF_SEED", "0") or 0))
    ap.add_argument("--replay")
    ap.add_argument("--keep", action="store_true", help="keep the scratch tree (debugging)")
    ap.add_argument("--no-evidence", action="store_true")
    args = ap.parse_args()
    if args.worker:
        _worker_main(check, args.worker)
        return
    sys.exit(_parent(check, args))


def _parent(check, args):
    t0 = time.time()
    prop = check.id
    tier, seed = args.tier, args.seed
    os.environ.setdefault("PYTHONHASHSEED", "0")
    tree = build.make_tree(tables=getattr(check, "tables", True))
    try:
        if tree.table_error:
            print(f"INCONCLUSIVE property={prop} reason=parser tables could not be generated from the working tree")
            print(tree.table_error[-800:])
            # A grammar that PLY cannot turn into a table is a tree nobody can run.
            return 2
        env = tree.env(getattr(check, "extra_env", None))
        env["VERIF_SEED"] = str(seed)
        env["VERIF_TIER"] = tier
        if hasattr(check, "prepare"):
            check.prepare(tree, tier, seed)
        replay_case = None
        if args.replay:
            with open(args.replay, encoding="utf-8") as f:
                w = json.load(f)
            replay_case = w.get("case", w)
            shards = [{"kind": "replay"}]
        else:
            shards = check.shards(tier, seed)
        outdir = os.path.join(tree.root, "out")
        os.makedirs(outdir, exist_ok=True)
        default_to = check.timeout(tier) if hasattr(check, "timeout") else (600 if tier == "quick" else 3600)
        jobs = []
        for i, sh in enumerate(shards):
            spec = {
                "shard": dict(sh, tier=tier, seed=seed, shard_index=i, nshards=len(shards)),
                "out": os.path.join(outdir, f"shard{i:03d}.jsonl"),
                "dump_after": max(30, int(sh.get("timeout", default_to)) - 15),
                "timeout": sh.get("timeout", default_to),
            }
            if replay_case is not None:
                spec["replay"] = replay_case
            jobs.append((spec, sh.get("timeout", default_to)))
        nproc = min(MAX_PROCS, max(1, getattr(check, "max_procs", MAX_PROCS)))
        results = {}
        with concurrent.futures.ThreadPoolExecutor(nproc) as ex:
            futs = {ex.submit(_run_one, check, tree, spec, to, env): spec for spec, to in jobs}
            for fut in concurrent.futures.as_completed(futs):
                spec = futs[fut]
                results[spec["out"]] = fut.result()

        # ---- aggregate
        evaluations, keys, counters, sets, samples = 0, set(), {}, {}, {}
        violations, inconclusive = [], []
        for spec, _ in jobs:
            status, wall = results[spec["out"]]
            v, s = _collect(spec["out"])
            violations.extend(v)
            if s is None:
                cur = None
                try:
                    with open(spec["out"] + ".cur", encoding="utf-8") as f:
                        cur = json.load(f)
                except (OSError, ValueError):
                    pass
                tail = ""
                try:
                    with open(spec["out"] + ".stderr", "rb") as f:
                        tail = f.read()[-1500:].decode("utf-8", "replace")
                except OSError:
                    pass
                handled = False
                if cur is not None and hasattr(check, "lost_worker"):
                    # the check decides whether a reproducible hang/crash of that case is a violation
                    res = check.lost_worker(cur, status, tree, env)
                    if res is not None:
                        violations.append({"t": "v", "mechanism": res[0], "case": cur, "detail": res[1]})
                        handled = True
                if not handled:
                    inconclusive.append(f"shard {spec['shard']['shard_index']} lost ({status}); current case={json.dumps(cur)[:300]}; stderr tail={tail[-600:]!r}")
                continue
            evaluations += s["evaluations"]
            keys.update(s["keys"])
            for k, n in s["counters"].items():
                counters[k] = counters.get(k, 0) + n
            for k, vals in s["sets"].items():
                sets.setdefault(k, set()).update(vals)
            for cls, lst in s["samples"].items():
                cur = samples.setdefault(cls, [])
                for x in lst:
                    if len(cur) < 3:
                        cur.append(x)
            inconclusive.extend(s["inconclusive"])
            if status != "exit":
                inconclusive.append(f"shard {spec['shard']['shard_index']} ended with {status}")

        if replay_case is None and hasattr(check, "floors"):
            inconclusive.extend(check.floors(dict(counters, evaluations=evaluations, **{"set:" + k: len(v) for k, v in sets.items()}), tier))

        # ---- classify against known findings
        known = load_known(prop)
        by_mech = {}
        for v in violations:
            by_mech.setdefault(v["mechanism"], []).append(v)
        unlisted = {}
        hits = {}
        for mech, vs in sorted(by_mech.items()):
            e = known.get(mech)
            if e is not None and e.get("status") == "known":
                hits[mech] = len(vs)
            else:
                unlisted[mech] = vs
        for mech, n in hits.items():
            ex = by_mech[mech][0]
            print(f"KNOWN-FINDING: property={prop} {mech}: {known[mech].get('description', '')} [{n} case(s) this run, e.g. {_short(ex)}]")
        nviol = 0
        rdir = os.path.join(VERIF, "replays", prop)
        if replay_case is None and os.path.isdir(rdir):
            for fn in os.listdir(rdir):  # witnesses of an earlier run with the same tier/seed are stale
                if fn.endswith(f"-seed{seed}.json"):
                    try:
                        os.remove(os.path.join(rdir, fn))
                    except OSError:
                        pass
        if unlisted:
            os.makedirs(rdir, exist_ok=True)
        for mech, vs in list(unlisted.items())[:20]:
            vs.sort(key=lambda v: len(json.dumps(v.get("case"), default=repr)))
            path = os.path.join(rdir, f"{_slug(mech)}-seed{seed}.json")
            with open(path, "w", encoding="utf-8") as f:
                json.dump({"property": prop, "mechanism": mech, "tier": tier, "seed": seed, "count": len(vs), "case": vs[0]["case"], "detail": vs[0].get("detail"), "more": [x["case"] for x in vs[1:4]]}, f, indent=1, default=repr)
            extra = " (was recorded as fixed - regression)" if known.get(mech, {}).get("status") == "fixed" else ""
            print(f"VIOLATION property={prop} replay={path} mechanism={mech} count={len(vs)}{extra} e.g. {_short(vs[0])}")
            nviol += len(vs)
        for mech, vs in list(unlisted.items())[20:]:
            nviol += len(vs)
        if unlisted:
            with open(os.path.join(rdir, f"_all-{tier}-seed{seed}.json"), "w", encoding="utf-8") as f:
                json.dump({m: {"count": len(vs), "example": _short(vs[0], 600)} for m, vs in unlisted.items()}, f, indent=1)

        if replay_case is None and not args.no_evidence:
            _write_evidence(check, tier, seed, evaluations, keys, counters, sets, samples, hits, nviol, inconclusive, time.time() - t0)
        for r in inconclusive[:10]:
            print(f"INCONCLUSIVE property={prop} reason={r}")
        summary = {k: counters[k] for k in sorted(counters)}
        print(f"[{prop}] tier={tier} seed={seed} evaluations={evaluations} distinct_nontrivial={len(keys)} violations={nviol} known_hits={sum(hits.values())} wall={time.time() - t0:.1f}s")
        print(f"[{prop}] counters: {json.dumps(summary)}")
        if sets:
            print(f"[{prop}] distinct: {json.dumps({k: len(v) for k, v in sets.items()})}")
        if nviol:
            return 1
        if inconclusive:
            return 2
        return 0
    finally:
        if args.keep:
            print("scratch tree kept at", tree.root)
        else:
            tree.cleanup()


def _short(v, lim=300):
    d = v.get("detail")
    if isinstance(d, dict) and "minimal" in d:
        s = json.dumps({k: d[k] for k in d if k != "minimal"}, default=repr, ensure_ascii=True)[:140] + " minimal=" + json.dumps(d["minimal"], default=repr, ensure_ascii=True)
    else:
        s = json.dumps(v.get("case"), default=repr, ensure_ascii=True)
        if d is not None:
            s += " :: " + json.dumps(d, default=repr, ensure_ascii=True)
    return s if len(s) <= lim else s[:lim] + "..."


def _write_evidence(check, tier, seed, evaluations, keys, counters, sets, samples, hits, nviol, inconclusive, wall):
    flat = []
    for cls, lst in samples.items():
        for x in lst:
            flat.append({"class": cls, "case": x})
    cov = {
        "evaluations": evaluations,
        "distinct_nontrivial": len(keys),
        "rule": check.rule,
        "samples": flat[:24],
        "monitor_counters": {k: counters[k] for k in sorted(counters)},
        "distinct_sets": {k: len(v) for k, v in sets.items()},
        "known_finding_hits": hits,
        "inconclusive_reasons": inconclusive[:10],
    }
    if getattr(check, "exhaustive", False):
        cov["exhaustive"] = True
    ev = {
        "property_id": check.id,
        "tier": tier,
        "seed": seed,
        "level": check.level,
        "coverage": cov,
        "assumptions": list(getattr(check, "assumptions", [])),
        "wall_s": round(wall, 2),
        "violations": nviol,
    }
    d = os.path.join(VERIF, "evidence")
    os.makedirs(d, exist_ok=True)
    tmp = os.path.join(d, f".{check.id}.json.tmp")
    with open(tmp, "w", encoding="utf-8") as f:
        json.dump(ev, f, indent=1, default=repr, ensure_ascii=True)
        f.write("\n")
    os.replace(tmp, os.path.join(d, f"{check.id}.json"))
