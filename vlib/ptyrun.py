"""Run a callable in a forked child that is the session leader of a fresh pseudo terminal.

The child has the pty slave as its controlling terminal on fds 0/1/2 (so give_terminal_to /
tcgetpgrp / tty-generated SIGINT and SIGTSTP are the real ones) and keeps the master open as
``master_fd`` so that it can type control characters (``\\x03``, ``\\x1a``) into its own terminal.
The parent drains the master side, enforces a wall-clock watchdog and afterwards kills every
process left in the child's session.  (DESIGN §1.2 'pty session worker')
"""

import fcntl
import os
import select
import signal
import termios
import time
import traceback


def _session_pids(sid):
    out = []
    for d in os.listdir("/proc"):
        if not d.isdigit():
            continue
        try:
            with open(f"/proc/{d}/stat") as f:
                rest = f.read().rsplit(")", 1)[1].split()
            if int(rest[3]) == sid:  # field 6 = session
                out.append(int(d))
        except (OSError, IndexError, ValueError):
            pass
    return out


def run_in_pty(target, timeout, errfile=None):
    """target(master_fd) runs in the child.  Returns (status, output bytes): status is 'exit:<rc>',
    'signal:<n>' or 'timeout'."""
    master, slave = os.openpty()
    pid = os.fork()
    if pid == 0:
        rc = 0
        try:
            os.setsid()
            fcntl.ioctl(slave, termios.TIOCSCTTY, 0)
            for fd in (0, 1, 2):
                os.dup2(slave, fd)
            if slave > 2:
                os.close(slave)
            os.set_inheritable(master, False)
            target(master)
        except BaseException:  # noqa
            rc = 3
            if errfile:
                try:
                    with open(errfile, "a") as f:
                        f.write(traceback.format_exc())
                except OSError:
                    pass
        finally:
            os._exit(rc)
    os.close(slave)
    out = bytearray()
    end = time.time() + timeout
    status = None
    while True:
        r, _, _ = select.select([master], [], [], 0.1)
        if r:
            try:
                b = os.read(master, 65536)
            except OSError:
                b = b""
            if b:
                out += b
                if len(out) > 4_000_000:
                    del out[:2_000_000]
        try:
            wpid, wst = os.waitpid(pid, os.WNOHANG)
        except ChildProcessError:
            wpid, wst = pid, 0
        if wpid:
            status = f"exit:{os.WEXITSTATUS(wst)}" if os.WIFEXITED(wst) else f"signal:{os.WTERMSIG(wst)}"
            break
        if time.time() > end:
            status = "timeout"
            break
    # whatever is left in that session (stopped jobs, leaked producers) dies with it
    for _ in range(3):
        pids = _session_pids(pid)
        if not pids:
            break
        for p in pids:
            try:
                os.kill(p, signal.SIGKILL)
            except OSError:
                pass
        time.sleep(0.05)
    if status == "timeout":
        try:
            os.waitpid(pid, 0)
        except ChildProcessError:
            pass
    try:
        os.close(master)
    except OSError:
        pass
    return status, bytes(out)
