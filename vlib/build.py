"""Build what is checked: a private copy of the working tree with fresh LALR tables.

/repo/xonsh/parser_table.py and completion_parser_table.py are git-ignored
generated files which xonsh loads with optimize=True, i.e. WITHOUT validating
them against the grammar.  Every check therefore works on a scratch copy of the
current working tree in which both tables have been regenerated from the
grammar actually present (DESIGN §1.1).
"""

import hashlib
import os
import shutil
import subprocess
import sys
import tempfile

VERIF = os.path.dirname(os.path.dirname(os.path.abspath(__file__)))
PY = os.environ.get("VERIF_PYTHON", "/venv/bin/python")
GUARD = "XONSH_XONSH_VERIF"
TABLES = ("parser_table.py", "completion_parser_table.py")
_COPY = ("xonsh", "xontrib", "xompletions")


def repo_root():
    return os.path.abspath(os.environ.get("VERIF_REPO", "/repo"))


def _ignore(dirpath, names):
    out = {n for n in names if n == "__pycache__" or n.endswith(".pyc")}
    if os.path.basename(dirpath) == "xonsh":
        out.update(n for n in names if n in TABLES)
    return out


def _grammar_hash(src):
    h = hashlib.sha256()
    h.update(sys.version.encode())
    try:
        h.update(subprocess.run([PY, "-c", "import sys;print(sys.version)"], capture_output=True, text=True).stdout.encode())
    except Exception:
        pass
    files = []
    for dp, dn, fn in os.walk(os.path.join(src, "xonsh", "parsers")):
        dn[:] = sorted(d for d in dn if d != "__pycache__")
        for f in sorted(fn):
            if f.endswith(".py"):
                files.append(os.path.join(dp, f))
    for extra in ("parser.py", "platform.py", "lazyasd.py", "__init__.py"):
        files.append(os.path.join(src, "xonsh", extra))
    for f in files:
        try:
            with open(f, "rb") as fh:
                h.update(f[len(src):].encode() + b"\0" + fh.read() + b"\0")
        except OSError:
            h.update(f.encode() + b"\0missing\0")
    return h.hexdigest()[:24]


_GEN = r"""
import os, sys
os.environ["XONSH_DEBUG"] = "1"
root = sys.argv[1]
sys.path.insert(0, root)
from xonsh.parser import Parser
from xonsh.parsers.completion_context import CompletionContextParser
out = os.path.join(root, "xonsh")
p = Parser(yacc_table="parser_table", outputdir=out, yacc_debug=False)
if p.parser is None:
    p._yacc_loader.ready.wait()
    if p._yacc_loader.error is not None:
        raise p._yacc_loader.error
CompletionContextParser(yacc_table="completion_parser_table", outputdir=out, debug=False)
"""


class Tree:
    """A scratch build.  .root is the temp dir, .src holds the package copy."""

    def __init__(self, root, src, repo, table_error=None):
        self.root, self.src, self.repo, self.table_error = root, src, repo, table_error

    def env(self, extra=None, home=None):
        """Environment for workers: hermetic HOME/XDG, guard on, bytecode off."""
        home = home or os.path.join(self.root, "home")
        os.makedirs(home, exist_ok=True)
        e = {
            "PATH": os.environ.get("PATH", "/usr/bin:/bin"),
            "PYTHONPATH": os.pathsep.join([self.src, VERIF, os.path.join(VERIF, ".deps")]),
            "PYTHONDONTWRITEBYTECODE": "1",
            "PYTHONHASHSEED": "0",
            "PYTHONIOENCODING": "utf-8",
            "LANG": "C.UTF-8",
            "LC_ALL": "C.UTF-8",
            "TERM": "xterm",
            GUARD: "1",
            "HOME": home,
            "XDG_DATA_HOME": os.path.join(home, ".local", "share"),
            "XDG_CONFIG_HOME": os.path.join(home, ".config"),
            "XDG_CACHE_HOME": os.path.join(home, ".cache"),
            "XONSH_DATA_DIR": os.path.join(home, ".local", "share", "xonsh"),
            "XONSH_CACHE_DIR": os.path.join(home, ".cache", "xonsh"),
            "VERIF_SCRATCH": self.root,
            "VERIF_SRC": self.src,
            "VERIF_REPO": self.repo,
            "TMPDIR": os.path.join(self.root, "tmp"),
        }
        os.makedirs(e["TMPDIR"], exist_ok=True)
        os.makedirs(e["XONSH_DATA_DIR"], exist_ok=True)
        if extra:
            e.update(extra)
        return e

    def cleanup(self):
        shutil.rmtree(self.root, ignore_errors=True)


def make_tree(tables=True):
    repo = repo_root()
    base = os.environ.get("VERIF_TMP") or tempfile.gettempdir()
    root = tempfile.mkdtemp(prefix="xverif-", dir=base)
    src = os.path.join(root, "src")
    os.makedirs(src)
    for d in _COPY:
        p = os.path.join(repo, d)
        if os.path.isdir(p):
            shutil.copytree(p, os.path.join(src, d), ignore=_ignore, symlinks=True)
    # docs are needed by nothing; tests are not copied.
    err = None
    if tables:
        err = _install_tables(src)
    return Tree(root, src, repo, err)


def _install_tables(src):
    key = _grammar_hash(src)
    cache = os.path.join(VERIF, ".build", "tables", key)
    dst = os.path.join(src, "xonsh")
    if all(os.path.isfile(os.path.join(cache, t)) for t in TABLES):
        for t in TABLES:
            shutil.copy(os.path.join(cache, t), os.path.join(dst, t))
        return None
    env = dict(os.environ, PYTHONDONTWRITEBYTECODE="1", PYTHONPATH=src)
    r = subprocess.run([PY, "-c", _GEN, src], env=env, capture_output=True, text=True, timeout=600)
    if r.returncode != 0 or not all(os.path.isfile(os.path.join(dst, t)) for t in TABLES):
        # The grammar of the working tree cannot be turned into a table.  xonsh itself would not notice: it loads whatever
        # parser_table.py lies in the package, unvalidated.  If the repository carries such (stale) generated tables, check
        # the tree the way it would actually run - with them; only without any table is there nothing to run.
        repo_pkg = os.path.join(repo_root(), "xonsh")
        if all(os.path.isfile(os.path.join(repo_pkg, t)) for t in TABLES):
            for t in TABLES:
                shutil.copy(os.path.join(repo_pkg, t), os.path.join(dst, t))
            print("NOTE: the parser tables could not be regenerated from the working tree's grammar (" + ((r.stderr or r.stdout).strip().splitlines() or ["?"])[-1][:120] + "); running with the repository's existing, unvalidated tables, as xonsh itself would")
            return None
        return (r.stderr or r.stdout)[-2000:] or "table generation produced no table file"
    try:
        os.makedirs(os.path.dirname(cache), exist_ok=True)
        tmp = tempfile.mkdtemp(prefix="t-", dir=os.path.dirname(cache))
        for t in TABLES:
            shutil.copy(os.path.join(dst, t), os.path.join(tmp, t))
        try:
            os.rename(tmp, cache)
        except OSError:
            shutil.rmtree(tmp, ignore_errors=True)
    except OSError:
        pass
    for junk in ("parser.out",):
        try:
            os.remove(os.path.join(dst, junk))
        except OSError:
            pass
    return None
