"""Seeded schedule perturbation with sys.monitoring (3.12): LINE events enabled only on the
code objects of the targeted functions; the callback sleeps with probability p.  Every
statement boundary of a targeted function is a real preemption point under the GIL, so no
impossible interleaving is manufactured (DESIGN §1.3)."""

import hashlib
import random
import sys
import threading
import time

TOOL = 4


def _code_of(f):
    seen = 0
    while seen < 6:
        seen += 1
        if hasattr(f, "__wrapped__"):
            f = f.__wrapped__  # the body, not a functools.wraps wrapper around it
            continue
        if hasattr(f, "__code__"):
            return f.__code__
        for attr in ("__wrapped__", "__func__", "func", "fget"):
            g = getattr(f, attr, None)
            if g is not None:
                f = g
                break
        else:
            return None
    return None


class Injector:
    def __init__(self, seed, p=0.01, delays=(0.0, 0.0002, 0.002, 0.01), cap=0.25):
        self.seed, self.p, self.delays, self.cap = seed, p, delays, cap
        self.codes = []
        self.names = {}
        self.tl = threading.local()
        self.lock = threading.Lock()
        self.events = 0
        self.injected = 0
        self.sites = set()
        self.trace = []
        self.funcs_hit = set()
        self.active = False
        self.case = 0
        self.forced = {}  # (co_name, line) -> delay : deterministic replay of a directed witness

    def target(self, *funcs):
        for f in funcs:
            c = f if hasattr(f, "co_name") else _code_of(f)
            if c is not None and c not in self.codes:
                self.codes.append(c)
                self.names[c] = getattr(c, "co_qualname", c.co_name)
        return self

    def _cb(self, code, line):
        tl = self.tl
        st = getattr(tl, "st", None)
        if st is None or st[0] != self.case:
            name = threading.current_thread().name
            role = "main" if threading.current_thread() is threading.main_thread() else name.rstrip("0123456789-")
            st = tl.st = [self.case, random.Random(f"{self.seed}/{self.case}/{role}/{getattr(tl, 'n', 0)}"), 0.0, role, 0]
        st[4] += 1
        key = (code.co_name, line)
        d = self.forced.get(key)
        if d is None:
            if st[1].random() >= self.p or st[2] >= self.cap:
                if st[4] % 64 == 1:
                    with self.lock:
                        self.events += 64
                        self.funcs_hit.add(code.co_name)
                return
            d = st[1].choice(self.delays)
        st[2] += d
        with self.lock:
            self.injected += 1
            self.funcs_hit.add(code.co_name)
            self.sites.add(key)
            if len(self.trace) < 64:
                self.trace.append((st[3], code.co_name, line))
        time.sleep(d)

    def start(self):
        mon = sys.monitoring
        try:
            mon.use_tool_id(TOOL, "verif-sched")
        except ValueError:
            pass
        mon.register_callback(TOOL, mon.events.LINE, self._cb)
        for c in self.codes:
            mon.set_local_events(TOOL, c, mon.events.LINE)
        self.active = True
        return self

    def stop(self):
        mon = sys.monitoring
        for c in self.codes:
            try:
                mon.set_local_events(TOOL, c, 0)
            except Exception:
                pass
        mon.register_callback(TOOL, mon.events.LINE, None)
        try:
            mon.free_tool_id(TOOL)
        except Exception:
            pass
        self.active = False

    def new_case(self):
        """Start a new case: fresh per-thread RNG streams, returns the signature of the previous one."""
        with self.lock:
            sig = hashlib.blake2b(repr(self.trace).encode(), digest_size=8).hexdigest() if self.trace else None
            self.trace = []
        self.case += 1
        return sig

    def stats(self):
        with self.lock:
            return {"line_events": self.events, "delays_injected": self.injected, "sites": len(self.sites), "functions_hit": sorted(self.funcs_hit)}


def find_line(func, needle, offset=0):
    """Line number of the first source line of ``func`` containing ``needle`` (+offset): directed
    witnesses address statements by their text, not by line number."""
    import inspect

    c = _code_of(func)
    src, first = inspect.getsourcelines(c)
    for i, l in enumerate(src):
        if needle in l:
            return c.co_name, first + i + offset
    return None
