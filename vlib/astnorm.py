"""Location-free structural normal form of Python ASTs, and a first-difference finder.

Used by the differential monitors (C01, C02, C03, C17).  The normal form keeps
everything the C01 statement lists (node kinds, operators, identifiers,
constants, load/store contexts, nesting) and drops what it does not
(positions, Constant.kind, type comments).
"""

import ast

_LISTY = {
    "type_params", "decorator_list", "keywords", "bases", "type_ignores", "orelse", "finalbody",
    "handlers", "posonlyargs", "kw_defaults", "defaults", "kwonlyargs", "args", "ifs", "names",
    "body", "elts", "targets", "values", "keys", "ops", "comparators", "items", "cases", "patterns",
    "kwd_attrs", "kwd_patterns", "generators", "dims",
}


def norm(n):
    if isinstance(n, ast.AST):
        d = {}
        for f in n._fields:
            if f in ("kind", "type_comment"):
                continue
            v = getattr(n, f, None)
            if v is None and f in _LISTY:
                v = []
            d[f] = norm(v)
        if isinstance(n, ast.JoinedStr):
            vals = []
            for v in n.values:
                if isinstance(v, ast.Constant) and isinstance(v.value, str):
                    if vals and isinstance(vals[-1], str):
                        vals[-1] += v.value
                    else:
                        vals.append(v.value)
                else:
                    vals.append(norm(v))
            d["values"] = [v for v in vals if v != ""]
        return (type(n).__name__, d)
    if isinstance(n, (list, tuple)) and not isinstance(n, tuple):
        return [norm(x) for x in n]
    if isinstance(n, bool) or not isinstance(n, (str, int, type(None))):
        # constants: distinguish 1 / 1.0 / True / b'' / ... by type and repr
        return ("c", type(n).__name__, repr(n))
    return n


def _isnode(a):
    return isinstance(a, tuple) and len(a) == 2 and isinstance(a[1], dict)


def firstdiff(a, b, path=""):
    """Return None when equal, else (path, description) of the first difference.

    ``path`` ends with ``NodeType.field`` of the innermost node field holding it.
    """
    if _isnode(a) and _isnode(b):
        if a[0] != b[0]:
            return (path, f"node {a[0]}/{b[0]}")
        for k in a[1]:
            if k not in b[1]:
                return (path + "/" + a[0] + "." + k, "missing")
            r = firstdiff(a[1][k], b[1][k], path + "/" + a[0] + "." + k)
            if r:
                return r
        for k in b[1]:
            if k not in a[1]:
                return (path + "/" + a[0] + "." + k, "extra")
        return None
    if type(a) is not type(b) or _isnode(a) != _isnode(b):
        return (path, f"type {_tn(a)}/{_tn(b)}")
    if isinstance(a, list):
        if len(a) != len(b):
            return (path, f"len {len(a)}/{len(b)}")
        for x, y in zip(a, b):
            r = firstdiff(x, y, path)
            if r:
                return r
        return None
    return None if a == b else (path, f"value {a!r}/{b!r}"[:120])


def _tn(a):
    return a[0] if _isnode(a) else type(a).__name__


def last_field(path):
    """'/Module.body/AnnAssign.simple' -> 'AnnAssign.simple'"""
    return path.rsplit("/", 1)[-1] if path else "<root>"
