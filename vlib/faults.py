"""Fork-based fault engine (DESIGN §1.3): the warmed worker fork()s per crash point; the child
installs an audit hook (open / rename / remove / truncate / chmod / mkstemp / sqlite3.connect) and
write proxies, and at the k-th event either dies *before* the call takes effect (kill), dies after
an n-byte prefix of a write reached the file (partial write), or makes the call fail with an
OSError (failing call).  The event count comes from a dry run in a forked child, so the space
{1..N} x {kill, fail} x prefix lengths is enumerated exhaustively per operation instance.
"""

import builtins
import errno as _errno
import json
import os
import sys

AUDITED = {"open", "os.rename", "os.remove", "os.truncate", "os.chmod", "tempfile.mkstemp", "sqlite3.connect", "os.mkdir", "os.link", "os.symlink"}


class _Plan:
    def __init__(self, k=None, mode="count", err="ENOSPC", prefix=None, watch=None):
        self.k, self.mode, self.err, self.prefix, self.watch = k, mode, err, prefix, watch
        self.n = 0
        self.events = []
        self.fired = False


def _interesting(plan, path):
    if plan.watch is None:
        return True
    try:
        p = os.fsdecode(path) if isinstance(path, (str, bytes)) else str(path)
    except Exception:
        return False
    return p.startswith(plan.watch)


class _WriteProxy:
    """Wraps a writable text/binary file object: every write() is an event."""

    def __init__(self, f, plan, name):
        self._f, self._plan, self._name = f, plan, name

    def write(self, data):
        plan = self._plan
        plan.n += 1
        plan.events.append(["write", self._name, len(data)])
        if plan.mode != "count" and plan.n == plan.k and not plan.fired:
            plan.fired = True
            if plan.mode == "kill":
                os._exit(137)
            if plan.mode == "partial":
                cut = {"0": 0, "1": min(1, len(data)), "half": len(data) // 2, "len-1": max(len(data) - 1, 0)}[plan.prefix]
                self._f.write(data[:cut])
                self._f.flush()
                os._exit(137)
            if plan.mode == "fail":
                raise OSError(getattr(_errno, plan.err), os.strerror(getattr(_errno, plan.err)))
        return self._f.write(data)

    def __getattr__(self, name):
        return getattr(self._f, name)

    def __enter__(self):
        self._f.__enter__()
        return self

    def __exit__(self, *a):
        return self._f.__exit__(*a)

    def __iter__(self):
        return iter(self._f)


def _install(plan, modules):
    """Audit hook + write proxies in the *current* (child) process."""

    def hook(event, args):
        if event not in AUDITED or plan.fired and plan.mode != "count":
            return
        path = args[0] if args else None
        if event == "open":
            mode = args[1] if len(args) > 1 else None
            flags = args[2] if len(args) > 2 else 0
            if not _interesting(plan, path):
                return
            writing = (isinstance(mode, str) and any(c in mode for c in "wax+")) or (isinstance(flags, int) and flags & (os.O_WRONLY | os.O_RDWR | os.O_CREAT | os.O_TRUNC))
            kind = "open-write" if writing else "open-read"
        elif event == "sqlite3.connect":
            kind = event
        else:
            if not (_interesting(plan, path) or (len(args) > 1 and _interesting(plan, args[1]))):
                return
            kind = event
        plan.n += 1
        plan.events.append([kind, os.path.basename(os.fsdecode(path)) if isinstance(path, (str, bytes)) else str(path)])
        if plan.mode == "count" or plan.n != plan.k:
            return
        plan.fired = True
        if plan.mode == "kill-after-open":
            # the truncating/creating open takes effect, then the process dies before a single byte is written -
            # whatever API would have written the data (write(), sendfile, copyfile ...)
            if kind == "open-write":
                mode = args[1] if len(args) > 1 else None
                flags = args[2] if len(args) > 2 else 0
                trunc = (isinstance(mode, str) and "w" in mode) or (isinstance(flags, int) and flags & os.O_TRUNC)
                try:
                    fd = os.open(path, os.O_WRONLY | os.O_CREAT | (os.O_TRUNC if trunc else 0), 0o600)
                    os.close(fd)
                except OSError:
                    pass
            os._exit(137)
        if plan.mode == "kill-after":
            # the call takes effect, then the process dies at once: whatever still sits in user-space buffers is lost
            try:
                if event == "os.rename":
                    os.rename(args[0], args[1])
                elif event == "os.remove":
                    os.remove(args[0])
            except OSError:
                pass
            os._exit(137)
        if plan.mode in ("kill", "partial"):
            os._exit(137)
        raise OSError(getattr(_errno, plan.err), os.strerror(getattr(_errno, plan.err)))

    sys.addaudithook(hook)
    real_open, real_fdopen = builtins.open, os.fdopen

    def open_(file, mode="r", *a, **k):
        f = real_open(file, mode, *a, **k)
        if any(c in mode for c in "wax+") and _interesting(plan, file if isinstance(file, (str, bytes)) else ""):
            return _WriteProxy(f, plan, os.path.basename(os.fsdecode(file)) if isinstance(file, (str, bytes)) else "fd")
        return f

    def fdopen_(fd, mode="r", *a, **k):
        f = real_fdopen(fd, mode, *a, **k)
        if any(c in mode for c in "wax+"):
            return _WriteProxy(f, plan, "fdopen")
        return f

    for m in modules:
        m.open = open_  # module-level name shadows the builtin inside that module only
    os.fdopen = fdopen_


def run_child(op, plan_kwargs, modules, timeout=60):
    """Fork; in the child install the plan and run op().  Returns (status, events) where status is
    'done' | 'killed' | 'raised:<Type>' | 'timeout'."""
    r, w = os.pipe()
    pid = os.fork()
    if pid == 0:
        try:
            os.close(r)
            fsize = plan_kwargs.pop("fsize", None)
            plan = _Plan(**plan_kwargs)
            _install(plan, modules)
            if fsize is not None:
                # a real resource fault, no hook involved: every write beyond `fsize` bytes of any file is cut short
                # and then fails with EFBIG (what a full disk / quota does), whichever API issues it
                import resource
                import signal as _sig

                _sig.signal(_sig.SIGXFSZ, _sig.SIG_IGN)
                resource.setrlimit(resource.RLIMIT_FSIZE, (fsize, fsize))
            status = "done"
            try:
                op()
            except BaseException as e:  # noqa
                status = "raised:" + type(e).__name__
            try:
                os.write(w, json.dumps({"status": status, "events": plan.events, "fired": plan.fired}).encode())
            except Exception:
                pass
        finally:
            os._exit(0)
    os.close(w)
    import select
    import signal as _signal
    import time

    data = b""
    end = time.time() + timeout
    while True:
        left = end - time.time()
        if left <= 0:
            try:
                os.kill(pid, _signal.SIGKILL)
            except OSError:
                pass
            os.waitpid(pid, 0)
            os.close(r)
            return "timeout", [], False
        rl, _, _ = select.select([r], [], [], min(left, 1.0))
        if rl:
            chunk = os.read(r, 1 << 16)
            if not chunk:
                break
            data += chunk
        else:
            done, st = os.waitpid(pid, os.WNOHANG)
            if done:
                # drain
                while True:
                    chunk = os.read(r, 1 << 16)
                    if not chunk:
                        break
                    data += chunk
                os.close(r)
                return _status(st, data)
    _, st = os.waitpid(pid, 0)
    os.close(r)
    return _status(st, data)


def _status(st, data):
    code = os.waitstatus_to_exitcode(st)
    if data:
        try:
            o = json.loads(data.decode())
            return o["status"], o["events"], o.get("fired", False)
        except ValueError:
            pass
    return ("killed" if code == 137 else f"exit:{code}"), [], True
