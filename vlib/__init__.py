"""Shared machinery for the xonsh runtime-monitoring checks (see /verif/DESIGN.md §1)."""
