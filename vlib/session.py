"""Worker-side helpers: a real xonsh session inside the scratch build, a sandboxed $PATH,
recording aliases and helper child programs.  (DESIGN §1.2, §1.3)"""

import builtins
import json
import os
import stat
import sys
import threading
import time

PY = sys.executable

_COREUTILS = ["cat", "head", "true", "false", "sh", "env", "yes", "sleep", "echo", "printf", "tr", "wc", "ls", "tee", "bash", "kill", "sort", "grep"]

_ARGV_DUMP = """#!{py} -S
import sys, os, json
out = os.environ.get("VERIF_ARGV_OUT")
rec = {{"argv": [a.encode("utf-8", "surrogateescape").hex() for a in sys.argv], "pid": os.getpid()}}
if os.environ.get("VERIF_ARGV_STDIN"):
    rec["stdin"] = sys.stdin.buffer.read().hex()
with open(out, "a") as f:
    f.write(json.dumps(rec) + "\\n")
sys.exit(int(os.environ.get("VERIF_ARGV_RC", "0")))
"""

_EXITN = """#!{py} -S
import sys, os
log = os.environ.get("VERIF_EXITN_LOG")
if log:
    fd = os.open(log, os.O_WRONLY | os.O_APPEND | os.O_CREAT, 0o644)
    import time
    os.write(fd, (repr(time.time()) + " " + " ".join(sys.argv[2:]) + "\\n").encode())
    os.close(fd)
sys.exit(int(sys.argv[1]) if len(sys.argv) > 1 else 0)
"""

# writer PAYLOADFILE chunk delay rc [linger] [limit]: writes the payload to stdout in `chunk`-byte os.write calls
# `delay` seconds apart, then (optionally) closes stdout and lingers before exiting with rc
_WRITER = """#!{py} -S
import sys, os, time
spec = sys.argv[1]
chunk = int(sys.argv[2]); delay = float(sys.argv[3]); rc = int(sys.argv[4])
linger = float(sys.argv[5]) if len(sys.argv) > 5 else 0.0
data = open(spec, 'rb').read()
err = os.environ.get("VERIF_WRITER_STDERR")
if err:
    os.write(2, err.encode())
i = 0
try:
    while i < len(data):
        n = os.write(1, data[i:i + chunk])
        i += n
        if delay:
            time.sleep(delay)
except BrokenPipeError:
    os._exit(141)
if linger:
    os.close(1)
    time.sleep(linger)
os._exit(rc)
"""

# catrc RC [delay]: copies stdin to stdout (64 KiB reads), exits RC
_CATRC = """#!{py} -S
import sys, os, time
rc = int(sys.argv[1]) if len(sys.argv) > 1 else 0
delay = float(sys.argv[2]) if len(sys.argv) > 2 else 0.0
while True:
    b = os.read(0, 65536)
    if not b:
        break
    i = 0
    while i < len(b):
        i += os.write(1, b[i:])
    if delay:
        time.sleep(delay)
os._exit(rc)
"""

# tagger TAG [in] [rc] : "<OTAG>" (+ "<ITAG>stdin</ITAG>") to stdout, "<ETAG>" to stderr
_TAGGER = """#!{py} -S
import sys
tag = sys.argv[1]
o = "<O%s>\\n" % tag
if len(sys.argv) > 2 and sys.argv[2] == "in":
    o += "<I%s>%s</I%s>\\n" % (tag, sys.stdin.read(), tag)
rc = int(sys.argv[3]) if len(sys.argv) > 3 else 0
sys.stdout.write(o); sys.stdout.flush()
sys.stderr.write("<E%s>\\n" % tag); sys.stderr.flush()
import os
if os.environ.get("VERIF_TAGGER_LATE"):
    # a second stdout write after the stderr one: both streams into one file must interleave, not overwrite
    sys.stdout.write("<Q%s>\\n" % tag); sys.stdout.flush()
sys.exit(rc)
"""


def make_sandbox_path(root, extra_links=()):
    d = os.path.join(root, f"sbin-{os.getpid()}")
    os.makedirs(d, exist_ok=True)
    for name, body in (("argv_dump", _ARGV_DUMP), ("exitn", _EXITN), ("writer", _WRITER), ("tagger", _TAGGER), ("catrc", _CATRC)):
        p = os.path.join(d, name)
        with open(p, "w") as f:
            f.write(body.format(py=PY))
        os.chmod(p, 0o755)
    for name in list(_COREUTILS) + list(extra_links):
        for base in ("/usr/bin", "/bin"):
            src = os.path.join(base, name)
            if os.path.exists(src):
                dst = os.path.join(d, name)
                if not os.path.lexists(dst):
                    os.symlink(src, dst)
                break
    return d


def make_session(path_dirs=None, env=None, inherit=False, data_dir=None):
    """Load a real XonshSession with an Execer (fresh tables live in the scratch copy)."""
    from xonsh.built_ins import XSH
    from xonsh.environ import Env
    from xonsh.execer import Execer

    if getattr(builtins, "__xonsh__", None) is not None and XSH.builtins_loaded:
        try:
            XSH.unload()
        except Exception:
            pass
    scratch = os.environ.get("VERIF_SCRATCH", "/tmp")
    home = os.environ.get("HOME", scratch)
    base = {
        "PATH": list(path_dirs or []),
        "HOME": home,
        "XONSH_DATA_DIR": data_dir or os.environ.get("XONSH_DATA_DIR", os.path.join(home, ".xd")),
        "XONSH_CACHE_DIR": os.environ.get("XONSH_CACHE_DIR", os.path.join(home, ".xc")),
        "XONSH_INTERACTIVE": False,
        "XONSH_SHOW_TRACEBACK": False,
        "XONSH_HISTORY_BACKEND": "dummy",
        "TERM": "xterm",
        "LANG": "C.UTF-8",
        "LC_ALL": "C.UTF-8",
        "PWD": os.getcwd(),
        "UPDATE_OS_ENVIRON": False,
        "XONSH_ENV_INHERITED": False,
    }
    for k in ("PYTHONPATH", "PYTHONDONTWRITEBYTECODE", "PYTHONHASHSEED", "XONSH_XONSH_VERIF", "TMPDIR", "VERIF_SCRATCH"):
        if k in os.environ:
            base[k] = os.environ[k]
    if env:
        base.update(env)
    ex = Execer()
    ctx = {}
    XSH.load(execer=ex, ctx=ctx, env=Env(base))
    return XSH, ex, ctx


class Recorder:
    """Lock-protected log of command launches seen by recording aliases."""

    def __init__(self):
        self.lock = threading.Lock()
        self.log = []
        self.seq = 0

    def clear(self):
        with self.lock:
            self.log = []

    def snapshot(self):
        with self.lock:
            return list(self.log)

    def alias(self, name, rc=0, read_stdin=False, out=None, unthreadable=False):
        rec = self

        def f(args, stdin=None, stdout=None, stderr=None):
            data = None
            if read_stdin and stdin is not None:
                try:
                    data = stdin.read()
                except Exception as e:  # noqa
                    data = f"<stdin error {type(e).__name__}>"
            with rec.lock:
                rec.seq += 1
                rec.log.append({"seq": rec.seq, "t": time.time(), "name": name, "argv": list(args), "stdin": data, "thread": threading.current_thread().name})
            if out is not None and stdout is not None:
                stdout.write(out)
            return rc(args) if callable(rc) else rc

        f.__name__ = "rec_" + name
        if unthreadable:
            from xonsh.tools import unthreadable as _u

            f = _u(f)
        return f


_STUCK = set()


def settle(timeout=3.0):
    """Wait until no xonsh helper thread (proxy / popen / closer) of a finished command is alive.  A thread that
    outlives one full timeout is remembered and ignored from then on, so one stuck helper (a C06/C09 finding) does
    not add the timeout to every later case."""
    import time

    end = time.time() + timeout
    while True:
        alive = [t for t in threading.enumerate() if t is not threading.main_thread() and t.is_alive() and t.ident not in _STUCK and not t.name.startswith(("verif", "pydevd"))]
        if not alive:
            return True
        if time.time() >= end:
            _STUCK.update(t.ident for t in alive)
            return False
        time.sleep(0.01)


_ORIG_STD = {}


def repair_std():
    """xonsh can leave sys.std* closed or replaced by its thread dispatcher (races between alias stages, C09's
    subject): put the interpreter's own streams back so that one damaged case is not charged to the next ones.
    Returns what had to be repaired."""
    out = []
    for n, fd, mode in (("stdout", 1, "w"), ("stderr", 2, "w"), ("stdin", 0, "r")):
        orig = _ORIG_STD.setdefault(n, getattr(sys, "__" + n + "__"))
        cur = getattr(sys, n)
        if getattr(orig, "closed", False):
            orig = _ORIG_STD[n] = open(fd, mode, closefd=False)
            setattr(sys, "__" + n + "__", orig)
            out.append(n + "-closed")
        if cur is not orig:
            setattr(sys, n, orig)
            if n + "-closed" not in out:
                out.append(n + "-replaced")
    return out


def reset_jobs():
    """Isolation between cases: drop whatever the previous command left in the main thread's job table
    (a job whose proxy never got a return code makes every later wait_for_active_job spin - C09's subject).
    Returns the number of entries that were still unfinished."""
    from xonsh.procs import jobs

    stale = 0
    for j in list(jobs.get_jobs().values()):
        try:
            if j.get("obj") is not None and j["obj"].poll() is None:
                stale += 1
        except Exception:
            stale += 1
    jobs.get_jobs().clear()
    jobs.get_tasks().clear()
    return stale


def read_argv_dump(path):
    out = []
    try:
        with open(path) as f:
            for line in f:
                r = json.loads(line)
                r["argv"] = [bytes.fromhex(a).decode("utf-8", "surrogateescape") for a in r["argv"]]
                if "stdin" in r:
                    r["stdin"] = bytes.fromhex(r["stdin"])
                out.append(r)
    except FileNotFoundError:
        pass
    return out
