"""Worker-side helpers: a real xonsh session inside the scratch build, a sandboxed $PATH,
recording aliases and helper child programs.  (DESIGN §1.2, §1.3)"""

import builtins
import json
import os
import stat
import sys
import threading
import time

PY = sys.executable

_COREUTILS = ["cat", "head", "true", "false", "sh", "env", "yes", "sleep", "echo", "printf", "tr", "wc", "ls", "tee", "bash", "kill", "sort", "grep"]

_ARGV_DUMP = """#!{py} -S
import sys, os, json
out = os.environ.get("VERIF_ARGV_OUT")
rec = {{"argv": [a.encode("utf-8", "surrogateescape").hex() for a in sys.argv], "pid": os.getpid()}}
if os.environ.get("VERIF_ARGV_STDIN"):
    rec["stdin"] = sys.stdin.buffer.read().hex()
with open(out, "a") as f:
    f.write(json.dumps(rec) + "\\n")
sys.exit(int(os.environ.get("VERIF_ARGV_RC", "0")))
"""

_EXITN = """#!{py} -S
import sys, os
log = os.environ.get("VERIF_EXITN_LOG")
if log:
    fd = os.open(log, os.O_WRONLY | os.O_APPEND | os.O_CREAT, 0o644)
    import time
    os.write(fd, (repr(time.time()) + " " + " ".join(sys.argv[2:]) + "\\n").encode())
    os.close(fd)
sys.exit(int(sys.argv[1]) if len(sys.argv) > 1 else 0)
"""

# writer.py total chunk delay_ms rc mode : writes a self-describing payload to stdout
_WRITER = """#!{py} -S
import sys, os, time
spec = sys.argv[1]
chunk = int(sys.argv[2]); delay = float(sys.argv[3]); rc = int(sys.argv[4])
data = open(spec, 'rb').read()
fd = 1
i = 0
while i < len(data):
    n = os.write(fd, data[i:i + chunk])
    i += n
    if delay:
        time.sleep(delay)
err = os.environ.get("VERIF_WRITER_STDERR")
if err:
    os.write(2, err.encode())
os._exit(rc)
"""

# tagger.py TAG [in] : "O<TAG>[<stdin>]" to stdout, "E<TAG>" to stderr
_TAGGER = """#!{py} -S
import sys
tag = sys.argv[1]
data = sys.stdin.read() if len(sys.argv) > 2 and sys.argv[2] == "in" else ""
rc = int(sys.argv[3]) if len(sys.argv) > 3 else 0
sys.stdout.write("O%s[%s]\\n" % (tag, data)); sys.stdout.flush()
sys.stderr.write("E%s\\n" % tag); sys.stderr.flush()
sys.exit(rc)
"""


def make_sandbox_path(root, extra_links=()):
    d = os.path.join(root, f"sbin-{os.getpid()}")
    os.makedirs(d, exist_ok=True)
    for name, body in (("argv_dump", _ARGV_DUMP), ("exitn", _EXITN), ("writer", _WRITER), ("tagger", _TAGGER)):
        p = os.path.join(d, name)
        with open(p, "w") as f:
            f.write(body.format(py=PY))
        os.chmod(p, 0o755)
    for name in list(_COREUTILS) + list(extra_links):
        for base in ("/usr/bin", "/bin"):
            src = os.path.join(base, name)
            if os.path.exists(src):
                dst = os.path.join(d, name)
                if not os.path.lexists(dst):
                    os.symlink(src, dst)
                break
    return d


def make_session(path_dirs=None, env=None, inherit=False, data_dir=None):
    """Load a real XonshSession with an Execer (fresh tables live in the scratch copy)."""
    from xonsh.built_ins import XSH
    from xonsh.environ import Env
    from xonsh.execer import Execer

    if getattr(builtins, "__xonsh__", None) is not None and XSH.builtins_loaded:
        try:
            XSH.unload()
        except Exception:
            pass
    scratch = os.environ.get("VERIF_SCRATCH", "/tmp")
    home = os.environ.get("HOME", scratch)
    base = {
        "PATH": list(path_dirs or []),
        "HOME": home,
        "XONSH_DATA_DIR": data_dir or os.environ.get("XONSH_DATA_DIR", os.path.join(home, ".xd")),
        "XONSH_CACHE_DIR": os.environ.get("XONSH_CACHE_DIR", os.path.join(home, ".xc")),
        "XONSH_INTERACTIVE": False,
        "XONSH_SHOW_TRACEBACK": False,
        "XONSH_HISTORY_BACKEND": "dummy",
        "TERM": "xterm",
        "LANG": "C.UTF-8",
        "LC_ALL": "C.UTF-8",
        "PWD": os.getcwd(),
        "UPDATE_OS_ENVIRON": False,
        "XONSH_ENV_INHERITED": False,
    }
    for k in ("PYTHONPATH", "PYTHONDONTWRITEBYTECODE", "PYTHONHASHSEED", "XONSH_XONSH_VERIF", "TMPDIR", "VERIF_SCRATCH"):
        if k in os.environ:
            base[k] = os.environ[k]
    if env:
        base.update(env)
    ex = Execer()
    ctx = {}
    XSH.load(execer=ex, ctx=ctx, env=Env(base))
    return XSH, ex, ctx


class Recorder:
    """Lock-protected log of command launches seen by recording aliases."""

    def __init__(self):
        self.lock = threading.Lock()
        self.log = []
        self.seq = 0

    def clear(self):
        with self.lock:
            self.log = []

    def snapshot(self):
        with self.lock:
            return list(self.log)

    def alias(self, name, rc=0, read_stdin=False, out=None, unthreadable=False):
        rec = self

        def f(args, stdin=None, stdout=None, stderr=None):
            data = None
            if read_stdin and stdin is not None:
                try:
                    data = stdin.read()
                except Exception as e:  # noqa
                    data = f"<stdin error {type(e).__name__}>"
            with rec.lock:
                rec.seq += 1
                rec.log.append({"seq": rec.seq, "t": time.time(), "name": name, "argv": list(args), "stdin": data, "thread": threading.current_thread().name})
            if out is not None and stdout is not None:
                stdout.write(out)
            return rc(args) if callable(rc) else rc

        f.__name__ = "rec_" + name
        if unthreadable:
            from xonsh.tools import unthreadable as _u

            f = _u(f)
        return f


def settle(timeout=3.0):
    """Wait until no xonsh helper thread (proxy / popen / closer) of a finished command is alive."""
    import time

    end = time.time() + timeout
    while time.time() < end:
        alive = [t for t in threading.enumerate() if t is not threading.main_thread() and t.is_alive() and not t.name.startswith(("verif", "pydevd"))]
        if not alive:
            return True
        time.sleep(0.01)
    return False


def read_argv_dump(path):
    out = []
    try:
        with open(path) as f:
            for line in f:
                r = json.loads(line)
                r["argv"] = [bytes.fromhex(a).decode("utf-8", "surrogateescape") for a in r["argv"]]
                if "stdin" in r:
                    r["stdin"] = bytes.fromhex(r["stdin"])
                out.append(r)
    except FileNotFoundError:
        pass
    return out
