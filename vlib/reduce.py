"""Hierarchical delta debugging of Python/xonsh source text, driven by CPython's tree.

The reducer only proposes candidates; ``still(text)`` (supplied by the check) decides
whether a candidate is still a valid witness of the same failure.  Surface syntax
is preserved (edits are byte-range replacements inside the original text), so
surface-dependent failures (``1>=1``, parenthesised with-items) survive reduction.
"""

import ast
import textwrap
import warnings


def _parse(text):
    with warnings.catch_warnings():
        warnings.simplefilter("ignore")
        return ast.parse(text)


def _offsets(text):
    """byte offset of the start of each (1-based) line in the utf-8 encoding"""
    b = text.encode("utf-8", "surrogatepass")
    offs = [0]
    for i, ch in enumerate(b):
        if ch == 10:
            offs.append(i + 1)
    return b, offs


def _span(node, offs):
    if getattr(node, "lineno", None) is None or getattr(node, "end_lineno", None) is None:
        return None
    try:
        return offs[node.lineno - 1] + node.col_offset, offs[node.end_lineno - 1] + node.end_col_offset
    except IndexError:
        return None


def candidates(text):
    try:
        tree = _parse(text)
    except Exception:
        return []
    b, offs = _offsets(text)
    out = []

    def rep(a, e, new):
        try:
            out.append((b[:a] + new + b[e:]).decode("utf-8", "surrogatepass"))
        except UnicodeDecodeError:
            pass

    for node in ast.walk(tree):
        sp = _span(node, offs)
        if isinstance(node, ast.expr) and sp:
            seg = b[sp[0]:sp[1]]
            if seg not in (b"x", b"0"):
                rep(sp[0], sp[1], b"x")
                if not isinstance(node, (ast.Name,)):
                    try:
                        out.append("(" + seg.decode("utf-8", "surrogatepass") + ")\n")
                    except UnicodeDecodeError:
                        pass
            if isinstance(node, ast.Constant) and seg not in (b"0", b"x", b"''"):
                rep(sp[0], sp[1], b"0")
                if isinstance(node.value, str):
                    rep(sp[0], sp[1], b"''")
        elif isinstance(node, ast.stmt) and sp and node is not tree:
            decos = getattr(node, "decorator_list", None)
            if decos:
                first = min(d.lineno for d in decos)
                line = b[offs[first - 1]:].split(b"\n", 1)[0]
                sp = (offs[first - 1] + line.index(b"@") if b"@" in line else sp[0], sp[1])
            seg = b[sp[0]:sp[1]]
            if seg != b"pass":
                rep(sp[0], sp[1], b"pass")
            ls = offs[node.lineno - 1]
            try:
                out.append(textwrap.dedent(b[ls:sp[1]].decode("utf-8", "surrogatepass")) + "\n")
            except UnicodeDecodeError:
                pass
        # drop one element of a list field
        for f, v in ast.iter_fields(node):
            if isinstance(v, list) and len(v) >= 2:
                sps = [_span(x, offs) if isinstance(x, ast.AST) else None for x in v]
                if any(s is None for s in sps):
                    continue
                for i in range(len(v)):
                    if i + 1 < len(v):
                        a, e = sps[i][0], sps[i + 1][0]
                    else:
                        a, e = sps[i - 1][1], sps[i][1]
                    if a < e:
                        rep(a, e, b"")
    seen, uniq = set(), []
    for c in out:
        if c != text and c not in seen:
            seen.add(c)
            uniq.append(c)
    uniq.sort(key=len)
    return uniq


def reduce_text(text, still, budget=400):
    """Greedy fixpoint; returns (reduced text, evaluations used)."""
    used = 0
    progress = True
    while progress and used < budget:
        progress = False
        for c in candidates(text):
            if len(c) >= len(text) + 2:
                break
            if used >= budget:
                break
            used += 1
            try:
                ok = still(c)
            except Exception:
                ok = False
            if ok:
                text = c
                progress = True
                break
    return text, used


_OPS = (ast.operator, ast.cmpop, ast.boolop, ast.unaryop)


def shape(node, depth=6):
    """Compact structural string of a (reduced) tree: node kinds, operators, field names;
    identifiers and literal values are dropped (Name -> N, Constant -> C<type>)."""
    if isinstance(node, ast.Name):
        return "N"
    if isinstance(node, ast.Constant):
        return "C" + type(node.value).__name__
    if isinstance(node, _OPS + (ast.expr_context,)):
        return type(node).__name__
    if depth <= 0:
        return type(node).__name__
    parts = []
    for f, v in ast.iter_fields(node):
        if isinstance(v, ast.expr_context):
            if isinstance(v, (ast.Store, ast.Del)):
                parts.append(type(v).__name__)
            continue
        if isinstance(v, ast.AST):
            parts.append(f"{f}={shape(v, depth - 1)}")
        elif isinstance(v, list):
            items = [shape(x, depth - 1) if isinstance(x, ast.AST) else ("_" if x is None else type(x).__name__) for x in v]
            if items:
                parts.append(f"{f}=[{','.join(items)}]")
        elif f in ("level", "simple", "conversion", "is_async") and v:
            parts.append(f"{f}={v}")
    return type(node).__name__ + ("(" + ",".join(parts) + ")" if parts else "")


# --------------------------------------------------------------------------- tree-level reduction
_NOEDIT = (ast.expr_context, ast.operator, ast.cmpop, ast.boolop, ast.unaryop)


def _paths(node, path=()):
    """Yield (path, node) for every AST child reachable from ``node`` (path = ((field, index|None), ...))."""
    for f, v in ast.iter_fields(node):
        if isinstance(v, list):
            for i, x in enumerate(v):
                if isinstance(x, ast.AST) and not isinstance(x, _NOEDIT):
                    p = path + ((f, i),)
                    yield p, x
                    yield from _paths(x, p)
        elif isinstance(v, ast.AST) and not isinstance(v, _NOEDIT):
            p = path + ((f, None),)
            yield p, v
            yield from _paths(v, p)


def _get(root, path):
    n = root
    for f, i in path:
        n = getattr(n, f)
        if i is not None:
            n = n[i]
    return n


def _set(root, path, new, delete=False):
    import copy

    root = copy.deepcopy(root)
    parent = _get(root, path[:-1])
    f, i = path[-1]
    if i is None:
        setattr(parent, f, None if delete else new)
    else:
        lst = getattr(parent, f)
        if delete:
            del lst[i]
            # keep parallel lists of the ASDL in step
            if isinstance(parent, ast.Dict) and f in ("keys", "values"):
                other = "values" if f == "keys" else "keys"
                del getattr(parent, other)[i]
            if isinstance(parent, ast.Compare) and f == "comparators":
                del parent.ops[i]
            if isinstance(parent, ast.arguments) and f == "kwonlyargs":
                del parent.kw_defaults[i]
            if isinstance(parent, ast.MatchMapping) and f in ("keys", "patterns"):
                other = "patterns" if f == "keys" else "keys"
                del getattr(parent, other)[i]
            if isinstance(parent, ast.MatchClass) and f == "kwd_patterns":
                del parent.kwd_attrs[i]
        else:
            lst[i] = new
    return root


def _render(tree):
    with warnings.catch_warnings():
        warnings.simplefilter("ignore")
        return ast.unparse(ast.fix_missing_locations(tree)) + "\n"


def _size(n):
    return sum(1 for _ in ast.walk(n))


def tree_candidates(tree, max_edits=250):
    """Lazily yield candidate texts, biggest steps first.

    Stage 1 - hoists (a statement / expression on its own): cheap, no copy of the tree, smallest text first.
    Stage 2 - edits (replace a subtree by pass / x / _, or delete it): each costs a deep copy of the whole tree,
    so they are generated one at a time, largest replaced subtree first, and capped per round - reducing a
    3000-character class body must not cost minutes before the first candidate is even tried."""
    nodes = list(_paths(tree))
    seen = set()
    shoists, ehoists = [], []
    for path, n in nodes:
        try:
            if isinstance(n, ast.stmt):
                shoists.append(_render(ast.Module([n], [])))
            elif isinstance(n, ast.expr) and not isinstance(n, ast.Starred):
                ehoists.append(_render(ast.Module([ast.Expr(n)], [])))
        except Exception:
            continue
    for group in (shoists, ehoists):  # statement hoists first: few candidates, biggest steps
        for s in sorted(set(group), key=len):
            if s not in seen:
                seen.add(s)
                yield s
    sized = []
    for path, n in nodes:
        try:
            sized.append((_size(n), path, n))
        except Exception:
            continue
    sized.sort(key=lambda t: -t[0])
    edits = 0
    for _, path, n in sized:
        if edits >= max_edits:
            break
        cands = []
        try:
            if isinstance(n, ast.stmt):
                if not isinstance(n, ast.Pass):
                    cands.append(lambda: _set(tree, path, ast.Pass()))
            elif isinstance(n, ast.expr):
                if not (isinstance(n, ast.Name) and n.id == "x"):
                    cands.append(lambda: _set(tree, path, ast.Name("x", getattr(n, "ctx", ast.Load()))))
            elif isinstance(n, ast.pattern):
                if not (isinstance(n, ast.MatchAs) and n.pattern is None and n.name is None):
                    cands.append(lambda: _set(tree, path, ast.MatchAs(None, None)))
            cands.append(lambda: _set(tree, path, None, delete=True))
        except Exception:
            continue
        for mk in cands:
            try:
                s = _render(mk())
            except Exception:
                continue
            if s not in seen:
                seen.add(s)
                edits += 1
                yield s


def reduce_tree(text, still, budget=400):
    """Reduce via CPython's tree + ast.unparse.  Returns (text, used) or (None, used) when the
    unparsed form of ``text`` is not itself a witness (a surface-dependent failure)."""
    used = 1
    try:
        cur = _render(_parse(text))
        if not still(cur):
            return None, used
    except Exception:
        return None, used
    progress = True
    while progress and used < budget:
        progress = False
        try:
            cands = tree_candidates(_parse(cur))
        except Exception:
            break
        for c in cands:
            if used >= budget:
                break
            if len(c) >= len(cur):
                continue
            used += 1
            try:
                ok = still(c)
            except Exception:
                ok = False
            if ok:
                cur, progress = c, True
                break
    return cur, used


# --------------------------------------------------------------------------- plain text ddmin (fuzz inputs)
def ddmin_text(text, still, budget=300):
    """Delta debugging on lines, then on characters; ``still(t)`` must be cheap and side-effect free."""
    used = [0]

    def test(t):
        if used[0] >= budget:
            return False
        used[0] += 1
        try:
            return bool(still(t))
        except Exception:
            return False

    def dd(units, join):
        n = 2
        while len(units) >= 2 and used[0] < budget:
            size = max(1, len(units) // n)
            chunks = [units[i:i + size] for i in range(0, len(units), size)]
            reduced = False
            for i in range(len(chunks)):
                cand = [u for j, c in enumerate(chunks) if j != i for u in c]
                if cand and test(join(cand)):
                    units, n, reduced = cand, max(n - 1, 2), True
                    break
            if not reduced:
                if size == 1:
                    break
                n = min(n * 2, len(units))
        return units

    lines = dd(text.split("\n"), "\n".join)
    text = "\n".join(lines)
    if len(text) <= 200:
        chars = dd(list(text), "".join)
        text = "".join(chars)
    return text, used[0]
