"""Hand-written self-test mutants (DESIGN 'Breaks to catch' lists), one textual edit each.

usage: mutants.py list | run [<name-or-check-prefix> ...] [--tier quick] [-j N]
Each mutant is applied to a scratch copy of /repo (never /repo itself) and the named check is run
with VERIF_REPO pointing at the copy; CAUGHT = check exits 1 with a VIOLATION line.
Results are appended to tools/mutants_results.jsonl (name, check, tier, verdict, first line).
"""
import concurrent.futures
import json
import os
import shutil
import subprocess
import sys
import tempfile
import time

V = os.path.dirname(os.path.dirname(os.path.abspath(__file__)))

# (name, check, file, old, new)
M = [
    # ---- C14 limit spellings
    ("c14-kb-is-1000", "C14", "xonsh/tools.py", "_kb_to_b = lambda x: 1024 * int(x)", "_kb_to_b = lambda x: 1000 * int(x)"),
    ("c14-regex-drops-sign-and-space", "C14", "xonsh/tools.py", 'r"([-+]?[0-9]*\\.?[0-9]+([eE][-+]?[0-9]+)?)\\s*([A-Za-z]*)"', 'r"([-+]?[0-9]*\\.?[0-9]+([eE][-+]?[0-9]+)?)\\s?([A-Za-z]*)"'),
    # ---- C15 alias expansion
    ("c15-seen-not-updated", "C15", "xonsh/aliases.py", "seen_tokens = seen_tokens | {token}", "seen_tokens = seen_tokens"),
    ("c15-args-before-rest", "C15", "xonsh/aliases.py", "acc_args = rest + list(acc_args)", "acc_args = list(acc_args) + rest"),
    ("c15-rest-after-args", "C15", "xonsh/aliases.py", "                rtn.extend(rest)\n                rtn.extend(acc_args)", "                rtn.extend(acc_args)\n                rtn.extend(rest)"),
    ("c15-get-no-seed", "C15", "xonsh/aliases.py", "seen_tokens={key},", "seen_tokens=frozenset(),"),
    # ---- C16 dirstack
    ("c16-oldpwd-after-pwd", "C16", "xonsh/dirstack.py", '        if old is not None:\n            env["OLDPWD"] = old\n        if new is not None:\n            env["PWD"] = absnew', '        if new is not None:\n            env["PWD"] = absnew\n        if old is not None:\n            env["OLDPWD"] = env["PWD"]'),
    ("c16-popd-offbyone", "C16", "xonsh/dirstack.py", "                DIRSTACK.pop(len(DIRSTACK) - 1 - num)", "                DIRSTACK.pop(len(DIRSTACK) - num)"),
    ("c16-no-truncate", "C16", "xonsh/dirstack.py", "    if len(DIRSTACK) > maxsize:\n        DIRSTACK = DIRSTACK[:maxsize]", "    if len(DIRSTACK) > maxsize + 1:\n        DIRSTACK = DIRSTACK[:maxsize]"),
    ("c16-dirs-idx", "C16", "xonsh/dirstack.py", "            idx = len(o) - 1 - num", "            idx = len(o) - num - 2 if num + 2 <= len(o) else 0"),
    # ---- C20 jobs
    ("c20-number-from-0", "C20", "xonsh/procs/jobs.py", "    _clear_dead_jobs()\n    i = 1\n    while i in get_jobs():", "    _clear_dead_jobs()\n    i = 0\n    while i in get_jobs():"),
    ("c20-number-no-purge", "C20", "xonsh/procs/jobs.py", "    _clear_dead_jobs()\n    i = 1\n    while i in get_jobs():", "    i = 1\n    while i in get_jobs():"),
    ("c20-append-not-left", "C20", "xonsh/procs/jobs.py", "    get_tasks().appendleft(num)\n    get_jobs()[num] = info", "    get_tasks().append(num)\n    get_jobs()[num] = info"),
    ("c20-purge-deque-only", "C20", "xonsh/procs/jobs.py", "        for job in to_remove:\n            jobs.pop(job, None)", "        for job in to_remove:\n            pass"),
    ("c20-minus-is-third", "C20", "xonsh/procs/jobs.py", "                tid = tasks[1]", "                tid = tasks[-1]"),
    # ---- C08 lookup
    ("c08-no-reversed", "C08", "xonsh/procs/executables.py", 'return tuple(reversed(tuple(clear_paths(env.get("PATH") or []))))', 'return tuple(clear_paths(env.get("PATH") or []))'),
    ("c08-no-access", "C08", "xonsh/procs/executables.py", "        return os.access(filepath, os.X_OK)\n    except OSError:\n        # broken", "        return True\n    except OSError:\n        # broken"),
    ("c08-mtime-lt", "C08", "xonsh/commands_cache.py", "(self._paths_cache[path].mtime != modified_time)", "(self._paths_cache[path].mtime < modified_time)"),
    # ---- C19 code cache
    ("c19-stat-gt", "C19", "xonsh/codecache.py", "if os.stat(cachefname).st_mtime >= os.stat(filename).st_mtime:", "if os.stat(cachefname).st_mtime >= os.stat(filename).st_mtime - 2:"),
    ("c19-marshal-narrow", "C19", "xonsh/codecache.py", "                    ccode = marshal.load(cfile)\n                except Exception:\n                    # Cache file is corrupted (e.g. truncated by a crash).", "                    ccode = marshal.load(cfile)\n                except ValueError:\n                    # Cache file is corrupted (e.g. truncated by a crash)."),
    # ---- C14 gc
    ("c14-keep-oldest", "C14", "xonsh/history/json.py", "rmfiles = files[: len(files) - hsize] if len(files) > hsize else []", "rmfiles = files[hsize:] if len(files) > hsize else []"),
    # ---- C12 history
    ("c12-hist-extend-assign", "C12", "xonsh/history/json.py", '        hist["cmds"].extend(cmds)', '        hist["cmds"] = hist["cmds"][:-1] + cmds if len(cmds) > 3 else hist["cmds"] + cmds'),
    # ---- C07 redirects
    ("c07-append-truncates", "C07", "xonsh/procs/specs.py", 'return {">>": "a", ">": "w", "<": "r"}', 'return {">>": "w", ">": "w", "<": "r"}'),
    ("c07-err-spelling-lost", "C07", "xonsh/procs/specs.py", 'return frozenset({"2", "e", "err"})', 'return frozenset({"2", "e"})'),
    ("c07-o2e-e2o-swapped", "C07", "xonsh/procs/specs.py", "    if no_ampersand in _E2O_MAP:\n        stderr = subprocess.STDOUT\n        return stdin, stdout, stderr\n    elif no_ampersand in _O2E_MAP:", "    if no_ampersand in _O2E_MAP:\n        stderr = subprocess.STDOUT\n        return stdin, stdout, stderr\n    elif no_ampersand in _E2O_MAP:"),
    ("c07-multi-redirect-silent", "C07", "xonsh/procs/specs.py", "        if self._stdout is None:\n            self._stdout = value\n        elif value is None:\n            pass\n        else:\n            safe_close(value)", "        if self._stdout is None or value is not None:\n            self._stdout = value\n        elif value is None:\n            pass\n        else:\n            safe_close(value)"),
    # ---- C10 / C11 environment
    ("c10-mutable-read-keeps-cache", "C10", "xonsh/environ.py", "        ):\n            self._detyped = None\n        if isinstance(val, EnvPath):", "        ):\n            pass\n        if isinstance(val, EnvPath):"),
    ("c10-del-keeps-cache", "C10", "xonsh/environ.py", "                del self._d[key]\n            self._detyped = None\n            if self.get(\"UPDATE_OS_ENVIRON\") and key in os_environ:", "                del self._d[key]\n            if self.get(\"UPDATE_OS_ENVIRON\") and key in os_environ:"),
    ("c11-restore-skips-absent", "C11", "xonsh/environ.py", "                if v is NotImplemented:\n                    self._del_item(k, thread_local=True)", "                if v is NotImplemented:\n                    pass"),
    ("c11-contains-ignores-mask", "C11", "xonsh/environ.py", "        if item in self._d:\n            return self._d[item] is not DELETE_VAR\n        return item in self._vars", "        if item in self._d:\n            return True\n        return item in self._vars"),
    # ---- C13 crash safety
    ("c13-dump-in-place", "C13", "xonsh/history/json.py", "        try:\n            os.replace(tmpname, self.filename)\n        except Exception as err:", "        try:\n            with open(tmpname, encoding=\"utf-8\", newline=\"\\n\") as src, open(self.filename, \"w\", encoding=\"utf-8\", newline=\"\\n\") as dst:\n                dst.write(src.read())\n            os.remove(tmpname)\n        except Exception as err:"),
    ("c13-sqlite-erasedups-commit-per-group", "C13", "xonsh/history/sqlite.py", "                (total_freq, keep_rowid),\n            )\n\n        conn.commit()", "                (total_freq, keep_rowid),\n            )\n            conn.commit()\n\n        conn.commit()"),
    ("c13-sqlite-autocommit", "C13", "xonsh/history/sqlite.py", "    conn = sqlite3.connect(str(filename))\n    try:\n        with conn:", "    conn = sqlite3.connect(str(filename), isolation_level=None)\n    try:\n        with conn:"),
    ("c13-failed-write-still-replaces", "C13", "xonsh/history/json.py", "            print(f\"history: failed to write {tmpname!r}: {err}\", file=sys.stderr)\n            return\n", "            print(f\"history: failed to write {tmpname!r}: {err}\", file=sys.stderr)\n"),
    # ---- C09 session conservation (pty layer: terminal ownership)
    ("c09-end-keeps-terminal", "C09", "xonsh/procs/pipelines.py", "        self._end(tee_output=tee_output)\n        self._return_terminal()", "        self._end(tee_output=tee_output)"),
    # (c09-failed-start-keeps-terminal: dropping _return_terminal() from the failed-start branch of CommandPipeline.__init__ is an equivalent mutant - end() returns the terminal right afterwards)
    ("c09-error-raise-keeps-terminal", "C09", "xonsh/procs/pipelines.py", "                raise subprocess.CalledProcessError(rtn, spec.args, output=self.output)\n            finally:\n                # needed to get a working terminal in interactive mode\n                self._return_terminal()\n            return", "                raise subprocess.CalledProcessError(rtn, spec.args, output=self.output)\n            finally:\n                pass\n            return"),
    # ---- C14 more
    ("c14-locked-deleted", "C14", "xonsh/history/json.py", '                if only_unlocked and lj.get("locked", False):', '                if only_unlocked and lj.get("locked", False) and False:'),
    ("c14-refusal-off", "C14", "xonsh/history/json.py", "        if self.force_gc or size_over < hsize:", "        if self.force_gc or size_over <= hsize * 4:"),
    # ---- C01 / C03 lexer + parser
    ("c01-store-ctx-shallow", "C01", "xonsh/parsers/base.py", "    x.ctx = ast.Store()\n    if isinstance(x, ast.Tuple | ast.List):\n        for e in x.elts:", "    x.ctx = ast.Store()\n    if isinstance(x, ast.Tuple):\n        for e in x.elts:"),
    # ---- C06 capture
    # (closing the reader before the last put, or dropping the thread-liveness test from is_fully_read, is harmless alone: two cooperating sites)
    ("c06-closed-before-put+no-liveness-test", "C06", [("xonsh/procs/readers.py", "        if c:\n            queue.put(c)\n        else:\n            reader.closed = True\n            break", "        if len(c) < 1024:\n            reader.closed = True\n        if c:\n            queue.put(c)\n        else:\n            reader.closed = True\n            break"), ("xonsh/procs/readers.py", "            and (self.thread is None or not self.thread.is_alive())\n", "")]),
    ("c06-one-line-strips-more", "C06", "xonsh/procs/pipelines.py", '                return lines[0].rstrip("\\n")', '                return lines[0].rstrip()'),
    # ---- C12 history
    ("c12-len-after-flush", "C12", "xonsh/history/json.py", "        self.buffer.append(cmd)\n        self._len += 1  # must come before flushing\n", "        self.buffer.append(cmd)\n"),
    ("c12-front-always", "C12", "xonsh/history/json.py", '        """Tests if the flusher is at the front of the queue."""\n        return self is self.queue[0]', '        """Tests if the flusher is at the front of the queue."""\n        return True'),
    # ---- C18: (choosing the other quote character in _quote_to_use is an equivalent mutant - the escaping follows the choice)
    # ---- C12 schedules
    ("c12-reader-does-not-wait", "C12", "xonsh/history/json.py", "            self.hist._cond.wait_for(self.i_am_at_the_front)\n            with open(self.hist.filename", "            with open(self.hist.filename"),
    ("c12-flusher-no-notify", "C12", "xonsh/history/json.py", "    def run(self):\n        with self.cond:\n            self.cond.wait_for(self.i_am_at_the_front)\n            self.dump()\n            self.queue.popleft()\n            self.cond.notify_all()", "    def run(self):\n        with self.cond:\n            self.cond.wait_for(self.i_am_at_the_front)\n            self.dump()\n            self.queue.popleft()"),
    ("c12-popleft-before-dump", "C12", "xonsh/history/json.py", "    def run(self):\n        with self.cond:\n            self.cond.wait_for(self.i_am_at_the_front)\n            self.dump()\n            self.queue.popleft()\n            self.cond.notify_all()", "    def run(self):\n        with self.cond:\n            self.cond.wait_for(self.i_am_at_the_front)\n            self.queue.popleft()\n            self.cond.notify_all()\n        self.dump()\n        with self.cond:\n            pass"),
]


def _apply_and_run(m, tier):
    if len(m) == 3:
        name, cid, edits = m  # two cooperating sites
    else:
        name, cid, rel, old, new = m
        edits = [(rel, old, new)]
    repo = os.environ.get("VERIF_REPO_BASE", "/repo")
    d = tempfile.mkdtemp(prefix="xmut-")
    t0 = time.time()
    try:
        for sub in ("xonsh", "xontrib", "xompletions"):
            shutil.copytree(os.path.join(repo, sub), os.path.join(d, sub), ignore=shutil.ignore_patterns("__pycache__"))
        for rel, old, new in edits:
            p = os.path.join(d, rel)
            s = open(p, encoding="utf-8").read()
            n = s.count(old)
            if n != 1:
                return dict(name=name, check=cid, tier=tier, verdict="NOT-APPLIED", line=f"{n} occurrences in {rel}")
            open(p, "w", encoding="utf-8").write(s.replace(old, new, 1))
        r = subprocess.run([os.path.join(V, "check"), cid, "--tier", tier, "--no-evidence"], env=dict(os.environ, VERIF_REPO=d), capture_output=True, text=True)
        lines = [l for l in r.stdout.splitlines() if l.startswith(("VIOLATION", "INCONCLUSIVE"))]
        verdict = {1: "CAUGHT", 0: "MISSED", 2: "INCONCLUSIVE"}.get(r.returncode, f"rc={r.returncode}")
        return dict(name=name, check=cid, tier=tier, verdict=verdict, wall=round(time.time() - t0, 1), line=(lines[0][:300] if lines else r.stdout[-200:]))
    finally:
        shutil.rmtree(d, ignore_errors=True)


def main():
    a = sys.argv[1:]
    if not a or a[0] == "list":
        for m in M:
            print(m[0], m[1], m[2] if len(m) > 3 else "+".join(sorted({e[0] for e in m[2]})))
        return 0
    tier = a[a.index("--tier") + 1] if "--tier" in a else "quick"
    j = int(a[a.index("-j") + 1]) if "-j" in a else 2
    sel = [x for x in a[1:] if not x.startswith("-") and x not in (tier, str(j))]
    ms = [m for m in M if not sel or any(m[0].startswith(s) or m[1] == s for s in sel)]
    out = os.path.join(V, "tools", "mutants_results.jsonl")
    bad = 0
    with concurrent.futures.ThreadPoolExecutor(j) as ex:
        for res in ex.map(lambda m: _apply_and_run(m, tier), ms):
            print(f"{res['verdict']:13s} {res['name']:28s} {res['check']} {res.get('wall', '')}s | {res['line'][:200]}", flush=True)
            with open(out, "a") as f:
                f.write(json.dumps(res) + "\n")
            bad += res["verdict"] != "CAUGHT"
    return 1 if bad else 0


if __name__ == "__main__":
    sys.exit(main())
