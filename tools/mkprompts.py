"""Write the task files for a round of independent bug-seeding sub-agents.

usage: mkprompts.py <round out dir> <worktree root> <label1> <label2>
One directory per property with PROMPT.md; the agent sees only the property's text, its own scratch worktree and
one-line summaries of the changes earlier rounds already produced (so that it picks different mechanisms) -
nothing about the checks.
"""
import json
import os
import sys

V = os.path.dirname(os.path.dirname(os.path.abspath(__file__)))
sys.path.insert(0, os.path.join(V, "tools"))
from mkseeded import INFO  # noqa: E402

T = r"""You are helping to evaluate a verification effort for the xonsh shell (a Python-superset shell). Your job is to act as a *bug seeder*: produce realistic source changes to xonsh that BREAK one stated semantic property while still importing/compiling and still passing the project's existing tests.

## Your workspace
* A private scratch git worktree of the xonsh repository: `@WT@` (detached HEAD). Work ONLY there. Never touch or read `/repo` or `/verif` (they are off limits; do not look inside them).
* Interpreter: `/venv/bin/python` (3.12). xonsh is NOT pip-installed: run things with `cd @WT@ && PYTHONPATH=@WT@ /venv/bin/python ...`. No network.
* `xonsh/parser_table.py` and `xonsh/completion_parser_table.py` are git-ignored GENERATED files (LALR tables) that xonsh loads WITHOUT validating them against the grammar; current ones are in your worktree. If (and only if) you change grammar rules (docstrings of `p_*` functions, token lists) you must delete both files so that they are regenerated on the next `Parser()` construction (takes ~5 s), and your change must pass the tests with regenerated tables.
* Existing tests: `cd @WT@ && /venv/bin/python -m pytest -q -p no:cacheprovider --timeout=900 tests/<subset>`. The machine is shared with long-running jobs, so do NOT run the full suite (I run it myself afterwards on your patch); run every test file related to the code you touch (typically 1-6 files, e.g. tests/parsers/, tests/procs/, tests/history/, tests/test_environ.py ...). On the unmodified tree a few tests in tests/xintegration and tests/test_main.py fail for environment reasons; a change "passes the existing tests" when it makes no previously-passing test fail.
* Output directory for your deliverables: `@OUT@`.

## The property to break
**@ID@: @TITLE@**

Statement: @STATEMENT@

Quantifier (what it must hold for): @QUANT@

Why the existing tests cannot settle it: @WHY@

Where it lives (anchors):
@ANCHORS@

## Changes that already exist (do NOT repeat these or close variants of them; pick different code sites and different triggering conditions)
@TAKEN@

## What to produce
TWO independent changes, `@L1@` and `@L2@`, that break the property through DIFFERENT mechanisms / code sites (each applied alone to the pristine tree), and different from the existing ones above. Prefer parts of the behaviour behind the property that the existing changes leave untouched (another anchor, another operation, another clause of the statement). For each change X in {@L1@, @L2@} write:
* `@OUT@/X/patch.diff` - output of `git diff` in the worktree with only that change applied (it must apply cleanly with `git apply` to the pristine tree). Source changes only under `xonsh/` (never edit tests, never edit generated table files).
* `@OUT@/X/demo.py` - a small self-contained demonstration program, run as `cd <tree> && PYTHONPATH=<tree> /venv/bin/python demo.py <tree>` (it may take the tree path from `sys.argv[1]` or the current directory; it must not hard-code your worktree path, must use temporary directories for any files, must not depend on the network, and must finish in under 2 minutes). It must exit 0 on the pristine tree and exit non-zero (printing what went wrong) on the changed tree - deterministically or at least in the great majority of runs (say so in notes if it is probabilistic, and loop enough times to make it reliable).
* `@OUT@/X/notes.md` - which property clause the change breaks, what exactly it needs in order to manifest, why ordinary use and the existing tests do not expose it, and which tests you ran with what result.

## Requirements on the changes
* They must be *realistic*: the kind of mistake a maintainer could make in a refactoring, optimisation or "harmless" cleanup (an off-by-one, a dropped lock or flush, a reordered pair of operations, a condition slightly too narrow or too wide, a cache not invalidated on one path, a forgotten case in one of several parallel code paths ...). No sabotage that looks deliberate (no `if arg == "magic"`), no randomness, no environment-variable triggers, no dead code.
* They must need something SPECIFIC to manifest - a particular interleaving of threads, a crash or I/O fault at a particular point, a multi-step sequence of operations, an unusual input/boundary value, or two cooperating sites that each look fine alone - NOT something that ordinary use (or the first run of anything) would expose at once.
* The change must really violate the property AS STATED (user-visible wrong behaviour covered by the statement), not merely change an internal detail.
* The changed tree must import, start (`python -m xonsh --no-rc -c "echo hi"` works) and pass the existing tests as defined above.
* Keep each patch small (typically 1-15 changed lines).

When both are done, reset the worktree to pristine (`git checkout -- .`; keep the table files) and reply with a short summary: for @L1@ and @L2@ one paragraph each (what was changed, what it needs to manifest, test results). If you could only produce one valid change, say so.
"""


def anchors(p):
    a = p.get("anchors", {})
    out = []
    for m in a.get("mechanism", []):
        out.append(f"* {m['name']} - `{m['where']}`")
    for s in a.get("state", []):
        out.append(f"* state: {s['name']} ({s['meaning']}) - `{s['where']}`")
    return "\n".join(out)


def main():
    out, wts, l1, l2 = sys.argv[1:5]
    for line in open(os.path.join(V, "properties.jsonl")):
        p = json.loads(line)
        cid = p["id"]
        d = os.path.join(out, cid)
        os.makedirs(d, exist_ok=True)
        taken = "\n".join(f"* {v[0]} (manifests with: {v[1]})" for k, v in sorted(INFO.items()) if k.startswith(cid))
        t = T
        for k, v in {"@WT@": os.path.join(wts, cid), "@OUT@": d, "@ID@": cid, "@TITLE@": p["title"], "@STATEMENT@": p["statement"], "@QUANT@": p["quantifier"]["text"], "@WHY@": p["why_tests_cant"], "@ANCHORS@": anchors(p), "@TAKEN@": taken, "@L1@": l1, "@L2@": l2}.items():
            t = t.replace(k, v)
        with open(os.path.join(d, "PROMPT.md"), "w") as f:
            f.write(t)
    print("written", out)


if __name__ == "__main__":
    main()
