"""Dev helper: run a python snippet/file against a fresh scratch build of $VERIF_REPO.
usage: tools/xrun.py script.py [args...]   (script runs with PYTHONPATH=<scratch>:/verif, hermetic HOME)"""
import os, subprocess, sys
sys.path.insert(0, os.path.dirname(os.path.dirname(os.path.abspath(__file__))))
from vlib import build
tr = build.make_tree()
try:
    if tr.table_error:
        print("TABLE ERROR", tr.table_error)
    r = subprocess.run([build.PY] + sys.argv[1:], env=tr.env(), cwd=tr.root)
    sys.exit(r.returncode)
finally:
    tr.cleanup()
