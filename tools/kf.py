"""Maintain /verif/known_findings.json (hand-curated; never written by a check at run time).
usage: kf.py add <property> <mechanism> <status known|fixed> <description> [witness-json] [commit]"""
import json, os, sys
P = os.path.join(os.path.dirname(os.path.dirname(os.path.abspath(__file__))), "known_findings.json")
def load():
    try: return json.load(open(P))
    except FileNotFoundError: return {"findings": []}
def save(d):
    d["findings"].sort(key=lambda e: (e["property"], e["mechanism"]))
    json.dump(d, open(P, "w"), indent=1, ensure_ascii=True); open(P, "a").write("\n")
def add(prop, mech, status, desc, witness=None, commit=None):
    d = load()
    d["findings"] = [e for e in d["findings"] if not (e["property"] == prop and e["mechanism"] == mech)]
    e = {"property": prop, "mechanism": mech, "status": status, "description": desc}
    if witness is not None: e["witness"] = witness
    if commit: e["commit"] = commit
    d["findings"].append(e); save(d)
if __name__ == "__main__":
    a = sys.argv[1:]
    if a[0] == "add":
        add(a[1], a[2], a[3], a[4], json.loads(a[5]) if len(a) > 5 and a[5] else None, a[6] if len(a) > 6 else None)
