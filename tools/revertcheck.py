"""Regression self-test for a `fix:` commit: revert it in a scratch worktree and run checks there.
usage: revertcheck.py <commit> <CHECK-ID>[,<ID>...] [--tier quick]    (exit 0 when every check reports a violation)"""
import os, shutil, subprocess, sys, tempfile
V = os.path.dirname(os.path.dirname(os.path.abspath(__file__)))
def sh(cmd, **kw):
    return subprocess.run(cmd, capture_output=True, text=True, **kw)
def main():
    a = sys.argv[1:]
    commit, ids = a[0], a[1].split(",")
    tier = a[a.index("--tier") + 1] if "--tier" in a else "quick"
    base = tempfile.mkdtemp(prefix="xrev-")
    wt = os.path.join(base, "wt")
    try:
        sh(["git", "-C", "/repo", "worktree", "add", "--detach", wt, "HEAD"])
        d = sh(["git", "-C", "/repo", "show", "--format=", commit]).stdout
        r = subprocess.run(["git", "-C", wt, "apply", "-R"], input=d, capture_output=True, text=True)
        if r.returncode:
            print("REVERT FAILED", r.stderr[-300:]); return 2
        allc = True
        for cid in ids:
            r = sh([os.path.join(V, "check"), cid, "--tier", tier, "--no-evidence"], env=dict(os.environ, VERIF_REPO=wt))
            lines = [l for l in r.stdout.splitlines() if l.startswith(("VIOLATION", "INCONCLUSIVE"))]
            print(f"revert {commit} check {cid}: exit={r.returncode}", "CAUGHT" if r.returncode == 1 else "MISSED")
            for l in lines[:8]:
                print("   ", l[:260])
            allc &= r.returncode == 1
        return 0 if allc else 1
    finally:
        sh(["git", "-C", "/repo", "worktree", "remove", "--force", wt])
        shutil.rmtree(base, ignore_errors=True)
sys.exit(main())
