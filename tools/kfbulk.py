"""Bulk-add known findings from `_all-*.json` replay indexes: kfbulk.py <PROP> <rules.json> <index.json>...
rules.json = [[regex, description], ...] (first match wins); unmatched mechanisms are printed, nothing is added for them."""
import json, re, sys, os
sys.path.insert(0, os.path.dirname(os.path.abspath(__file__)))
import kf
prop, rules = sys.argv[1], json.load(open(sys.argv[2]))
seen = {}
for f in sys.argv[3:]:
    for m, v in json.load(open(f)).items():
        seen.setdefault(m, v)
known = {e["mechanism"] for e in kf.load()["findings"] if e["property"] == prop}
for m, v in sorted(seen.items()):
    if m in known:
        continue
    for rx, desc in rules:
        if re.search(rx, m):
            ex = v["example"]
            wit = ex.split(" :: ")[0]
            try:
                wit = json.loads(wit)
            except ValueError:
                wit = wit[:400]
            kf.add(prop, m, "known", desc, wit)
            print("added", m)
            break
    else:
        print("UNMATCHED", v["count"], m)
