"""Compare a junit xml of the pinned suite with /root/.vp/BASELINE.json: every stable_pass test must pass.
usage: suitecmp.py <junit.xml>   exit 0 when no stable-pass test failed/errored/vanished."""
import json, sys
import xml.etree.ElementTree as ET

base = json.load(open("/root/.vp/BASELINE.json"))
stable = set(base["stable_pass"])
passed, bad = set(), {}
for tc in ET.parse(sys.argv[1]).getroot().iter("testcase"):
    tid = f"{tc.get('classname')}::{tc.get('name')}"
    kinds = [c.tag for c in tc if c.tag in ("failure", "error", "skipped")]
    if not kinds:
        passed.add(tid)
    else:
        bad[tid] = kinds[0]
missing = sorted(stable - passed)
print(f"stable_pass={len(stable)} passed_now={len(passed)} stable_not_passing={len(missing)}")
for t in missing[:40]:
    print("  NOT PASSING:", t, bad.get(t, "absent"))
sys.exit(1 if missing else 0)
