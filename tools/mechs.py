import json,sys
d=json.load(open(sys.argv[1]))
for m,v in sorted(d.items(), key=lambda kv:-kv[1]['count']):
    ex=v['example']
    i=ex.find('minimal=')
    print(v['count'], m, '::', ex[i:i+200] if i>=0 else ex[:200])
