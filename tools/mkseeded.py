"""Materialise /verif/seeded/<id>/ from the sub-agents' deliverables and my own verification logs.

usage: mkseeded.py <seedout dir> <seedlog dir>
For every <seedout>/<Cxx>/<A|B>/ with patch.diff + demo.py: copies patch.diff, demo.py, notes.md (the author's own
description) and writes meta.json: property, summary, what it needs to manifest, and what I ran myself
(demo on pristine / patched scratch worktree, pinned suite on the patched worktree vs BASELINE.json, checks).
"""
import json
import os
import re
import shutil
import sys

V = os.path.dirname(os.path.dirname(os.path.abspath(__file__)))

# (summary, needs) - written from the patches themselves
INFO = {
    "C01A": ("tokenizer computes the indentation column with expandtabs(): a form feed no longer resets it", "a form feed in the leading white space of a code line (page break before a def / in front of an indented line)"),
    "C01B": ("self-documenting f-string field with a format spec gets conversion !r", "`f'{x=:>8}'` - `=` together with a `:` spec and no explicit conversion"),
    "C02A": ("CtxAwareTransformer.ctxremove only discards from the innermost context", "`del NAME` where NAME was bound in an outer context (earlier input, or module global deleted via `global` in a function), then a command-shaped use"),
    "C02B": ("_SubprocChainRaiseWrapper keeps a per-tree 'saw a subprocess' flag instead of looking at each BoolOp", "a command textually before a pure-Python and/or in one input, and a failed-but-handled last command (XSH.lastcmd)"),
    "C03A": ("subproc_toks: guard around the saved_toks snapshot removed", "one bare segment followed by two or more already wrapped segments and an unbounded window: three `;`-joined commands with a multi-line triple-quoted argument, or a 3-segment chain with an unfinished-expression head"),
    "C03B": ("Execer._try_parse: max_retries only decremented after a real re-wrap", "a malformed program whose statement-level error is reported on a command line carrying a multi-line triple-quoted argument: the loop never terminates"),
    "C04A": ("Aliases.eval_alias maps expand_path over the alias words AND the caller's arguments", "command resolved through a list / string alias and a verbatim argument (raw string, @(), macro) containing $NAME or a leading ~"),
    "C04B": ("FStringRules decodes literal segments with the quote character instead of the full delimiter", "a triple-quoted non-raw f-string segment holding a newline or quote character AND a backslash escape"),
    "C05A": ("p_or_test no longer marks the operands of a 3+-operand `||` run with in_boolop", "three or more `||` operands, a failing non-final `$[]`/`$()` operand and a later operand that would rescue the chain"),
    "C05B": ("subproc_check_boolop returns early for a truthy non-pipeline value", "a chain whose last evaluated operand is a `$()` that printed something and exited non-zero"),
    "C06A": ("QueueReader.is_fully_read evaluates queue.empty() before closed / thread liveness", "the reader thread queues the last chunk and closes between the two loads (needs a late reader thread and a preemption inside is_fully_read)"),
    "C06B": ("_prev_procs_done returns at the first still-running earlier stage (skips closing later finished stages' writers)", "a pipeline of three or more stages whose middle stage exits while the first keeps writing: the last stage never sees EOF"),
    "C07A": ("skip_stdout in cmds_to_specs becomes sticky across stages", "three or more stages with an earlier stage combining `e>p` and `o> file`"),
    "C07B": ("ProcProxyThread.run checks `errwrite == -1` before `errwrite == c2pwrite`", "`$[threaded_alias e>o]` (stderr merged into an unredirected stdout) in last position"),
    "C08A": ("clear_paths normalises $PATH entries with abspath instead of realpath", "a $PATH entry with `..` behind a symlinked component"),
    "C08B": ("CommandsCache.__contains__ answers True from the cache without refreshing", "a name cached while it exists, then every file of that name deleted, then `name in commands_cache` asked before any other view"),
    "C09A": ("PopenThread.__init__ restores the signal handlers only on OSError / SubprocessError", "a captured command whose Popen raises ValueError (NUL byte in an environment value)"),
    "C09B": ("failed-start branch skips spec.close() for callable-alias stages", "`alias | command-that-cannot-start` (one pipe fd per occurrence; a chatty alias also leaves a thread)"),
    "C10A": ("Env.detype builds the overlay view with ChainMap(*overlays): the outermost frame wins", "two overlay frames on one thread with the same key (or an inner DELETE_VAR mask) and a launch inside the inner one"),
    "C10B": ("LsColors.__setitem__ drops its string cache only when the colour value changed", "a launch / detype, then an in-place RESET <-> target toggle of the same key, then another launch"),
    "C11A": ("InternalEnvironDict.get_local_overrides returns the live dict instead of a copy", "a worker thread that applies the captured view after the spawner has left (or changed) its swap scope"),
    "C11B": ("Env.swap pops its overlay on exit only if the overlay is non-empty", "nested alias overlays on one thread where the inner alias never touches its env"),
    "C12A": ("lazyjson serialises strings with ensure_ascii=False while the index still counts characters", "a flushed non-ASCII command and an indexed read of anything stored after it"),
    "C12B": ("JsonCommandField.__getitem__ computes the buffer/file boundary without _skipped", "$HISTCONTROL ignoredups/ignoreerr, a flush that really dropped an entry, then a read by index / iteration"),
    "C13A": ("JsonHistoryFlusher.dump renames the temp file before it is flushed and closed", "a kill or failing/short write between the rename and the close (new file below 8 KiB)"),
    "C13B": ("JsonHistory.delete writes the temp file with one unchecked os.write", "a short write (full disk / quota / RLIMIT_FSIZE) while `history delete` rewrites a file"),
    "C14A": ("JsonHistoryGC.files() orders candidates by file mtime instead of the recorded closing time", "on-disk mtime order differing from closing-time order (erasedups / unlock rewrite / touch)"),
    "C14B": ("SQLite GC picks its cut-off with OFFSET N and deletes `tsb <=` it", "rows with identical tsb across the keep boundary"),
    "C15A": ("a return_command alias met in mid-chain re-enters eval_alias without seen_tokens", "a cycle that passes through a return_command alias reached via another alias"),
    "C15B": ("list-alias branch of eval_alias expands the user's arguments at every level", "resolution through a list / string alias with an argument that still looks expandable (~, $VAR)"),
    "C16A": ("pushd / popd from-the-right index `pop(-num)` instead of `len-1-num`", "the -N form with at least two remembered directories"),
    "C16B": ("_change_working_directory chdir()s the raw path but records the lexically normalised one", "`..` applied across a symlinked directory"),
    "C17A": ("formatter's source-line cache uses str.splitlines()", "a FF/VT/FS-RS/NEL/LS character earlier in the file, then an f-string, a macro or a bracket continuation line"),
    "C17B": ("function-macro raw mode ends at any closer at depth <= the macro's", "`name!(...)` whose raw body has a balanced bracket group followed by whitespace-sensitive text"),
    "C18A": ("_quote_paths escapes the quote character before doubling backslashes", "a name containing the quote character that ends up being used, in a non-raw string"),
    "C18B": ("completion lexer: `assert` turned into RuntimeError (parse() only catches AssertionError)", "a bare f-string opener / text ending right after a closed {…} field in command position or after ( [ &&"),
    "C19A": ("script_cache_check compares the mtimes as whole seconds", "an edit whose mtime is newer than the cache entry but within the same second"),
    "C19B": ("_cache_renamer keys script entries by normpath instead of realpath", "the same relative script name run from two working directories"),
    "C20A": ("get_next_job_number returns len(jobs) + 1", "at least two live jobs, the lower-numbered one leaves, then any new pipeline starts"),
    "C20B": ("_run_command_pipeline registers only pipelines without any proxy stage", "a backgrounded / suspended pipeline mixing a callable alias with a real command"),
}

INITIALLY_MISSED = {"C01A", "C02A", "C02B", "C04A", "C04B", "C05B", "C06A", "C06B", "C08A", "C08B", "C09A", "C10A", "C10B", "C11A", "C17A", "C17B", "C19A", "C19B", "C20B"}


def grab(path, rx):
    try:
        t = open(path, errors="replace").read()
    except OSError:
        return None
    m = re.findall(rx, t, re.M)
    return m[-1] if m else None


def main():
    src, logs = sys.argv[1], sys.argv[2]
    out = os.path.join(V, "seeded")
    os.makedirs(out, exist_ok=True)
    rows = []
    for key in sorted(INFO):
        cid, x = key[:3], key[3:]
        d = os.path.join(src, cid, x)
        if not os.path.isfile(os.path.join(d, "patch.diff")):
            continue
        dst = os.path.join(out, key)
        os.makedirs(dst, exist_ok=True)
        for f in ("patch.diff", "demo.py", "notes.md"):
            if os.path.isfile(os.path.join(d, f)):
                shutil.copy(os.path.join(d, f), os.path.join(dst, f))
        final = None
        fl = os.path.join(logs, key + ".final.log")
        line = grab(fl, r"^SEEDCHECK (.*)$")
        if line:
            final = json.loads(line)
        sl = os.path.join(logs, key + ".suite.log")
        sline = grab(sl, r"^SEEDCHECK (.*)$")
        suite = json.loads(sline) if sline else {}
        ql = grab(os.path.join(logs, key + ".quick.log"), r"^SEEDCHECK (.*)$")
        first = json.loads(ql) if ql else {}
        summary, needs = INFO[key]
        retest = {}
        try:
            retest = json.load(open(os.path.join(logs, "retest.json")))
        except (OSError, ValueError):
            pass
        checks = (final or {}).get("checks", {})
        meta = {
            "id": key,
            "property": cid,
            "summary": summary,
            "needs_to_manifest": needs,
            "author": "independent sub-agent given only the property text and a scratch worktree",
            "what_i_ran": {
                "scratch_worktree": "git worktree of /repo HEAD under /tmp, parser tables regenerated before and after `git apply patch.diff`; removed afterwards (tools/seedcheck.py)",
                "demo_on_pristine_exit": (first or suite or final or {}).get("demo_pristine"),
                "demo_on_patched_exit": (first or suite or final or {}).get("demo_patched"),
                "pinned_suite_on_patched_tree": suite.get("suite"),
                "pinned_suite_all_stable_pass_tests_pass": suite.get("suite_ok"),
                "tests_not_passing_rerun_alone_on_the_patched_tree": ({"result": retest[key], "note": "timing-sensitive tests/xintegration subprocess tests that also flip on the pristine tree while other jobs load the machine; unrelated to the patched code"} if key in retest else None),
                "check_verdict_first_run": {k: v.get("verdict") for k, v in first.get("checks", {}).items()} or None,
                "check_verdict_final": {k: {"verdict": v.get("verdict"), "tier": v.get("tier"), "first_violation": (v.get("lines") or [None])[0]} for k, v in checks.items()} or None,
            },
            "initially_missed_then_check_strengthened": key in INITIALLY_MISSED,
        }
        with open(os.path.join(dst, "meta.json"), "w") as f:
            json.dump(meta, f, indent=1)
            f.write("\n")
        v = next(iter(checks.values()), {}) if checks else {}
        mech = ""
        if v.get("lines"):
            m = re.search(r"mechanism=(\S+)", v["lines"][0])
            mech = m.group(1) if m else ""
        rows.append((key, summary, needs, v.get("verdict", "?"), mech, key in INITIALLY_MISSED, suite.get("suite_ok")))
    with open(os.path.join(out, "MATRIX.md"), "w") as f:
        f.write("| seed | change | caught by (quick tier) | first run | suite on patched tree |\n|---|---|---|---|---|\n")
        for key, summary, needs, verdict, mech, missed, sok in rows:
            f.write(f"| {key} | {summary}; needs: {needs} | {verdict}: `{mech[:90]}` | {'missed, check strengthened' if missed else 'caught'} | {'all stable-pass tests pass' if sok else ('1-2 load-sensitive xintegration tests flipped in the full run, pass when re-run alone (meta.json)' if sok is False else 'n/a')} |\n")
    print(len(rows), "seeds written")


if __name__ == "__main__":
    main()
