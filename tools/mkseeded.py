"""Materialise /verif/seeded/<id>/ from the sub-agents' deliverables and my own verification logs.

usage: mkseeded.py <seedout dir> <seedlog dir>
For every <seedout>/<Cxx>/<A|B>/ with patch.diff + demo.py: copies patch.diff, demo.py, notes.md (the author's own
description) and writes meta.json: property, summary, what it needs to manifest, and what I ran myself
(demo on pristine / patched scratch worktree, pinned suite on the patched worktree vs BASELINE.json, checks).
"""
import json
import os
import re
import shutil
import sys

V = os.path.dirname(os.path.dirname(os.path.abspath(__file__)))

# (summary, needs) - written from the patches themselves
INFO = {
    "C01A": ("tokenizer computes the indentation column with expandtabs(): a form feed no longer resets it", "a form feed in the leading white space of a code line (page break before a def / in front of an indented line)"),
    "C01B": ("self-documenting f-string field with a format spec gets conversion !r", "`f'{x=:>8}'` - `=` together with a `:` spec and no explicit conversion"),
    "C02A": ("CtxAwareTransformer.ctxremove only discards from the innermost context", "`del NAME` where NAME was bound in an outer context (earlier input, or module global deleted via `global` in a function), then a command-shaped use"),
    "C02B": ("_SubprocChainRaiseWrapper keeps a per-tree 'saw a subprocess' flag instead of looking at each BoolOp", "a command textually before a pure-Python and/or in one input, and a failed-but-handled last command (XSH.lastcmd)"),
    "C03A": ("subproc_toks: guard around the saved_toks snapshot removed", "one bare segment followed by two or more already wrapped segments and an unbounded window: three `;`-joined commands with a multi-line triple-quoted argument, or a 3-segment chain with an unfinished-expression head"),
    "C03B": ("Execer._try_parse: max_retries only decremented after a real re-wrap", "a malformed program whose statement-level error is reported on a command line carrying a multi-line triple-quoted argument: the loop never terminates"),
    "C04A": ("Aliases.eval_alias maps expand_path over the alias words AND the caller's arguments", "command resolved through a list / string alias and a verbatim argument (raw string, @(), macro) containing $NAME or a leading ~"),
    "C04B": ("FStringRules decodes literal segments with the quote character instead of the full delimiter", "a triple-quoted non-raw f-string segment holding a newline or quote character AND a backslash escape"),
    "C05A": ("p_or_test no longer marks the operands of a 3+-operand `||` run with in_boolop", "three or more `||` operands, a failing non-final `$[]`/`$()` operand and a later operand that would rescue the chain"),
    "C05B": ("subproc_check_boolop returns early for a truthy non-pipeline value", "a chain whose last evaluated operand is a `$()` that printed something and exited non-zero"),
    "C06A": ("QueueReader.is_fully_read evaluates queue.empty() before closed / thread liveness", "the reader thread queues the last chunk and closes between the two loads (needs a late reader thread and a preemption inside is_fully_read)"),
    "C06B": ("_prev_procs_done returns at the first still-running earlier stage (skips closing later finished stages' writers)", "a pipeline of three or more stages whose middle stage exits while the first keeps writing: the last stage never sees EOF"),
    "C07A": ("skip_stdout in cmds_to_specs becomes sticky across stages", "three or more stages with an earlier stage combining `e>p` and `o> file`"),
    "C07B": ("ProcProxyThread.run checks `errwrite == -1` before `errwrite == c2pwrite`", "`$[threaded_alias e>o]` (stderr merged into an unredirected stdout) in last position"),
    "C08A": ("clear_paths normalises $PATH entries with abspath instead of realpath", "a $PATH entry with `..` behind a symlinked component"),
    "C08B": ("CommandsCache.__contains__ answers True from the cache without refreshing", "a name cached while it exists, then every file of that name deleted, then `name in commands_cache` asked before any other view"),
    "C09A": ("PopenThread.__init__ restores the signal handlers only on OSError / SubprocessError", "a captured command whose Popen raises ValueError (NUL byte in an environment value)"),
    "C09B": ("failed-start branch skips spec.close() for callable-alias stages", "`alias | command-that-cannot-start` (one pipe fd per occurrence; a chatty alias also leaves a thread)"),
    "C10A": ("Env.detype builds the overlay view with ChainMap(*overlays): the outermost frame wins", "two overlay frames on one thread with the same key (or an inner DELETE_VAR mask) and a launch inside the inner one"),
    "C10B": ("LsColors.__setitem__ drops its string cache only when the colour value changed", "a launch / detype, then an in-place RESET <-> target toggle of the same key, then another launch"),
    "C11A": ("InternalEnvironDict.get_local_overrides returns the live dict instead of a copy", "a worker thread that applies the captured view after the spawner has left (or changed) its swap scope"),
    "C11B": ("Env.swap pops its overlay on exit only if the overlay is non-empty", "nested alias overlays on one thread where the inner alias never touches its env"),
    "C12A": ("lazyjson serialises strings with ensure_ascii=False while the index still counts characters", "a flushed non-ASCII command and an indexed read of anything stored after it"),
    "C12B": ("JsonCommandField.__getitem__ computes the buffer/file boundary without _skipped", "$HISTCONTROL ignoredups/ignoreerr, a flush that really dropped an entry, then a read by index / iteration"),
    "C13A": ("JsonHistoryFlusher.dump renames the temp file before it is flushed and closed", "a kill or failing/short write between the rename and the close (new file below 8 KiB)"),
    "C13B": ("JsonHistory.delete writes the temp file with one unchecked os.write", "a short write (full disk / quota / RLIMIT_FSIZE) while `history delete` rewrites a file"),
    "C14A": ("JsonHistoryGC.files() orders candidates by file mtime instead of the recorded closing time", "on-disk mtime order differing from closing-time order (erasedups / unlock rewrite / touch)"),
    "C14B": ("SQLite GC picks its cut-off with OFFSET N and deletes `tsb <=` it", "rows with identical tsb across the keep boundary"),
    "C15A": ("a return_command alias met in mid-chain re-enters eval_alias without seen_tokens", "a cycle that passes through a return_command alias reached via another alias"),
    "C15B": ("list-alias branch of eval_alias expands the user's arguments at every level", "resolution through a list / string alias with an argument that still looks expandable (~, $VAR)"),
    "C16A": ("pushd / popd from-the-right index `pop(-num)` instead of `len-1-num`", "the -N form with at least two remembered directories"),
    "C16B": ("_change_working_directory chdir()s the raw path but records the lexically normalised one", "`..` applied across a symlinked directory"),
    "C17A": ("formatter's source-line cache uses str.splitlines()", "a FF/VT/FS-RS/NEL/LS character earlier in the file, then an f-string, a macro or a bracket continuation line"),
    "C17B": ("function-macro raw mode ends at any closer at depth <= the macro's", "`name!(...)` whose raw body has a balanced bracket group followed by whitespace-sensitive text"),
    "C18A": ("_quote_paths escapes the quote character before doubling backslashes", "a name containing the quote character that ends up being used, in a non-raw string"),
    "C18B": ("completion lexer: `assert` turned into RuntimeError (parse() only catches AssertionError)", "a bare f-string opener / text ending right after a closed {…} field in command position or after ( [ &&"),
    "C19A": ("script_cache_check compares the mtimes as whole seconds", "an edit whose mtime is newer than the cache entry but within the same second"),
    "C19B": ("_cache_renamer keys script entries by normpath instead of realpath", "the same relative script name run from two working directories"),
    "C20A": ("get_next_job_number returns len(jobs) + 1", "at least two live jobs, the lower-numbered one leaves, then any new pipeline starts"),
    "C20B": ("_run_command_pipeline registers only pipelines without any proxy stage", "a backgrounded / suspended pipeline mixing a callable alias with a real command"),
    # ---- second round (labels C, D): authors were shown one-line summaries of the first round and asked for other mechanisms
    "C01C": ("lexer handle_name: slice start `token.start[1] - 1` without max(0, ...)", "`and` / `or` as the first character of a continuation line (inside brackets or after a backslash)"),
    "C01D": ("p_try_star_stmt_else: finalbody taken from the else part", "`try` / `except*` with an `else` clause"),
    "C02C": ("visit_Global records the names in the innermost context", "a name bound only through `global NAME` + assignment inside a function, then a command-shaped use at module level in the same input"),
    "C02D": ("gather_names looks at the top-level elements of a target only", "a for / with target holding a starred element or a nested tuple"),
    "C03C": ("get_logical_line walks back over one backslash line only", "a bare command continued over three or more physical lines whose first lines are valid Python"),
    "C03D": ("lexer handle_name looks at the text from the keyword on (no white space required before and/or)", "an argument word ending in and/or after a non-identifier character (`rock-and roll`, `either/or x`)"),
    "C04C": ("handle_error_token no longer records its token as the last one", "an unquoted word with a mid-word backslash or a symbol the tokenizer cannot classify (`a\\b`, `pre\u20acpost`, `a#b`)"),
    "C04D": ("p_string_literal: is_raw computed from the prefix as written", "an upper-case `R'...'` argument containing $NAME or ~"),
    "C05C": ("_visit_boolop returns early for a pure-Python and/or with the inside-boolop flag left set", "an ordinary Python and/or earlier in the same compilation unit, then a failing chain"),
    "C05D": ("_check_subproc_helper_raise reads the opt-out flags from the pipeline instead of the spec", "a failing `@error_ignore` command inside $() / $[] / @$() that is not a chain operand"),
    "C06C": ("proc_untraced_waitpid stores the reaped status only if Popen has none yet", "the main thread reaps a failing `!()` child, the PopenThread polls in between (ECHILD -> 0) - a reaping race"),
    "C06D": ("iterraw wraps the captured stdout in a non-blocking reader after the synchronous branch", "more than one pipe buffer of output on the synchronous capture path (alias final stage, unthreaded command)"),
    "C07C": ("`a>` opens a second, append-mode handle for stderr", "both streams into one file with a stdout write after the stderr write"),
    "C07D": ("resolve_args_list unwraps list-valued redirect targets by truthiness", "a redirect target that expands to two or more words"),
    "C08C": ("_update_paths_cache compares directory mtimes with math.isclose", "a directory modified again within about a second of its cached mtime"),
    "C08D": ("_iter_binaries walks the cache dict in insertion order", "a $PATH directory listed for the first time after the first lookup, holding a name that an earlier entry also has"),
    "C09C": ("@error_raise branch of _raise_subproc_error lost its finally: _return_terminal()", "job control on a tty, a failing last stage carrying @error_raise"),
    "C09D": ("_DispatcherRedirect.__exit__ restores the saved stream unconditionally", "a threaded alias started inside a redirect scope and finishing after the scope ended"),
    "C10C": ("Env.__getitem__ drops the detype cache only for keys already stored", "first read / in-place edit of a callable default ($XDG_DATA_DIRS ...) after a cached detype(), then another detype() consumer"),
    "C10D": ("Env.swap restore drops the override without writing the old value back", "$UPDATE_OS_ENVIRON on, or a scoped override of one of the two synced raise-error settings"),
    "C11C": ("Env.__contains__ falls through to the defaults for a masked key", "a DELETE_VAR mask from swap / prefix on a variable that has a registered default"),
    "C11D": ("Env.swap restore deletes without thread_local=True", "the body deletes the swapped variable of the outermost scope on a key that has a global value"),
    "C12C": ("JsonHistoryFlusher takes its queue ticket in run() instead of __init__", "a flusher thread whose start is delayed by the scheduler"),
    "C12D": ("JsonHistory.clear keeps the skipped-entry counter", "$HISTCONTROL rule that dropped an entry at a flush, then clear(), then a read"),
    "C13C": ("delete / erasedups skip files whose open fails", "one failing open in the first pass of erasedups that succeeds in the second"),
    "C13D": ("SQLite connections in autocommit mode", "a kill or failing write between two statements of a multi-statement rewrite"),
    "C14C": ("`history flush` uses flush(at_exit=True)", "a live session runs `history flush`, then a collection over the limit"),
    "C14D": ("SqliteHistoryGC.run lost the return after the unsupported-unit warning", "a limit in files / seconds / bytes with the SQLite backend"),
    "C15C": ("eval_alias pops decorator words off the stored alias value", "an alias with leading decorator aliases resolved twice"),
    "C15D": ("SubprocSpec.add_decorator ignores a decorator that is already present", "the same decorator twice with a conflicting one in between"),
    "C16C": ("cd() context manager samples the old directory in __init__", "a manager object made in one directory and entered from another"),
    "C16D": ("pushd trims the stack with one pop()", "$DIRSTACK_SIZE lowered in mid-session below the current depth, then any pushd"),
    "C17C": ("two-blanks-before-comment rule moved above the macro-body rule", "a `#` inside raw macro text"),
    "C17D": ("_is_subproc_statement lost FSTRING_START", "a bare command whose first argument is an f-string, with `=` later on the line"),
    "C18C": ("path completer compensates the prefix length for `p` but not `pr`", "an argument opened as pr' / rp\""),
    "C18D": ("try_expand_arg_span offsets the cursor by the unquoted value length", "cursor in the blanks after an unclosed quoted argument, not at the end of the line"),
    "C19C": ("except clauses around marshal.load narrowed to three exception types", "a damaged entry on which marshal raises SystemError"),
    "C19D": ("cache-name character map lost the `_` -> `__` escape", "two scripts whose paths differ only as `X` vs `_x`"),
    "C20C": ("_clear_dead_jobs rebuilds the MRU deque from a set", "two live jobs in non-ascending MRU order, another job finishing, then an order-dependent command"),
    "C20D": ("_select_job_to_resume no longer purges finished jobs first", "the designated job finishes and `bg` is the very next table-touching command"),
}

STILL_MISSED = {"C06C"}
INITIALLY_MISSED = {"C09D", "C10C", "C10D", "C14C", "C01C", "C01D", "C02D", "C03C", "C03D", "C04C", "C04D", "C05C", "C07C", "C07D", "C08C", "C08D", "C11D", "C15C", "C16C", "C16D", "C17C", "C17D", "C19C", "C19D", "C01A", "C02A", "C02B", "C04A", "C04B", "C05B", "C06A", "C06B", "C08A", "C08B", "C09A", "C10A", "C10B", "C11A", "C17A", "C17B", "C19A", "C19B", "C20B"}


def grab(path, rx):
    try:
        t = open(path, errors="replace").read()
    except OSError:
        return None
    m = re.findall(rx, t, re.M)
    return m[-1] if m else None


def main():
    src, logs = sys.argv[1], sys.argv[2]
    src2, logs2 = (sys.argv[3], sys.argv[4]) if len(sys.argv) > 4 else (None, None)
    out = os.path.join(V, "seeded")
    os.makedirs(out, exist_ok=True)
    rows = []
    for key in sorted(INFO):
        cid, x = key[:3], key[3:]
        d = os.path.join(src, cid, x)
        lg = logs
        if not os.path.isfile(os.path.join(d, "patch.diff")) and src2:
            d, lg = os.path.join(src2, cid, x), logs2
        if not os.path.isfile(os.path.join(d, "patch.diff")):
            continue
        dst = os.path.join(out, key)
        os.makedirs(dst, exist_ok=True)
        for f in ("patch.diff", "demo.py", "notes.md"):
            if os.path.isfile(os.path.join(d, f)):
                shutil.copy(os.path.join(d, f), os.path.join(dst, f))
        final = None
        fl = os.path.join(lg, key + ".final.log")
        line = grab(fl, r"^SEEDCHECK (.*)$")
        if line:
            final = json.loads(line)
        sl = os.path.join(lg, key + ".suite.log")
        sline = grab(sl, r"^SEEDCHECK (.*)$")
        suite = json.loads(sline) if sline else {}
        ql = grab(os.path.join(lg, key + ".quick.log"), r"^SEEDCHECK (.*)$")
        first = json.loads(ql) if ql else {}
        summary, needs = INFO[key]
        retest = {}
        try:
            retest = json.load(open(os.path.join(lg, "retest.json")))
        except (OSError, ValueError):
            pass
        checks = (final or {}).get("checks", {})
        meta = {
            "id": key,
            "property": cid,
            "summary": summary,
            "needs_to_manifest": needs,
            "author": "independent sub-agent given only the property text and a scratch worktree",
            "what_i_ran": {
                "scratch_worktree": "git worktree of /repo HEAD under /tmp, parser tables regenerated before and after `git apply patch.diff`; removed afterwards (tools/seedcheck.py)",
                "demo_on_pristine_exit": (first or suite or final or {}).get("demo_pristine"),
                "demo_on_patched_exit": (first or suite or final or {}).get("demo_patched"),
                "pinned_suite_on_patched_tree": suite.get("suite"),
                "pinned_suite_all_stable_pass_tests_pass": suite.get("suite_ok"),
                "tests_not_passing_rerun_alone_on_the_patched_tree": ({"result": retest[key], "note": "timing-sensitive tests/xintegration subprocess tests that also flip on the pristine tree while other jobs load the machine; unrelated to the patched code"} if key in retest else None),
                "check_verdict_first_run": ({cid: "MISSED"} if key in INITIALLY_MISSED | STILL_MISSED else {k: v.get("verdict") for k, v in first.get("checks", {}).items()} or None),
                "check_verdict_final": {k: {"verdict": v.get("verdict"), "tier": v.get("tier"), "first_violation": (v.get("lines") or [None])[0]} for k, v in checks.items()} or None,
            },
            "initially_missed_then_check_strengthened": key in INITIALLY_MISSED,
            "still_missed_at_the_end_of_the_session": key in STILL_MISSED,
        }
        with open(os.path.join(dst, "meta.json"), "w") as f:
            json.dump(meta, f, indent=1)
            f.write("\n")
        v = next(iter(checks.values()), {}) if checks else {}
        mech = ""
        if v.get("lines"):
            m = re.search(r"mechanism=(\S+)", v["lines"][0])
            mech = m.group(1) if m else ""
        rows.append((key, summary, needs, v.get("verdict", "?"), mech, key in INITIALLY_MISSED, suite.get("suite_ok")))
    with open(os.path.join(out, "MATRIX.md"), "w") as f:
        f.write("| seed | change | caught by (quick tier) | first run | suite on patched tree |\n|---|---|---|---|---|\n")
        for key, summary, needs, verdict, mech, missed, sok in rows:
            f.write(f"| {key} | {summary}; needs: {needs} | {verdict}: `{mech[:90]}` | {'MISSED - still open' if key in STILL_MISSED else 'missed, check strengthened' if missed else 'caught'} | {'all stable-pass tests pass' if sok else ('1-2 load-sensitive xintegration tests flipped in the full run, pass when re-run alone (meta.json)' if sok is False else 'n/a')} |\n")
    print(len(rows), "seeds written")


if __name__ == "__main__":
    main()
