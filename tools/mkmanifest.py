"""Regenerate /verif/MANIFEST.json from the table below (keeps it valid at all times)."""
import json, os, sys
V = os.path.dirname(os.path.dirname(os.path.abspath(__file__)))
ALL = [f"C{i:02d}" for i in range(1, 21)]
BASE = "cd /repo && /venv/bin/python -m pytest -ra -q -p no:cacheprovider --timeout=900 --continue-on-collection-errors"
CHECKS = {
 "C01": dict(level="exploration", technique="differential runtime monitor: CPython ast.parse as oracle over corpus, perturbed and generated programs",
   text="Every case is a real execution of the working tree's parser (tables regenerated from the current grammar) compared node-for-node with CPython's tree and compile() outcome; held means no unlisted difference on the ~30k (quick) / ~600k (thorough) CPython-valid programs actually parsed.",
   note="Trusts CPython's parser as reference and vlib/astnorm.py's normal form (positions, Constant.kind, type_comment ignored). Programs outside the corpus/perturbation/generator classes are not covered; constructs behind listed known findings are only exercised by their directed witnesses.", ref="§2 C01"),
 "C15": dict(level="exploration", technique="reference-model monitor + logical step counter on the real Aliases/SubprocSpec objects",
   text="Random alias graphs (cycles, self-loops, decorator / return_command / exec-string / callable aliases) are resolved through the real Aliases.get and SubprocSpec.build in three insertion orders; a frame counter on eval_alias decides termination, a 25-line reference expander decides the result, decorator order and the user-arguments-are-a-suffix invariant; callable aliases re-entering themselves through the execer exercise $__ALIAS_STACK.",
   note="Alias tokens in generated tables are free of $/~ so expand_path is the identity on them; the reference expander encodes the documented leftmost-expansion rule; graphs larger than 8 aliases are not generated.", ref="§2 C15"),
 "C14": dict(level="exploration", technique="invariant monitor over before/after directory listings and tables of the real GC threads",
   text="Thousands of generated collections of real history files (live/stale locks, corrupt, truncated, empty members, custom history file) and SQLite tables are collected by the real JsonHistoryGC / SqliteHistoryGC threads with limits at every boundary the collection defines; the surviving set is judged with set-level rules (locked never deleted, deleted set is an oldest-first prefix, kept set fits and is maximal, nothing deleted when within the limit, refusal rule).",
   note="Oracle = rules of DESIGN Appendix A.3; the refuse-unless-forced rule is judged only outside the ambiguous band; ages within 5 s of a seconds limit are not generated.", ref="§2 C14, A.3"),
 "C16": dict(level="exploration", technique="reference-model + invariant monitor over live cwd/$PWD/$OLDPWD/DIRSTACK after every step of generated histories",
   text="Histories of cd/pushd/popd/dirs (every argument form), path-literal cd() blocks and behind-the-back chdir + _fix_cwd run against the real builtins in a tree with symlinks, deleted and really inaccessible directories (DAC capabilities dropped); after each of ~250k steps the live state is checked against invariants (PWD names cwd, failure changes nothing, stack bound, OLDPWD) and the documented model.",
   note="Model = DESIGN Appendix A.4; steps whose logical and physical path readings differ are judged on invariants only; the current directory is never removed.", ref="§2 C16, A.4"),
 "C20": dict(level="exploration", technique="reference-model + structural-invariant monitor on the live job table; sys.monitoring schedule perturbation for the two-thread layer",
   text="Stub jobs with scripted poll() go through the real add_job; after each of ~200k steps of start/exit/jobs/fg/bg/disown histories (main thread and alias-like worker thread) the dict+deque pair is compared with the A.5 model and structural invariants; a two-thread layer with seeded delay injection on every jobs.py function records exceptions and divergence at quiescence.",
   note="Model = DESIGN Appendix A.5. Stub jobs signal nobody (pids=[None]). `disown` of a finished-but-unpurged job is accepted either way. The two-thread layer currently always ends in the listed unsynchronised-table finding, so it cannot separate further concurrency regressions from it.", ref="§2 C20, A.5"),
 "C11": dict(level="exploration", technique="conservation monitor on six read views of the live Env + reference stack model; multi-thread layer under sys.monitoring delay injection",
   text="Random nested swap / DELETE_VAR mask / overlay / `$K=v cmd` scope programs run on the real Env; a snapshot of every read path is conserved across each scope (normal and exception exit), masks must vanish from all views at once, assignments to other variables must persist, alias threads must see the spawner's view, and 2-4 concurrent threads each check only their own view while delays are injected into swap/_set_item/_del_item/detype.",
   note="Keys are warmed up before the first snapshot; swapped values are pre-typed; swaps nested inside an overlay shadowing the same key and the shared detype cache are listed known findings, so detype views are not separately judged in the multi-thread layer.", ref="§2 C11"),
 "C10": dict(level="exploration", technique="round-trip monitor per registered variable type + launch-image monitor (prep_env_subproc dict and real `env -0` children) against an independent rendering after random env histories",
   text="Every registered variable with a typed validator gets generated valid values and must survive detype -> Env(...) -> typed; histories of set/del/in-place mutation (fresh read and held reference)/swap/`$K=v cmd`/UPDATE_OS_ENVIRON toggles/detype reads are interleaved with launches and the mapping handed to the child (and printed by a real child) is compared with a 10-line independent rendering computed after the system's answer.",
   note="Untyped (always_true) variables are not judged for round trip; validators without a generator are counted in evidence; only the harness' tracked variables are compared in launch images.", ref="§2 C10"),
 "C04": dict(level="exploration", technique="argv recorder monitor (callable aliases + hex-dumping real child) with generator-side expected values",
   text="~54k deliveries per quick run: hostile strings through @() forms, every literal kind, f-strings, macro text, @$() re-splitting and the documented $VAR/~ expansion, in first/middle/last position, observed by a threaded alias, an unthreadable alias, a real child, a real child after a pipe and an alias inside $(); the recorded argv must equal the value CPython assigns to the literal / the injected object, and both delivery paths must agree.",
   note="Non-raw literals containing $ or ~ are judged only in the documented-expansion class; glued pre@(v)post uses metacharacter-free values; macro texts exclude comments and trailing backslashes (line structure, not text).", ref="§2 C04"),
 "C05": dict(level="exploration", technique="reference-evaluator monitor over executed-command log, escaping exception and sentinel statement; CLI runs for the exit status",
   text="Random and/or/&&/|| chains (tree = what Python precedence makes of the text, optional parenthesised groups) over pipelines of recording aliases and real `exitn N` children with scripted exit codes, every capture form, @error_raise/@error_ignore on the deciding stage, both operand spellings and all four flag settings are executed through Execer.exec followed by a sentinel statement; log order, CalledProcessError and its returncode, and the sentinel are compared with the A.1 evaluator; -c / script / stdin runs check the process exit status.",
   note="Chains with `$()`/`$[]` operands (Python value semantics) and @error_raise inside !() (conflicting documented rules) are run but not judged; parenthesised groups that the parser rejects are C03's subject; transient hangs are counted, only reproducible ones reported.", ref="§2 C05, A.1"),
 "C03": dict(level="exploration", technique="differential monitor (bare vs generator-built explicit twin: tree equality, then execution traces with recording aliases) + logical step counters on parser.parse and Lexer.token for termination",
   text="~4000 twins per quick run rendered from one chain tree (pipes, redirects, $VAR/@()/$(), strings) at top level, after `;`, after Python statements, in if/for/def/try/with/while bodies with space/tab indents, twice on a line, across backslash continuations and in one-line suites; ~20 000 fuzz strings (lexeme soup, mutated lines, 1-40 lines) are parsed under two logical clocks (parser.parse invocations, lexer tokens) so a hang is decided on steps, not wall clock.",
   note="Each generated command carries at most one construct class that a listed finding trips over, so a failing pair is attributable to that class (confirmed by neutralising it) and any failure of a risk-free pair is a new violation; the token bound (60x) is 25 times the maximum observed on well-formed commands.", ref="§2 C03"),
 "C02": dict(level="exploration", technique="spawn-counter monitor on run_subproc + differential execution against builtin exec() on an equal namespace",
   text="Command-shaped Python templates x 14 binding statement kinds, parameters of every kind, global, enclosing and class scopes, lambda and comprehension targets, builtin-shadowing names; the real Execer must launch nothing (counter on xonsh.procs.specs.run_subproc), and namespace / stdout / exception type must equal CPython's exec of the same source; del-then-use programs must launch the command; (effect; broken line) programs must leave the effect log empty when xonsh raises SyntaxError.",
   note="Names are bound by construction before use; spawn attribution for the two listed findings is done by neutralising the construct and re-running.", ref="§2 C02"),
 "C17": dict(level="exploration", technique="differential monitor: xonsh's own parser on formatter input and output (tree equality, COMMENT tokens), idempotence oracle, CLI byte-for-byte monitor",
   text="~12 000 sources per quick run assembled from Python statements in sloppy spacing, command lines in bare/![]/$()/pipe/redirect/chain form, macros, multi-line strings, f-strings, comments, blank-line runs, continuations, 2/4/8-space and tab indents, CRLF, no final newline, plus stdlib statements with perturbed spacing; input and output are parsed context-free and context-aware and compared location-free, COMMENT tokens compared, second pass compared; un-tokenisable files must be rejected by the CLI and left unchanged.",
   note="Sources the xonsh parser rejects are dropped; comment strings are compared after strip(); one risky construct class per source with attribution by neutralised twin.", ref="§2 C17"),
 "C18": dict(level="exploration", technique="execute-the-completion monitor (recording alias observes the argv of the spliced line) + exception/hang/reconstruction monitor on the command-line analyser",
   text="Adversarial names (one special character class per name: blanks, tabs, newlines, both quotes, backslashes, every shell metacharacter, leading -/~/#/$, keywords, non-ASCII) as file and as directory, each alone in a scratch directory; for 5 typed prefixes x 8 opening-quote styles the real Completer (path completer only) is asked and every completion offered is spliced in and executed; ~175 000 analyser calls on fuzz texts at every cursor position check no exception, no hang and prefix/suffix reconstruction.",
   note="p-string completions of directories may omit the trailing separator (Path semantics); prefixes are restricted to text a user can have typed; reconstruction is not demanded across backslash-newlines or for a cursor strictly inside a run of quote characters.", ref="§2 C18"),
 "C08": dict(level="exploration", technique="reference-model monitor (10-line POSIX $PATH search, cross-checked with shutil.which) over every lookup view after each step of generated file-system / $PATH histories",
   text="Layouts with symlinked, missing, duplicate, relative and empty $PATH entries, non-executable shadows, directories, FIFOs and broken links named like commands; after each of create/delete/rename/chmod/replace-by-dir/$PATH edit/cd operations all names are looked up through locate_executable, CommandsCache.locate_binary, `in`, all_commands, explicit-path forms and (sampled) by spawning the bare name and reading which script ran; ~200 000 comparisons per quick run.",
   note="Capabilities are dropped so execute bits apply; directory mtimes are advanced explicitly; queries on which the POSIX model and shutil.which disagree are inconclusive; staleness is attributed (never decided) by comparing the cache's per-directory listings with the file system.", ref="§2 C08"),
 "C12": dict(level="exploration", technique="history checker over unique-id entries (subsequence / no-loss / no-duplicate / order oracle) on every read path and on the decoded store; node-by-node LazyJSON-vs-json.loads monitor; sys.monitoring delay injection into flusher and reader code",
   text="Random append/flush/flush(at_exit)/clear/read sequences on the real JsonHistory and SqliteHistory with buffer sizes 1-10, $HISTCONTROL subsets and hostile texts (multi-line, any Unicode, control characters, JSON look-alikes); every entry has a unique timestamp so loss, duplication, reordering, invention and alteration are read off the data; reads are overlapped with pending flusher threads (counter floor), and after the flushers finish the file is decoded both through the embedded index and by plain json.loads and compared node by node.",
   note="Entries a $HISTCONTROL rule may drop are optional, entries no rule can drop are mandatory; SQLite text compared after rstrip; file content judged after all flushers finished.", ref="§2 C12, A.6"),
 "C13": dict(level="fault_enumeration", technique="fault injection by enumeration: fork + audit-hook/write-proxy engine for the JSON store (kill-before-call, partial write, failing call at every event), strace syscall injection for SQLite",
   text="For every generated instance of flush (at exit / background), delete, erasedups, stale-lock unlock and gc removal the audited file-system events and write() calls are counted in a dry run and then EVERY event is turned into a kill point, every write into partial writes of four prefix lengths and every call into a failing call with four errnos (exhaustive per instance); after each fault every history file must be loadable (embedded index == plain JSON) and hold its old commands as a prefix (flush) or exactly its old or new version. SQLite append/delete/erasedups/gc are SIGKILLed at enumerated write-class syscalls and judged by integrity_check and row conservation.",
   note="Crash = process kill at Python's file-API boundary / at a syscall; power loss and fsync ordering are not modelled; stray *.json.tmp files are tolerated; the expected new version comes from a fault-free forked run.", ref="§2 C13, A.6"),
 "C19": dict(level="fault_enumeration", technique="differential monitor against a cache-free twin over edit/touch/run histories in virtual time + exhaustive corruption enumeration of cache entries",
   text="Histories of write/edit-same-size/touch/run (script, -c single mode, stdin exec mode) under every combination of the four cache switches are executed through the real run_script_with_cache / run_code_with_cache and compared step by step (stdout, exception type, namespace) with a cache-free twin, with a counter proving the cache was actually hit; for script and code entries EVERY truncation length, zero-filled tails, foreign version headers, non-marshal payloads, a directory / unreadable file / read-only directory in place of the entry are run and must equal the uncached run; real CLI runs cover the process-level view.",
   note="Virtual time: source and cache-entry mtimes are set explicitly; tampered entries with a well-formed non-code marshal payload are run but only counted; bit flips inside a well-formed code object are out of scope.", ref="§2 C19"),
}
NOT_BUILT = "check not built yet in this session (planned, see DESIGN.md §2); nothing is claimed for it"
def main():
    checks = []
    for pid in ALL:
        c = CHECKS.get(pid)
        if not c: continue
        checks.append({
            "property_id": pid,
            "quick_cmd": f"./check {pid} --tier quick",
            "thorough_cmd": f"./check {pid} --tier thorough",
            "evidence_file": f"/verif/evidence/{pid}.json",
            "replay_cmd_template": f"./check {pid} --replay {{path}}",
            "engine": "vlib",
            "level_claimed": {"category": c["level"], "text": c["text"], "design_ref": "DESIGN.md " + c["ref"]},
            "level_note": c["note"],
            "technique": c["technique"],
        })
    m = {
        "version": 1,
        "setup_cmd": "sh /verif/setup.sh",
        "hooks": {
            "guard": "XONSH_XONSH_VERIF",
            "enable": "checks copy /repo's working tree to a scratch dir, regenerate the parser tables there and export XONSH_XONSH_VERIF=1 to every worker; no source hook exists in /repo (observation is source-free: sys.monitoring, audit hooks, wrappers attached from the harness)",
            "baseline_off_cmd": BASE,
            "source_commits": [],
            "add_only": True,
        },
        "engines": [{"name": "vlib", "path": "/verif/vlib", "serves_properties": sorted(CHECKS), "kind_free_text": "runtime-monitoring harness: scratch build of the working tree, sharded worker processes, reference-model / differential / invariant monitors, schedule perturbation (sys.monitoring), fork+audit-hook fault injection, known-finding classifier, evidence writer"}],
        "checks": checks,
        "not_applicable": [{"property_id": p, "reason": NOT_BUILT} for p in ALL if p not in CHECKS],
        "notes": "Exit codes: 0 held on everything explored (KNOWN-FINDING lines for listed defects), 1 VIOLATION, 2 INCONCLUSIVE (a deciding monitor was not reached). known_findings.json is read-only at run time.",
    }
    json.dump(m, open(os.path.join(V, "MANIFEST.json"), "w"), indent=1); open(os.path.join(V, "MANIFEST.json"), "a").write("\n")
    try:
        import jsonschema
        jsonschema.validate(m, json.load(open("/root/.vp/MANIFEST.schema.json")))
        print("manifest valid;", len(checks), "checks")
    except ImportError:
        print("manifest written (jsonschema not available to validate)")
if __name__ == "__main__":
    main()
