"""Self-test by mutation: apply one textual edit to a scratch copy of the repo and run a check on it.
usage: muttest.py <CHECK-ID> <relative file> <old text> <new text> [--tier quick] [--count N]
Exit 0 when the check reports a VIOLATION (mutant caught), 1 otherwise.  Nothing in /repo is touched."""
import os, shutil, subprocess, sys, tempfile
V = os.path.dirname(os.path.dirname(os.path.abspath(__file__)))
def main():
    a = sys.argv[1:]
    cid, rel, old, new = a[:4]
    tier = a[a.index("--tier") + 1] if "--tier" in a else "quick"
    repo = os.environ.get("VERIF_REPO", "/repo")
    d = tempfile.mkdtemp(prefix="xmut-")
    try:
        for sub in ("xonsh", "xontrib", "xompletions"):
            shutil.copytree(os.path.join(repo, sub), os.path.join(d, sub), ignore=shutil.ignore_patterns("__pycache__"))
        p = os.path.join(d, rel)
        s = open(p).read()
        n = s.count(old)
        if n != 1 and "--any" not in a:
            print(f"MUTANT-NOT-APPLIED: {n} occurrences of the old text in {rel}"); return 2
        open(p, "w").write(s.replace(old, new, 1))
        env = dict(os.environ, VERIF_REPO=d)
        r = subprocess.run([os.path.join(V, "check"), cid, "--tier", tier, "--no-evidence"], env=env, capture_output=True, text=True)
        lines = [l for l in r.stdout.splitlines() if l.startswith(("VIOLATION", "INCONCLUSIVE"))]
        print(f"exit={r.returncode}", "CAUGHT" if r.returncode == 1 else "MISSED", "|", (lines[0][:300] if lines else r.stdout[-300:]))
        return 0 if r.returncode == 1 else 1
    finally:
        shutil.rmtree(d, ignore_errors=True)
sys.exit(main())
