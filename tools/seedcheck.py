"""Validate a seeded change and run checks against it - nothing in /repo is touched.

usage: seedcheck.py <seed dir with patch.diff + demo.py> <CHECK-ID>[,<CHECK-ID>...] [--suite] [--tier quick|thorough] [--no-demo] [--keep]

Steps (each reported on one line, machine-readable summary as last line `SEEDCHECK {...json...}`):
  1. scratch git worktree of /repo HEAD outside /repo and /verif; parser tables regenerated there
  2. demo.py on the pristine worktree (expect exit 0), `git apply patch.diff`, tables regenerated, demo.py again (expect != 0)
  3. --suite: the pinned suite on the patched worktree, compared with BASELINE.json (every stable-pass test must pass)
  4. every listed check with VERIF_REPO=<patched worktree> --no-evidence (exit 1 = caught)
The worktree is removed afterwards.
"""
import json
import os
import shutil
import subprocess
import sys
import tempfile
import time

V = os.path.dirname(os.path.dirname(os.path.abspath(__file__)))
PY = "/venv/bin/python"
REPO = "/repo"


def sh(cmd, **kw):
    return subprocess.run(cmd, capture_output=True, text=True, **kw)


def regen_tables(wt):
    for t in ("parser_table.py", "completion_parser_table.py"):
        try:
            os.remove(os.path.join(wt, "xonsh", t))
        except OSError:
            pass
    code = (
        "import sys; sys.path.insert(0, sys.argv[1])\n"
        "from xonsh.parser import Parser\n"
        "from xonsh.parsers.completion_context import CompletionContextParser\n"
        "import os; out=os.path.join(sys.argv[1],'xonsh')\n"
        "p=Parser(yacc_table='parser_table', outputdir=out, yacc_debug=False)\n"
        "p.parser is None and p._yacc_loader.ready.wait()\n"
        "CompletionContextParser(yacc_table='completion_parser_table', outputdir=out, debug=False)\n"
    )
    r = sh([PY, "-c", code, wt], env=dict(os.environ, PYTHONPATH=wt, XONSH_DEBUG="1", PYTHONDONTWRITEBYTECODE="1"), timeout=600)
    ok = all(os.path.isfile(os.path.join(wt, "xonsh", t)) for t in ("parser_table.py", "completion_parser_table.py"))
    return ok, (r.stderr or r.stdout)[-500:]


def run_demo(wt, demo, timeout=300):
    env = dict(os.environ, PYTHONPATH=wt, PYTHONDONTWRITEBYTECODE="1")
    env.pop("XONSH_DEBUG", None)
    try:
        r = subprocess.run([PY, demo, wt], cwd=wt, env=env, capture_output=True, text=True, timeout=timeout, stdin=subprocess.DEVNULL, start_new_session=True)
        return r.returncode, (r.stdout + r.stderr)[-600:]
    except subprocess.TimeoutExpired:
        return "timeout", ""


def main():
    a = sys.argv[1:]
    sdir, ids = os.path.abspath(a[0]), a[1].split(",")
    tier = a[a.index("--tier") + 1] if "--tier" in a else "quick"
    res = {"seed": sdir, "checks": {}}
    base = tempfile.mkdtemp(prefix="xseed-")
    wt = os.path.join(base, "wt")
    try:
        r = sh(["git", "-C", REPO, "worktree", "add", "--detach", wt, "HEAD"])
        if r.returncode:
            print("worktree failed", r.stderr)
            return 2
        ok, msg = regen_tables(wt)
        if not ok:
            print("table generation failed on pristine tree", msg)
            return 2
        demo = os.path.join(sdir, "demo.py")
        if "--no-demo" not in a and os.path.isfile(demo):
            rc, out = run_demo(wt, demo)
            res["demo_pristine"] = rc
            print(f"demo on pristine tree: exit={rc}" + ("" if rc == 0 else f" :: {out[-300:]!r}"))
        r = sh(["git", "-C", wt, "apply", os.path.join(sdir, "patch.diff")])
        if r.returncode:
            # written against an earlier HEAD (a fix: commit touched the same file since): three-way
            r = sh(["git", "-C", wt, "apply", "--3way", os.path.join(sdir, "patch.diff")])
            sh(["git", "-C", wt, "reset", "-q"])
            res["applied_three_way"] = r.returncode == 0
        res["applies"] = r.returncode == 0
        if r.returncode:
            print("PATCH DOES NOT APPLY:", r.stderr[-400:])
            print("SEEDCHECK", json.dumps(res))
            return 2
        ok, msg = regen_tables(wt)
        res["tables"] = ok
        if not ok:
            print("table generation failed on patched tree:", msg)
        if "--no-demo" not in a and os.path.isfile(demo):
            rc, out = run_demo(wt, demo)
            res["demo_patched"] = rc
            print(f"demo on patched tree: exit={rc} :: {out[-400:]!r}")
        if "--suite" in a:
            t0 = time.time()
            xml = os.path.join(base, "junit.xml")
            env = dict(os.environ)
            env.pop("VERIF_REPO", None)
            subprocess.run([PY, "-m", "pytest", "-q", "-p", "no:cacheprovider", "--timeout=900", "--continue-on-collection-errors", f"--junitxml={xml}"], cwd=wt, env=env, capture_output=True, text=True, stdin=subprocess.DEVNULL)
            r = sh([PY, os.path.join(V, "tools", "suitecmp.py"), xml])
            res["suite_ok"] = r.returncode == 0
            res["suite"] = r.stdout.strip().splitlines()[:8]
            print(f"suite on patched tree ({time.time() - t0:.0f}s):", r.stdout.strip()[:1500])
        for cid in ids:
            if cid == "-":
                continue
            t0 = time.time()
            env = dict(os.environ, VERIF_REPO=wt)
            r = sh([os.path.join(V, "check"), cid, "--tier", tier, "--no-evidence"], env=env)
            lines = [l for l in r.stdout.splitlines() if l.startswith(("VIOLATION", "INCONCLUSIVE"))]
            verdict = {1: "CAUGHT", 0: "MISSED", 2: "INCONCLUSIVE"}.get(r.returncode, f"rc={r.returncode}")
            res["checks"][cid] = {"verdict": verdict, "tier": tier, "wall": round(time.time() - t0, 1), "lines": [l[:400] for l in lines[:6]]}
            print(f"check {cid} ({tier}) on patched tree: exit={r.returncode} {verdict} wall={time.time() - t0:.0f}s")
            for l in lines[:6]:
                print("   ", l[:400])
            if not lines and r.returncode not in (0, 1):
                print("   ", (r.stdout + r.stderr)[-500:])
        print("SEEDCHECK", json.dumps(res))
        return 0
    finally:
        if "--keep" in a:
            print("kept", wt)
        else:
            sh(["git", "-C", REPO, "worktree", "remove", "--force", wt])
            shutil.rmtree(base, ignore_errors=True)
            sh(["git", "-C", REPO, "worktree", "prune"])


sys.exit(main())
