"""C03 - a bare command line means exactly its explicit `![...]` form, everywhere; detection terminates.

Both texts are rendered from one generated structure (chain tree of command segments) - never by text
surgery on the bare form.  First line of defence: location-free tree equality of Execer.parse(bare)
and Execer.parse(explicit); on inequality both are executed in equal sessions with recording aliases
and the traces compared (equal traces = benign tree difference, counted).  Termination: every
Execer.parse is bounded by a logical step counter on parser.parse (and a generous alarm).
"""

import ast
import builtins as _b
import os
import random

from vlib import harness

WORDS = ["a", "-x", "--long", "--k=v", "-n1", "a/b.c", "./x", "../y", "a:b", "a,b", "+x", "%d", "k=v", "12", "1.5", "x-y", "x_y", "a.b", "*.py", "~/z", "\u00fcn\u00ef", "@", "a@b", "a+b", "x==y", "-", "--", "http://h/p?q=1", "{a,b}", "a[1]", "-I/usr/include", "--color=auto", "-", "2", "None", "if", "in", "is", "not", "True", "rock-and", "either/or", "x.or", "and-so", "or/else"]
STRS = ["'s p'", '"d q"', "r'\\raw'", "f'{val}'", "'it''s'", '"$HOME"', "''", "'''t'''", "'a;b'", "'&&'", '"|"', "'#x'", "\'\'\'m1\nm2\'\'\'", '"""t1\n  t2"""']
SUBS = ["$HOME", "${'HO'+'ME'}", "@(val)", "@([1,2])", "$(cmd9 q)", "@$(cmd9 q)", "pre@(val)post", "$HOME/x"]
REDIR = ["> out.txt", ">> out.txt", "2> err.txt", "e>o", "2>&1", "a> all.txt", "< in.txt", "o> o.txt e> e.txt"]


def norm(n):
    if isinstance(n, ast.AST):
        if isinstance(n, ast.keyword) and n.arg == "in_boolop":
            return None
        return (type(n).__name__, [(f, norm(getattr(n, f, None))) for f in n._fields if f not in ("kind", "type_comment")])
    if isinstance(n, list):
        return [y for y in (norm(x) for x in n) if y is not None]
    return repr(n)


KEYWORDS = {"if", "in", "is", "not", "None", "True"}
OPSTRS = {"'a;b'", "'&&'", '"|"', "'#x'"}


RISKS = ["--k=v", "lone-dash", "keyword-word", "operator-in-string", "at-word", "brace-word", "paren-group", "background", "one-line-suite", "multiline-string", "multiline-string"]
MLSTRS = ["'''m1\nm2'''", '"""t1\n  t2"""']
_RISKY_WORDS = {"--k=v", "--color=auto", "-", "--", "@", "{a,b}"} | KEYWORDS
SAFE_WORDS = [w for w in WORDS if w not in _RISKY_WORDS]
SAFE_STRS = [w for w in STRS if w not in OPSTRS and w != "'it''s'" and "\n" not in w]


class Gen:
    """Each generated command carries at most ONE class of construct that a listed finding is known to
    trip over (self.risk); a failing pair is then attributable to that class alone, and a failure of a
    risk-free pair is a new violation."""

    def __init__(self, rng):
        self.r = rng
        self.risk = None

    def arg(self):
        r = self.r.random()
        if self.risk in ("--k=v", "lone-dash", "keyword-word", "at-word", "brace-word") and r < 0.25:
            return self.r.choice({"--k=v": ["--k=v", "--color=auto"], "lone-dash": ["-", "--"], "keyword-word": sorted(KEYWORDS), "at-word": ["@"], "brace-word": ["{a,b}"]}[self.risk])
        if self.risk == "operator-in-string" and r < 0.25:
            return self.r.choice(sorted(OPSTRS))
        if self.risk == "multiline-string" and r < 0.2:
            return self.r.choice(MLSTRS)
        if r < 0.6:
            return self.r.choice(SAFE_WORDS)
        if r < 0.8:
            return self.r.choice(SAFE_STRS)
        return self.r.choice(SUBS)

    def simple(self):
        toks = ["cmd%d" % self.r.randint(0, 5)] + [self.arg() for _ in range(self.r.randint(0, 4))]
        if self.r.random() < 0.2:
            toks.append(self.r.choice(REDIR))
        return toks

    def pipeline(self):
        stages = [self.simple()]
        for _ in range(self.r.choice([0, 0, 0, 1, 2])):
            stages.append(self.simple())
        return ["P", stages, self.risk == "background" and self.r.random() < 0.4]

    def chain(self, depth=0):
        """-> tree: ["P", stages, bg] | ["C", op, a, b, paren]"""
        if depth >= 2 or self.r.random() < 0.5:
            return self.pipeline()
        op = self.r.choice([" and ", " or ", " && ", " || "])
        return ["C", op, self.chain(depth + 1), self.chain(depth + 1), self.risk == "paren-group" and depth > 0 and self.r.random() < 0.5]

    def placement(self):
        if self.risk == "one-line-suite":
            return "one-line-suite"
        if self.risk == "multiline-string" and self.r.random() < 0.5:
            return self.r.choice(["three-on-a-line-after-python-parsable-head", "three-on-a-line-in-block"])
        return self.r.choice(["top", "top", "after-semicolon", "if-body", "nested-tab-indent", "def-body-2-space", "try-body", "two-on-a-line", "backslash-continuation", "backslash-continuation-twice", "with-body-depth3", "after-python-statement"])


def render(t, explicit, repair=()):
    """Render the bare or the explicit text of a chain tree; ``repair`` names features to neutralise
    (used only to attribute a deviation to a listed finding, never to judge)."""
    import re

    if t[0] == "P":
        words = []
        for st in t[1]:
            ws = list(st)
            if "--k=v" in repair:
                ws = [re.sub(r"^(--[A-Za-z][\w-]*)=", r"\1", w) for w in ws]
            if "lone-dash" in repair:
                ws = [w + "d" if w in ("-", "--") else w for w in ws]
            if "keyword-word" in repair:
                ws = ["kw" + w if w in KEYWORDS else w for w in ws]
            if "operator-in-string" in repair:
                ws = ["'q'" if w in OPSTRS else w for w in ws]
            if "at-word" in repair:
                ws = ["at" if w == "@" else w for w in ws]
            if "brace-word" in repair:
                ws = ["ab" if w == "{a,b}" else w for w in ws]
            if "multiline-string" in repair:
                ws = [w.replace("\n", " ") for w in ws]
            words.append(" ".join(ws))
        s = " | ".join(words) + (" &" if t[2] and "background" not in repair else "")
        return "![" + s + "]" if explicit else s
    s = render(t[2], explicit, repair) + t[1] + render(t[3], explicit, repair)
    return "(" + s + ")" if (t[4] and "paren-group" not in repair) else s


def place(where, b, e, cont=None, repair=()):
    w = lambda pre, post="": (pre + b + post + "\n", pre + e + post + "\n")
    nl = " " if "multiline-string" in repair else "\n"
    if where == "top":
        return w("")
    if where == "after-semicolon":
        return w("val = 1; ")
    if where == "if-body":
        return w("if cond:\n    ")
    if where == "nested-tab-indent":
        return w("for i in xs:\n\tif i:\n\t\t", "\n\telse:\n\t\tpass")
    if where == "def-body-2-space":
        return w("def f():\n  ", "\n  return 1")
    if where == "try-body":
        return ("try:\n    " + b + "\nexcept Exception:\n    " + b + "\n", "try:\n    " + e + "\nexcept Exception:\n    " + e + "\n")
    if where == "one-line-suite":
        return w("if cond: ")
    if where == "two-on-a-line":
        return (b + "; " + b + "\n", e + "; " + e + "\n")
    if where == "three-on-a-line-after-python-parsable-head":
        # a head that is also a Python expression (an unbound name, `name -x`), then `;`-joined commands, the last one with a
        # multi-line triple-quoted argument
        return ("cmd8; " + b + " ; cmd7 w \'\'\'m1" + nl + "m2\'\'\'\n", "![cmd8]; " + e + " ; ![cmd7 w \'\'\'m1" + nl + "m2\'\'\']\n")
    if where == "three-on-a-line-in-block":
        return ("if cond:\n    cmd8 -x; " + b + "; cmd7 \"\"\"t1" + nl + "  t2\"\"\"\n", "if cond:\n    ![cmd8 -x]; " + e + "; ![cmd7 \"\"\"t1" + nl + "  t2\"\"\"]\n")
    if where == "with-body-depth3":
        return w("with ctxm:\n    while cond:\n        if cond:\n            ", "\n            break")
    if where == "after-python-statement":
        return w("val = [1,\n  2]\nimport os\n")
    if where == "backslash-continuation":
        idx = [i for i, c in enumerate(b) if c == " "]
        if not idx:
            return w("")
        i = idx[(cont or 0) % len(idx)]
        b2 = b[:i] + " \\\n" + b[i + 1:]
        return (b2 + "\n", "![" + b2 + "]\n")
    if where == "backslash-continuation-twice":
        # three physical lines: the command word and its first arguments alone may well be valid Python
        idx = [i for i, c in enumerate(b) if c == " "]
        if len(idx) < 2:
            return w("")
        i = idx[(cont or 0) % (len(idx) - 1)]
        j = idx[(cont or 0) % (len(idx) - 1) + 1 + ((cont or 0) // 7) % (len(idx) - 1 - (cont or 0) % (len(idx) - 1))]
        b2 = b[:i] + " \\\n" + b[i + 1: j] + " \\\n  " + b[j + 1:]
        return (b2 + "\n", "![" + b2 + "]\n")
    raise ValueError(where)


def has_chain(t):
    return t[0] == "C"


def tree_features(t, where):
    import re

    f = []
    words = []

    def walk(n):
        if n[0] == "P":
            for st in n[1]:
                words.extend(st)
            return n[2], False
        bg1, p1 = walk(n[2])
        bg2, p2 = walk(n[3])
        return bg1 or bg2, p1 or p2 or n[4]

    bg, paren = walk(t)
    if has_chain(t) and any(re.match(r"--[A-Za-z][\w-]*=", w) for w in words):
        f.append("--k=v")
    if has_chain(t) and any(w in ("-", "--") for w in words):
        f.append("lone-dash")
    if any(w in KEYWORDS for w in words):
        f.append("keyword-word")
    if any(w in OPSTRS for w in words):
        f.append("operator-in-string")
    if "@" in words:
        f.append("at-word")
    if has_chain(t) and "{a,b}" in words:
        f.append("brace-word")
    if paren:
        f.append("paren-group")
    if bg:
        f.append("background")
    if where == "one-line-suite":
        f.append("one-line-suite")
    if any("\n" in w for w in words) or where.startswith("three-on-a-line"):
        f.append("multiline-string")
    return f


class _Null:
    def count(self, *a, **k):
        pass


class C03:
    id = "C03"
    module = "checks.c03"
    level = "exploration"
    tables = True
    rule = (
        "cases = (bare source B, explicit twin E) rendered from one chain tree of pipelines over a shell-realistic word alphabet, quoted strings, $VAR/${}/@()/$()/@$() and redirects, placed at top level, "
        "after `;`, after Python statements, in if/for/def/try/with/while bodies to depth 3 with space/tab indents, in one-line suites, twice on a line and across a backslash continuation; plus fuzz strings "
        "(lexeme soup, mutated lines, bracket imbalance, unterminated quotes; 1-40 lines, <= 4 KiB) for termination; distinct_nontrivial = distinct B texts whose command has at least 2 words or a chain operator"
    )
    assumptions = [
        "a pair is judged only when the explicit twin parses (it defines 'well-formed command'), the bare text is not a valid Python non-expression statement and the first word is unbound",
        "the parser-injected in_boolop keyword is normalised away in the tree comparison (its behavioural consequence is C05's listed finding)",
        "tree inequality is downgraded to 'benign' when executing both texts with recording aliases yields the same trace",
        "termination bound: at most 40*(lines+10) parser.parse invocations per Execer.parse, plus a 20 s alarm whose firing is re-tried once with 60 s before being reported",
    ]

    def shards(self, tier, seed):
        pairs = 330 if tier == "quick" else 4000
        fuzz = 1300 if tier == "quick" else 15000
        return [dict(kind="mixed", index=i, pairs=pairs, fuzz=fuzz, timeout=420 if tier == "quick" else 3000) for i in range(16)]

    def floors(self, c, tier):
        r = []
        if c.get("pairs_judged", 0) < 3000:
            r.append("fewer than 3000 twins judged")
        if c.get("fuzz_parsed", 0) < 10000:
            r.append("fewer than 10000 fuzz strings parsed")
        if c.get("parser_parse_calls", 0) < 10000:
            r.append("the parser.parse step counter never fired")
        if c.get("trace_comparisons", 0) < 10:
            r.append("behavioural (trace) comparison never exercised")
        return r

    def _setup(self):
        from vlib.session import Recorder, make_sandbox_path, make_session

        self.sb = make_sandbox_path(os.environ["VERIF_SCRATCH"])
        self.work = os.path.join(os.environ["VERIF_SCRATCH"], f"c03-{os.getpid()}")
        os.makedirs(self.work, exist_ok=True)
        os.chdir(self.work)
        open("in.txt", "w").write("input\n")
        self.XSH, self.ex, self.ctx = make_session([self.sb], env={"PWD": self.work, "XONSH_SUBPROC_RAISE_ERROR": False, "THREAD_SUBPROCS": True})
        self.R = Recorder()
        for i in range(10):
            self.XSH.aliases["cmd%d" % i] = self.R.alias("cmd%d" % i, rc=(i % 3 == 1), out="o%d\n" % i)
        self.CTX = set(dir(_b)) | {"xs", "cond", "val", "log", "ctxm"}
        self.steps = [0]
        orig = self.ex.parser.parse
        steps = self.steps

        def counted(*a, **k):
            steps[0] += 1
            if steps[0] > self.bound:
                raise harness.CaseTimeout()
            return orig(*a, **k)

        self.ex.parser.parse = counted
        self.bound = 10**9
        # second logical clock: tokens handed out by the lexer (covers loops that never reach parser.parse)
        from xonsh.parsers.lexer import Lexer

        self.toks = [0]
        self.tokbound = 10**12
        otoken = Lexer.token
        toks = self.toks

        def token(lx):
            toks[0] += 1
            if toks[0] > self.tokbound:
                raise harness.CaseTimeout()
            return otoken(lx)

        Lexer.token = token
        self.maxratio = 0.0

    def parse(self, src, rec, alarm_s=20):
        """-> ('ok', tree) | ('SyntaxError', msg) | ('HANG', ..) | ('STEP-BOUND', n) | ('CRASH', type)"""
        self.steps[0] = 0
        self.toks[0] = 0
        self.bound = 40 * (src.count("\n") + 10)
        unit = (src.count("\n") + 10) * (len(src) + 20)
        self.tokbound = 60 * unit
        try:
            with harness.alarm(alarm_s):
                t = self.ex.parse(src, ctx=set(self.CTX))
            out = ("ok", t)
        except SyntaxError as x:
            out = ("SyntaxError", str(x)[:80])
        except harness.CaseTimeout:
            if self.steps[0] > self.bound:
                out = ("STEP-BOUND", f"parser.parse called {self.steps[0]} times")
            elif self.toks[0] > self.tokbound:
                out = ("TOKEN-BOUND", f"{self.toks[0]} lexer tokens for {len(src)} characters in {src.count(chr(10)) + 1} lines")
            else:
                out = ("HANG", alarm_s)
        except RecursionError:
            out = ("RecursionError", None)
        except BaseException as x:  # noqa
            out = ("CRASH", f"{type(x).__name__}: {str(x)[:80]}")
        rec.count("parser_parse_calls", self.steps[0])
        rec.count("lexer_tokens", self.toks[0])
        if out[0] in ("ok", "SyntaxError"):
            self.maxratio = max(self.maxratio, self.toks[0] / unit)
        self.tokbound = 10**12
        self.bound = 10**9
        return out

    def trace(self, src):
        """Execute and return the observable trace (commands, argv, stdin, redirect files, raise)."""
        from vlib.session import settle

        for f in ("out.txt", "err.txt", "all.txt", "o.txt", "e.txt"):
            try:
                os.remove(f)
            except OSError:
                pass
        self.R.clear()

        class CM:
            def __enter__(s):
                return s

            def __exit__(s, *a):
                return False

        g = {"xs": [1], "cond": True, "val": "v", "log": [], "ctxm": CM()}
        exc = None
        try:
            with harness.alarm(20):
                self.ex.exec(src, glbs=g, locs=g, mode="exec")
                if callable(g.get("f")):
                    g["f"]()
                settle(3)
        except harness.CaseTimeout:
            exc = "HANG"
        except BaseException as x:  # noqa
            exc = type(x).__name__
        files = {}
        for f in ("out.txt", "err.txt", "all.txt", "o.txt", "e.txt"):
            if os.path.exists(f):
                files[f] = open(f, errors="replace").read()
        return {"cmds": sorted((e["name"], tuple(e["argv"])) for e in self.R.snapshot()), "order": [e["name"] for e in self.R.snapshot()] if len(self.R.snapshot()) < 2 else None, "files": files, "exc": exc}

    def run_case(self, case, rec):
        if not hasattr(self, "XSH"):
            self._setup()
        if case["kind"] == "fuzz":
            return self.run_fuzz(case, rec)
        tree, where = case["tree"], case["where"]
        if where.startswith("backslash-continuation") and has_chain(tree):
            where = "top"
        verdict = self.judge_pair(tree, where, case.get("cont"), rec, count=True)
        if verdict is None or verdict[0] == "ok":
            return
        kind, detail = verdict
        if kind.startswith("TERMINATION/CRASH"):
            # same key as for fuzz inputs: the exception, not the placement
            import re as _re

            msg = _re.sub(r"'[A-Z]\w+' object", "'<node>' object", _re.sub(r"\d+", "N", str(detail.get("detail"))))[:70]
            rec.violation(f"TERMINATION/CRASH/{msg}", case, detail)
            return
        if kind.startswith("TERMINATION"):
            rec.violation(kind + "/" + where, case, detail)
            return
        # attribute the deviation: which single neutralisation makes the pair agree?
        feats = tree_features(tree, where)
        cause = None
        for f in feats:
            rep = (f,) if f != "one-line-suite" else ()
            w2 = "if-body" if f == "one-line-suite" else where
            v2 = self.judge_pair(tree, w2, case.get("cont"), rec, repair=rep)
            if v2 is not None and v2[0] == "ok":
                cause = f
                break
        if cause is None and len(feats) > 1:
            rep = tuple(f for f in feats if f != "one-line-suite")
            w2 = "if-body" if "one-line-suite" in feats else where
            v2 = self.judge_pair(tree, w2, case.get("cont"), rec, repair=rep)
            if v2 is not None and v2[0] == "ok":
                cause = "+".join(feats)
        if cause == "multiline-string":
            # keyed by structure: a multi-line argument is fine in most positions; the listed mis-wrappings need a chain around
            # it, or the three-on-a-line shape with a one-word middle command
            if where.startswith("three-on-a-line"):
                # in these placements the pristine recovery loop mis-wraps in many ways (head replaced by copies of the middle
                # commands, commands run two or three times ...): one listed zone per placement, whatever the symptom
                sub = f"@{where}"
            elif has_chain(tree):
                sub = "-in-a-chain-segment"
            else:
                sub = f"@{where}"
            if where.startswith("three-on-a-line") or has_chain(tree):
                # listed zones: whatever form the deviation takes there (rejected, other commands, other files)
                rec.violation(f"MISWRAPPED/multiline-string{sub}", case, dict(detail, deviation=kind))
            else:
                rec.violation(f"{kind}/multiline-string{sub}", case, detail)
        elif cause:
            rec.violation(f"{kind}/{cause}", case, detail)
        else:
            if kind.startswith("MEANING-DIFFERS") and isinstance(detail, dict):
                # a command whose words form an unparenthesised Python tuple (`cmd1 -- a,b` = `cmd1 - -a, b`): at statement level
                # outside a block the context-aware phase does not turn it into a command; it is evaluated as Python and raises
                bt = detail.get("bare_trace") or {}
                try:
                    pt = ast.parse(str(detail.get("B", "")).replace("\\\n", " "))
                    tuple_shaped = len(pt.body) == 1 and isinstance(pt.body[0], ast.Expr) and isinstance(pt.body[0].value, ast.Tuple)
                except (SyntaxError, IndentationError):
                    tuple_shaped = False
                if tuple_shaped and not bt.get("cmds") and bt.get("exc") in ("TypeError", "NameError"):
                    rec.violation("MEANING-DIFFERS/python-tuple-shaped-command-is-run-as-python", case, detail)
                    return
            rec.violation(f"{kind}/unexplained/{where}", case, detail)

    def judge_pair(self, tree, where, cont, rec, repair=(), count=False):
        """-> None (not judgeable) | ('ok', None) | (kind, detail)"""
        b, e = render(tree, False, repair), render(tree, True, repair)
        B, E = place(where, b, e, cont, repair)
        nullrec = rec if count else _Null()
        re_ = self.parse(E, nullrec)
        if re_[0] != "ok":
            if count:
                rec.count("skipped_explicit_twin_does_not_parse")
            if re_[0] not in ("SyntaxError",) and count:
                return (f"TERMINATION/explicit-form/{re_[0]}", {"detail": str(re_[1]), "E": E})
            return None
        try:
            pt = ast.parse(b)
            if pt.body and not isinstance(pt.body[0], ast.Expr):
                if count:
                    rec.count("skipped_bare_text_is_a_python_statement")
                return None
        except SyntaxError:
            pass
        if count:
            rec.count("pairs_judged")
            rec.count("where_" + where)
            rec.case(nontrivial=B if len(b.split()) >= 2 else None)
        rb = self.parse(B, nullrec)
        if rb[0] == "HANG":
            rb = self.parse(B, nullrec, alarm_s=60)
        if rb[0] in ("HANG", "STEP-BOUND", "TOKEN-BOUND", "CRASH", "RecursionError"):
            return (f"TERMINATION/{rb[0]}", {"detail": str(rb[1]), "B": B})
        if rb[0] == "SyntaxError":
            return ("BARE-REJECTED", {"error": rb[1], "B": B, "E": E})
        if norm(rb[1]) == norm(re_[1]):
            if count:
                rec.count("trees_equal")
            return ("ok", None)
        if count:
            rec.count("trace_comparisons")
        tb, te = self.trace(B), self.trace(E)
        if tb == te:
            if count:
                rec.count("benign_tree_difference_same_trace")
            return ("ok", None)
        what = "commands-differ" if tb["cmds"] != te["cmds"] else "redirect-files-differ" if tb["files"] != te["files"] else "raise-differs" if tb["exc"] != te["exc"] else "order-differs"
        return (f"MEANING-DIFFERS/{what}", {"B": B, "E": E, "bare_trace": tb, "explicit_trace": te})

    def run_fuzz(self, case, rec):
        src = case["src"]
        rec.count("fuzz_parsed")
        rec.case(nontrivial=src if len(src) > 6 else None)
        r = self.parse(src, rec)
        if r[0] == "HANG":
            r = self.parse(src, rec, alarm_s=60)
            if r[0] != "HANG":
                rec.count("transient_parse_timeout")
        if r[0] in ("ok", "SyntaxError"):
            rec.count("fuzz_" + r[0])
            return
        if r[0] == "RecursionError" and max((len(l) for l in src.split("\n")), default=0) > 300:
            rec.count("fuzz_recursion_on_very_long_line")
            return
        from vlib.reduce import ddmin_text

        kind = r[0]
        key = r[1].split(":")[0] if kind == "CRASH" else kind
        msgkey = r[1] if kind == "CRASH" else None

        import time as _time

        t_end = _time.time() + 30  # minimisation only shortens the witness (the mechanism does not depend on it): bounded

        def still(t):
            if _time.time() > t_end:
                return False
            q = self.parse(t, _Null(), alarm_s=10)
            return q[0] == kind and (kind != "CRASH" or q[1] == msgkey)

        small, _ = ddmin_text(src, still, budget=150)
        import re as _re

        msg = _re.sub(r"'[A-Z]\w+' object", "'<node>' object", _re.sub(r"\d+", "N", str(r[1])))[:70] if kind == "CRASH" else ""
        rec.violation(f"TERMINATION/{kind}/{msg}" if kind == "CRASH" else f"TERMINATION/{kind}", case, {"detail": str(r[1]), "minimal": small})

    def fuzz_sources(self, rng, n, seeds):
        LEX = ["![", "$(", "$[", "!(", "@(", "@$(", ")", "]", "}", "{", "${", "'", '"', "'''", '"""', "\\\n", "\n", "\n    ", "\t", " ", ";", "&&", "||", "|", "&", ">", ">>", "<", "2>", "e>o", "and", "or", "not", "if", "else:", "for", "in", "def f():", "class C:", "lambda", ":", "=", "==", "#", "cmd1", "x", "1", "-", "--", "--k=v", "*", "**", "~", "$HOME", "$", "@", "!", "f'", "r'", "p'", "`", "...", "\u00e9", "\u2028", "\x0c"]
        for i in range(n):
            k = rng.random()
            if k < 0.4:
                s = "".join(rng.choice(LEX) + rng.choice(["", " ", " "]) for _ in range(rng.randint(1, 40)))
            elif k < 0.8 and seeds:
                s = rng.choice(seeds)
                for _ in range(rng.randint(1, 4)):
                    j = rng.randrange(len(s) + 1)
                    m = rng.random()
                    if m < 0.4:
                        s = s[:j] + rng.choice(LEX) + s[j:]
                    elif m < 0.7 and s:
                        s = s[:j] + s[j + rng.randint(1, 3):]
                    else:
                        s = s[:j] + s[j:][::-1][: rng.randint(0, 5)] + s[j:]
            elif k < 0.86:
                # `;`-joined commands inside an indented block with nested / unbalanced brackets in a substitution: the token
                # window arithmetic of subproc_toks at its edges (must end in a program or a SyntaxError, never an IndexError)
                ind = rng.choice(["    ", "\t", "  "])
                hdr = rng.choice(["if True:", "for i in x:", "def f():", "with a:", "while b:"])
                inner = rng.choice(["(1)", "((1))", "(1", "1)", "f(1)", "(a, (b))", "[1", "{", "(1))", ""])
                sub = rng.choice(["$(cmd3 %s)", "@(f%s)", "$[cmd3 %s]", "!(cmd3 %s)", "@$(cmd3 %s)", "${%s}"]) % inner
                segs = [rng.choice(["cmd1 a", "cmd2", "cmd4 -x " + sub, "cmd5 " + sub + " z", "cmd6 'q'"]) for _ in range(rng.randint(2, 4))]
                s = hdr + "\n" + ind + rng.choice(["; ", ";", " ; "]).join(segs) + rng.choice(["", ";", " &&", " |"])
            else:
                s = "\n".join("".join(rng.choice(LEX + ["a", "b", " "]) for _ in range(rng.randint(0, 12))) for _ in range(rng.randint(1, 40)))
            yield s[:4096] + ("\n" if rng.random() < 0.8 else "")

    def run_shard(self, sh, rec):
        self._setup()
        rng = random.Random(f"{sh['seed']}/C03/{sh['index']}")
        g = Gen(rng)
        seeds = []
        P = lambda *words: ["P", [list(words)], False]
        directed = [
            (["C", " || ", P("cmd1", "x"), P("cmd2", "--color=auto"), False], "top"),
            (["C", " && ", P("cmd1", "a"), P("cmd2", "--b=c"), False], "top"),
            (["C", " && ", P("cmd1", "a"), P("cmd2", "-", "b"), False], "top"),
            (P("cmd1", "12"), "one-line-suite"),
            (["C", " and ", P("cmd1", "a"), ["C", " || ", P("cmd2", "b"), P("cmd3", "c"), True], False], "top"),
        ]
        if sh["index"] == 0:
            for t, w in directed:
                self.run_case({"kind": "pair", "tree": t, "where": w, "cont": 0}, rec)
            # witness of the listed finding about Python-shaped commands cut by continuations
            self.run_case({"kind": "pair", "tree": P("cmd1", "--", "a,b"), "where": "backslash-continuation-twice", "cont": 46}, rec)
        for i in harness.budgeted(range(sh["pairs"]), rec):
            g.risk = rng.choice([None] * 8 + RISKS)
            t = g.chain()
            where = g.placement()
            case = {"kind": "pair", "tree": t, "where": where, "cont": rng.randrange(50)}
            if i < 2:
                rec.sample(dict(case, B=place(where if not (where.startswith("backslash-continuation") and has_chain(t)) else "top", render(t, False), render(t, True), case["cont"])[0]), "pair")
            seeds.append(place("top", render(t, False), render(t, True))[0])
            rec.begin(case)
            self.run_case(case, rec)
        for i, s in enumerate(harness.budgeted(self.fuzz_sources(rng, sh["fuzz"], seeds), rec)):
            case = {"kind": "fuzz", "src": s}
            if i < 2:
                rec.sample(case, "fuzz")
            rec.begin(case)
            self.run_case(case, rec)
        rec.count("max_token_ratio_permille_of_bound", int(1000 * self.maxratio / 60))


CHECK = C03()

if __name__ == "__main__":
    harness.main(CHECK)
