"""C12 - history records every command once, in order, and reads it back verbatim.

Random append / flush / flush(at_exit) / clear / read histories on the real JsonHistory and SqliteHistory
with buffer sizes 1-10, $HISTCONTROL subsets and hostile command texts; every appended entry carries a
unique timestamp, so what is read back (len, inps/rtns/tss[i], slices, h[i], items(), all_items(), the
decoded file / table after the flushers have finished) must be an order-preserving, duplicate-free
subsequence of what was appended that contains every entry no rule may drop.  The JSON store's
embedded index is checked node by node against plain json.loads.  Flusher threads and readers are
overlapped with sys.monitoring delay injection.
"""

import json
import os
import random
import textwrap
import sqlite3
import threading

from vlib import harness

TEXTS = [
    "ls", "echo hi", " leading space", "trailing  ", "multi\nline\ncmd", "tab\there", "quotes ' \" `", "back\\slash\\", "ünïcode \U0001F600 ́", "json {\"a\": [1, 2]} \\u0041",
    "", "x" * 300, "null", "true", "[1]", "{}", "a\r\nb", "\x01\x1b[31mctl\x7f", "  ", "ends with newline\n", "  ", "dup", "dup", "dup",
]


class C12:
    id = "C12"
    module = "checks.c12"
    level = "exploration"
    tables = True
    rule = (
        "cases = operation sequences of 30 steps over {append (hostile text, rtn 0/1/2, optional leading-space flag), flush, flush(at_exit), clear, read everything} with buffersize in {1,2,3,10}, "
        "$HISTCONTROL subset of {ignoredups, ignoreerr, ignorespace}, $XONSH_STORE_STDOUT on/off, JSON or SQLite backend, with or without delay injection into flusher/reader code; plus a one-preemption sweep (each statement line of the flusher / reader / append code held in turn under three standard sequences) and a shell layer (prompt inputs - statements, commands, chains, blocks, continuations, duplicates, leading-space lines - through the real BaseShell.default); "
        "distinct_nontrivial = distinct (backend, buffersize, HISTCONTROL, op-kind sequence) with at least two flushes or a clear"
    )
    assumptions = [
        "every appended entry has a unique, strictly increasing ts[0], so duplicates in text stay distinguishable and SQLite's ORDER BY tsb is well defined",
        "entries a $HISTCONTROL rule may drop are optional wherever the implementation compares them (the statement does not say where `ignoredups` looks); entries no rule can drop are mandatory; `ignorespace` entries must be absent",
        "SQLite text is compared after rstrip() (documented); lone surrogates are not generated (SQLite cannot store them)",
        "file content is judged after all flusher threads of the history have finished",
    ]

    def shards(self, tier, seed):
        per = 120 if tier == "quick" else 2400
        out = [dict(kind="json", index=i, n=per, inject=(i % 2 == 1), timeout=420 if tier == "quick" else 3000) for i in range(12)]
        out += [dict(kind="sqlite", index=50 + i, n=per // 2, inject=False, timeout=420 if tier == "quick" else 3000) for i in range(4)]
        # one-preemption sweep: every statement line of the flusher / reader / append code in turn holds whichever thread
        # reaches it for a few milliseconds, under a few standard append/flush/read sequences
        out += [dict(kind="sweep", index=80 + i, nsweep=8, n=0, inject=False, timeout=420 if tier == "quick" else 3000) for i in range(8)]
        # shell layer: inputs typed at the prompt go through BaseShell.default -> _append_history: one entry per executed
        # input, verbatim, with its return code, and $LAST_RETURN_CODE in step
        out += [dict(kind="shell", index=95 + i, n=(25 if tier == "quick" else 400), inject=False, timeout=420 if tier == "quick" else 3000) for i in range(2)]
        return out

    def floors(self, c, tier):
        r = []
        if c.get("sequences", 0) < 1000:
            r.append("fewer than 1000 sequences")
        if c.get("reads_checked", 0) < 5000:
            r.append("fewer than 5000 read-backs checked")
        if c.get("lazyjson_nodes_checked", 0) < 5000:
            r.append("LazyJSON index under-exercised")
        if c.get("reads_while_flusher_pending", 0) < 200:
            r.append("fewer than 200 reads overlapped a pending flusher")
        if c.get("delays_injected", 0) < 200:
            r.append("delay injection did not reach the flusher/reader code")
        if c.get("shell_inputs_executed", 0) < 200:
            r.append("shell layer: fewer than 200 inputs went through BaseShell.default")
        if c.get("sweep_sites", 0) < 60 or c.get("sweep_forced_delays_taken", 0) < 200:
            r.append(f"one-preemption sweep covered too little ({c.get('sweep_sites', 0)} sites, {c.get('sweep_forced_delays_taken', 0)} forced delays)")
        return r

    def _setup(self):
        from vlib.session import make_session

        self.dd = os.path.join(os.environ["VERIF_SCRATCH"], f"data12-{os.getpid()}")
        os.makedirs(os.path.join(self.dd, "history_json"), exist_ok=True)
        self.XSH, _, _ = make_session([], env={"XONSH_DATA_DIR": self.dd}, data_dir=self.dd)
        self.n = 0
        self.inj = None

    def injector(self, seed):
        from vlib.sched import Injector
        import xonsh.history.json as J

        inj = Injector(seed, p=0.03, delays=(0.0, 0.0005, 0.002, 0.006), cap=0.25)
        inj.target(J.JsonHistoryFlusher.__init__, J.JsonHistoryFlusher.run, J.JsonHistoryFlusher.dump, J.JsonHistoryFlusher.i_am_at_the_front, J.JsonCommandField.__getitem__, J.JsonHistory.append, J.JsonHistory.flush, J.JsonHistory.__len__)
        return inj.start()

    # ------------------------------------------------------------------ oracle
    def judge_sequence(self, got, appended, opts, backend, where, rec, case, pre_clear_last=None):
        """got: list of (inp, rtn, ts0); appended: list of dicts in append order since the last clear."""
        strip = (lambda s: s.rstrip()) if backend == "sqlite" else (lambda s: s)
        upper = [a for a in appended if not ("ignorespace" in opts and a["spc"])]
        by_ts = {a["ts"][0]: a for a in upper}
        seen = set()
        last_pos = -1
        order = {a["ts"][0]: i for i, a in enumerate(upper)}
        for g in got:
            inp, rtn, ts0 = g
            a = by_ts.get(ts0)
            if a is None:
                rec.violation(f"{backend}/{where}/invented-or-excluded-entry-present", case, {"entry": [inp[:60], rtn, ts0]})
                return False
            if ts0 in seen:
                rec.violation(f"{backend}/{where}/duplicated-entry", case, {"entry": [inp[:60], rtn, ts0]})
                return False
            seen.add(ts0)
            if order[ts0] < last_pos:
                rec.violation(f"{backend}/{where}/reordered", case, {"entry": [inp[:60], rtn, ts0]})
                return False
            last_pos = order[ts0]
            if strip(a["inp"]) != strip(inp) if backend == "sqlite" else a["inp"] != inp:
                rec.violation(f"{backend}/{where}/text-altered", case, {"stored": inp[:80], "appended": a["inp"][:80]})
                return False
            if a["rtn"] != rtn:
                rec.violation(f"{backend}/{where}/return-code-altered", case, {"stored": rtn, "appended": a["rtn"]})
                return False
        # mandatory entries: no rule could drop them.  `ignoredups` compares with the previous *stored* entry, and which
        # entries were stored is itself uncertain: P = set of texts that may be the last stored one.
        P = set()
        for a in upper:
            t = a["inp"].rstrip()
            optional = ("ignoreerr" in opts and a["rtn"] != 0) or ("ignoredups" in opts and t in P)
            P = (P | {t}) if optional else {t}
            if not optional and a["ts"][0] not in seen:
                if backend == "sqlite" and "ignoredups" in opts and pre_clear_last is not None and t == pre_clear_last and not any(b["ts"][0] in seen for b in upper[: upper.index(a)]):
                    rec.violation("sqlite/entry-lost/first-command-after-clear-equals-the-last-command-before-it", case, {"entry": [a["inp"][:60], a["rtn"], a["ts"][0]]})
                    return False
                rec.violation(f"{backend}/{where}/entry-lost", case, {"entry": [a["inp"][:60], a["rtn"], a["ts"][0]], "stored": len(got), "appended": len(upper)})
                return False
        return True

    def read_all(self, h, rec, case, backend):
        """Every read path; returns list of (inp, rtn, ts0) or None after reporting."""
        try:
            n = len(h) if backend == "json" else len(h.inps)
            seq = []
            for i in range(n):
                seq.append((h.inps[i], h.rtns[i], h.tss[i][0]))
            if n:
                j = n // 2
                e = h[j]
                if (e.cmd, e.rtn, e.ts[0]) != seq[j]:
                    rec.violation(f"{backend}/index/h[i]-differs-from-fields", case, {"i": j})
                    return None
                sl = h.inps[max(0, j - 1): j + 2]
                if list(sl) != [s[0] for s in seq[max(0, j - 1): j + 2]]:
                    rec.violation(f"{backend}/index/slice-differs-from-items", case, {"i": j})
                    return None
                if h.inps[-1] != seq[-1][0]:
                    rec.violation(f"{backend}/index/negative-index-differs", case, None)
                    return None
            return seq
        except harness.CaseTimeout:
            raise
        except BaseException as x:  # noqa
            # the listed len()/index mismatch needs a rule that lets the flusher skip entries; without one it is something else
            skip_rules = set(case.get("histcontrol") or []) & {"ignoredups", "ignoreerr"}
            suffix = "" if (skip_rules or backend != "json") else "/no-skip-rule-in-HISTCONTROL"
            rec.violation(f"{backend}/index/read-raises-{type(x).__name__}{suffix}", case, {"msg": str(x)[:100]})
            return None

    def check_lazyjson(self, filename, rec, case):
        import xonsh.lib.lazyjson as LJ

        with open(filename, encoding="utf-8", newline="\n") as f:
            text = f.read()
        try:
            lj = LJ.LazyJSON(filename, reopen=False)
            plain = json.loads(text)["data"]
        except Exception as x:
            rec.violation("json/file/unloadable-after-flush", case, {"err": repr(x)[:120]})
            return None
        try:
            def walk(node, ref, path):
                rec.count("lazyjson_nodes_checked")
                if isinstance(ref, dict):
                    if set(node.keys()) != set(ref.keys()):
                        return path + ": keys"
                    for k in ref:
                        v = node[k]
                        r = walk(v, ref[k], path + "/" + str(k)) if isinstance(v, LJ.LJNode) else (None if v == ref[k] else path + "/" + str(k) + ": value")
                        if r:
                            return r
                elif isinstance(ref, list):
                    if len(node) != len(ref):
                        return path + ": len"
                    for i in range(len(ref)):
                        v = node[i]
                        r = walk(v, ref[i], path + f"[{i}]") if isinstance(v, LJ.LJNode) else (None if v == ref[i] else path + f"[{i}]: value")
                        if r:
                            return r
                    if node.load() != ref:
                        return path + ": load()"
                return None

            bad = walk(lj, plain, "")
            if bad is None and lj.load() != plain:
                bad = "<root>: load()"
        except Exception as x:
            bad = "exception " + repr(x)[:100]
        finally:
            lj.close()
        if bad:
            rec.violation("json/lazyjson/index-addresses-wrong-value", case, {"where": bad[:150]})
            return None
        return plain

    # ------------------------------------------------------------------ one sequence
    def run_case(self, case, rec):
        if not hasattr(self, "XSH"):
            self._setup()
        if case.get("backend") == "shell":
            return self.run_shell_case(case, rec)
        if case.get("forced_site") and self.inj is None:
            # replay of a sweep witness
            from vlib.sched import Injector
            import xonsh.history.json as J

            self.inj = Injector(0, p=0.0).target(J.JsonHistoryFlusher.__init__, J.JsonHistoryFlusher.run, J.JsonHistoryFlusher.dump, J.JsonHistoryFlusher.i_am_at_the_front, J.JsonCommandField.__getitem__, J.JsonCommandField.i_am_at_the_front, J.JsonHistory.append, J.JsonHistory.flush, J.JsonHistory.__len__).start()
            self.inj.forced = {(case["forced_site"][0], case["forced_site"][1]): case["forced_site"][2]}
        backend = case["backend"]
        rng = random.Random(case["rseed"])
        env = self.XSH.env
        opts = set(case["histcontrol"])
        env["HISTCONTROL"] = set(opts)
        env["XONSH_STORE_STDOUT"] = case["store_stdout"]
        env["XONSH_HISTORY_SAVE_CWD"] = True
        self.n += 1
        if backend == "json":
            import xonsh.history.json as J

            fn = os.path.join(self.dd, "history_json", f"xonsh-c{self.n}.json")
            h = J.JsonHistory(filename=fn, sessionid=f"c{self.n}", buffersize=case["bufsize"], gc=False)
        else:
            import xonsh.history.sqlite as S

            fn = os.path.join(self.dd, f"h{self.n}.sqlite")
            for attr in list(vars(S.XH_SQLITE_CACHE)):
                delattr(S.XH_SQLITE_CACHE, attr)
            h = S.SqliteHistory(gc=False, filename=fn, sessionid=f"c{self.n}")
        appended = []
        pre_clear_last = None
        flushers = []
        ts = 1_700_000_000.0 + self.n * 1000
        kinds = []
        nflush = 0
        try:
            with harness.alarm(120):
                for step in range(case["steps"]):
                    r = rng.random()
                    if r < 0.55:
                        ts += 1.0 + rng.random()
                        text = rng.choice(TEXTS)
                        spc = text.startswith(" ")
                        cmd = {"inp": text, "rtn": rng.choice([0, 0, 0, 1, 2]), "ts": [ts, ts + 0.5], "spc": spc, "cwd": "/w", "out": "o" + str(step)}
                        appended.append({"inp": text, "rtn": cmd["rtn"], "ts": [ts, ts + 0.5], "spc": spc})
                        hf = h.append(cmd)
                        if hf is not None:
                            flushers.append(hf)
                            nflush += 1
                        kinds.append("a")
                    elif r < 0.67 and backend == "json":
                        hf = h.flush(at_exit=rng.random() < 0.25)
                        if hf is not None:
                            flushers.append(hf)
                            nflush += 1
                        kinds.append("f")
                    elif r < 0.71:
                        for f in flushers:
                            if f.is_alive():
                                f.join(30)
                        stored_before = [a for a in appended if not ("ignorespace" in opts and a["spc"])]
                        if backend == "sqlite":
                            pre_clear_last = h._last_hist_inp if hasattr(h, "_last_hist_inp") else None
                        h.clear()
                        appended = []
                        kinds.append("c")
                    else:
                        kinds.append("r")
                        pending = any(getattr(f, "is_alive", lambda: False)() for f in flushers)
                        if pending:
                            rec.count("reads_while_flusher_pending")
                        seq = self.read_all(h, rec, case, backend)
                        if seq is None:
                            return
                        rec.count("reads_checked")
                        if not self.judge_sequence(seq, appended, opts, backend, "read-back", rec, case, pre_clear_last):
                            return
                        its = [(x["inp"], x["ts"]) for x in h.items()]
                        if [(s[0].rstrip(), s[2]) for s in seq] != [(a.rstrip(), b) for a, b in its]:
                            rec.violation(f"{backend}/items/differs-from-indexing", case, {"items": len(its), "indexed": len(seq)})
                            return
                # final: flush, wait for every flusher, decode the store
                if backend == "json":
                    hf = h.flush(at_exit=True)
                    for f in flushers:
                        if f.is_alive():
                            f.join(30)
                    plain = self.check_lazyjson(fn, rec, case)
                    if plain is None:
                        return
                    stored = [(c["inp"], c["rtn"], c["ts"][0]) for c in plain["cmds"]]
                    if not self.judge_sequence(stored, appended, opts, backend, "file-after-flush", rec, case):
                        return
                    if not case["store_stdout"] and any("out" in c for c in plain["cmds"]):
                        rec.violation("json/file/stdout-stored-although-disabled", case, None)
                        return
                    seq = self.read_all(h, rec, case, backend)
                    if seq is None:
                        return
                    if seq != stored:
                        rec.violation("json/index/read-back-differs-from-file-after-flush", case, {"read": len(seq), "file": len(stored)})
                        return
                else:
                    con = sqlite3.connect(fn)
                    rows = list(con.execute("SELECT inp, rtn, tsb FROM xonsh_history ORDER BY tsb"))
                    con.close()
                    if not self.judge_sequence(rows, appended, opts, backend, "table", rec, case, pre_clear_last):
                        return
                    ai = [(x["inp"], x["rtn"], x["ts"]) for x in h.all_items()]
                    if ai != rows:
                        rec.violation("sqlite/all_items/differs-from-table", case, None)
                        return
        except harness.CaseTimeout:
            rec.violation(f"{backend}/HANG", case, {"ops": "".join(kinds)})
            return
        except BaseException as x:  # noqa
            rec.violation(f"{backend}/EXCEPTION/{type(x).__name__}", case, {"msg": str(x)[:120], "ops": "".join(kinds)})
            return
        rec.count("sequences")
        rec.case(nontrivial=(backend, case["bufsize"], tuple(sorted(opts)), "".join(kinds)) if (nflush >= 2 or "c" in kinds) else None)

    SWEEP_CASES = [
        {"backend": "json", "rseed": "sweep/a", "steps": 30, "bufsize": 1, "histcontrol": [], "store_stdout": False, "inject": True},
        {"backend": "json", "rseed": "sweep/b", "steps": 30, "bufsize": 2, "histcontrol": ["ignoredups"], "store_stdout": False, "inject": True},
        {"backend": "json", "rseed": "sweep/c", "steps": 30, "bufsize": 3, "histcontrol": ["ignoreerr", "ignorespace"], "store_stdout": True, "inject": True},
    ]

    def run_sweep(self, sh, rec):
        from vlib.sched import Injector, _code_of
        import xonsh.history.json as J

        funcs = [J.JsonHistoryFlusher.__init__, J.JsonHistoryFlusher.run, J.JsonHistoryFlusher.dump, J.JsonHistoryFlusher.i_am_at_the_front, J.JsonCommandField.__getitem__, J.JsonCommandField.i_am_at_the_front, J.JsonHistory.append, J.JsonHistory.flush, J.JsonHistory.__len__]
        self.inj = Injector(0, p=0.0).target(*funcs).start()
        sites = []
        for f in funcs:
            c = _code_of(f)
            sites += [(c.co_name, ln) for ln in sorted({ln for _, _, ln in c.co_lines() if ln is not None and ln > c.co_firstlineno})]
        sites = sorted(set(sites))
        holds = [0.004] if sh["tier"] == "quick" else [0.002, 0.008, 0.03]
        mine = [(c, l, h) for (c, l) in sites[sh["index"] % sh["nsweep"] :: sh["nsweep"]] for h in holds]
        for k, (coname, ln, hold) in enumerate(harness.budgeted(mine, rec)):
            rec.count("sweep_sites")
            before = self.inj.stats()["delays_injected"]
            self.inj.forced = {(coname, ln): hold}
            for j, base in enumerate(self.SWEEP_CASES):
                case = dict(base, forced_site=[coname, ln, hold])
                if k == 0 and j == 0:
                    rec.sample(case, "sweep")
                self.inj.new_case()
                self.run_case(case, rec)
            rec.count("sweep_forced_delays_taken", self.inj.stats()["delays_injected"] - before)
        self.inj.forced = {}
        self.inj.stop()

    # ------------------------------------------------------------------ shell layer
    INPUTS = [
        # (lines typed, expected history text, expected return code); rc "py-ok" = 0, "py-exc" = 1
        (["x = 1"], "x = 1\n", 0), (["2 + 2"], "2 + 2\n", 0), (["hok a b"], "hok a b\n", 0), (["hfail3 x"], "hfail3 x\n", 3), (["hok a && hfail3 b"], "hok a && hfail3 b\n", 3),
        (["hfail3 a || hok b"], "hfail3 a || hok b\n", 0), (["hfail3 a | hok b"], "hfail3 a | hok b\n", 0), (["hok a | hfail3 b"], "hok a | hfail3 b\n", 3), (["1 / 0"], "1 / 0\n", 1),
        (["y = $(hok q)"], "y = $(hok q)\n", 0), (["z = !(hfail3 q)"], "z = !(hfail3 q)\n", None), (["hok '\u00fcn\u00ef \U0001f600'"], "hok '\u00fcn\u00ef \U0001f600'\n", 0),
        (["if True:", "    hok in-block", ""], "if True:\n    hok in-block\n\n", 0), (["for i in range(2):", "    hfail3 loop", ""], "for i in range(2):\n    hfail3 loop\n\n", 3),
        (["def f():", "    return 1", ""], "def f():\n    return 1\n\n", 0), (["hok \'\'\'multi", "line\'\'\'", ""], "hok \'\'\'multi\nline\'\'\'\n\n", 0), (["hok a \\", "  b", ""], "hok a \\\n  b\n\n", 0),
        ([" hok leading-space"], " hok leading-space\n", 0), (["hok dup"], "hok dup\n", 0), (["hok dup"], "hok dup\n", 0), (["hfail3 dup"], "hfail3 dup\n", 3),
    ]

    def run_shell_case(self, case, rec):
        """A sequence of prompt inputs through the real BaseShell.default with a JSON history attached."""
        import contextlib
        import io

        import xonsh.history.json as J
        from xonsh.shells.base_shell import BaseShell

        rng = random.Random(case["rseed"])
        XSH = self.XSH
        env = XSH.env
        opts = set(case["histcontrol"])
        env["HISTCONTROL"] = set(opts)
        env["XONSH_STORE_STDOUT"] = False
        env["XONSH_SUBPROC_RAISE_ERROR"] = False
        self.n += 1
        fn = os.path.join(self.dd, "history_json", f"xonsh-sh{self.n}.json")
        h = J.JsonHistory(filename=fn, sessionid=f"sh{self.n}", buffersize=case["bufsize"], gc=False)
        old_hist = XSH.history
        XSH.history = h
        XSH.aliases["hok"] = lambda args: 0
        XSH.aliases["hfail3"] = lambda args: 3
        ctx = {}
        shell = BaseShell(execer=XSH.execer, ctx=ctx)
        expected = []  # (text, rc, leading-space)
        try:
            with harness.alarm(120), contextlib.redirect_stdout(io.StringIO()), contextlib.redirect_stderr(io.StringIO()):
                for _ in range(case["steps"]):
                    lines, text, rc = rng.choice(self.INPUTS)
                    for ln in lines:
                        shell.precmd(ln)
                        if ln == "":
                            shell.emptyline()
                        else:
                            shell.default(ln)
                    if shell.need_more_lines:
                        rec.violation("shell/input-left-incomplete", case, {"lines": lines})
                        shell.reset_buffer()
                        continue
                    rec.count("shell_inputs_executed")
                    expected.append((text, rc, text[:1].isspace()))
                    lrc = env.get("LAST_RETURN_CODE")
                    if rc is not None and lrc != rc:
                        rec.violation("shell/LAST_RETURN_CODE-differs-from-the-command's-return-code", case, {"input": text, "expected": rc, "got": lrc})
                        return
                    from vlib.session import settle

                    settle(2)
                hf = h.flush(at_exit=True)
        except harness.CaseTimeout:
            rec.violation("shell/HANG", case, None)
            return
        except BaseException as x:  # noqa
            rec.violation(f"shell/EXCEPTION/{type(x).__name__}", case, {"msg": str(x)[:120]})
            return
        finally:
            XSH.history = old_hist
        import xonsh.lib.lazyjson as LJ

        try:
            lj = LJ.LazyJSON(fn, reopen=False)
            stored = [(c["inp"], c["rtn"]) for c in lj.load()["cmds"]]
            lj.close()
        except Exception as x:  # noqa
            rec.violation("shell/history-file-unloadable", case, {"err": repr(x)[:100]})
            return
        rec.case(nontrivial=(tuple(t for t, _, _ in expected), tuple(sorted(opts)), case["bufsize"]))
        rec.count("sequences")
        # one entry per executed input, in order, verbatim, with its return code; entries a $HISTCONTROL rule may drop are optional
        i = 0
        prev_stored = None
        for text, rc, spc in expected:
            optional = ("ignorespace" in opts and spc) or ("ignoreerr" in opts and rc not in (0, None)) or ("ignoredups" in opts and prev_stored is not None and text.rstrip() == prev_stored.rstrip())
            same = i < len(stored) and stored[i][0] in (text, textwrap.dedent(text))  # the shell deindents what was typed (documented `spc` flag keeps the fact)
            if same and (rc is None or stored[i][1] == rc):
                prev_stored = text
                i += 1
            elif same:
                rec.violation("shell/history-entry-has-the-wrong-return-code", case, {"input": text, "expected": rc, "stored": stored[i][1]})
                return
            elif not optional:
                rec.violation("shell/executed-input-missing-from-history-or-altered", case, {"input": text, "next_stored": stored[i] if i < len(stored) else None, "position": i})
                return
        if i != len(stored):
            rec.violation("shell/history-holds-an-entry-nobody-typed", case, {"extra": stored[i: i + 2]})

    def run_shard(self, sh, rec):
        self._setup()
        if sh["kind"] == "sweep":
            return self.run_sweep(sh, rec)
        if sh["kind"] == "shell":
            rng = random.Random(f"{sh['seed']}/C12/shell/{sh['index']}")
            for i in harness.budgeted(range(sh["n"]), rec):
                hc = [o for o in ("ignoredups", "ignoreerr", "ignorespace") if rng.random() < 0.3]
                case = {"backend": "shell", "rseed": f"{sh['seed']}/C12/shell/{sh['index']}/{i}", "steps": 14, "bufsize": rng.choice([1, 3, 100]), "histcontrol": hc}
                if i < 1:
                    rec.sample(case, "shell")
                self.run_shell_case(case, rec)
            return
        rng = random.Random(f"{sh['seed']}/C12/{sh['index']}")
        if sh["inject"]:
            self.inj = self.injector(sh["seed"])
        for i in harness.budgeted(range(sh["n"]), rec):
            hc = [o for o in ("ignoredups", "ignoreerr", "ignorespace") if rng.random() < 0.35]
            case = {"backend": sh["kind"], "rseed": f"{sh['seed']}/C12/{sh['index']}/{i}", "steps": 30, "bufsize": rng.choice([1, 2, 3, 10]), "histcontrol": hc, "store_stdout": rng.random() < 0.3, "inject": sh["inject"]}
            if i < 1:
                rec.sample(case, sh["kind"])
            if self.inj:
                self.inj.new_case()
            self.run_case(case, rec)
        if self.inj:
            st = self.inj.stats()
            rec.count("delays_injected", st["delays_injected"])
            rec.count("line_events", st["line_events"])
            for f in st["functions_hit"]:
                rec.setadd("functions_hit", f)
            self.inj.stop()


CHECK = C12()

if __name__ == "__main__":
    harness.main(CHECK)
