"""C10 - the typed environment survives the trip to child processes and back.

(a) round trip: for every registered variable (and the *PATH / *DIRS patterns) and generated
valid values of its type, Env({k: detype(v)})[k] must equal v;
(b) launch-time image: random histories of set / delete / in-place mutation (fresh read and held
reference) / swap / `$K=v cmd` overlay / UPDATE_OS_ENVIRON toggles interleaved with detype() reads
and launches; what prep_env_subproc builds and what a real child prints with `env -0` must be the
reference rendering of the typed values at launch time.
"""

import os
import pathlib
import random
import warnings

from vlib import harness

warnings.simplefilter("ignore")


def gen_for(name, var, EnvPath):
    v = getattr(var.validate, "__name__", "")
    S = ["", "a", "a b", "/x:/y", "~", "\u00fc", "0", "1", "true", "False", "a,b", " x ", "$HOME", "=", "\t", "q'\""]
    if v == "is_bool":
        return [True, False]
    if v == "is_int":
        return [0, 1, -1, 10**9]
    if v == "is_float":
        return [0.0, 0.5, 1e-9, 1e20, -2.5]
    if v in ("is_string", "is_string_or_callable"):
        return S
    if v == "is_env_path":
        return [EnvPath([]), EnvPath(["/a"]), EnvPath(["/a", "/b c"]), EnvPath(["~/x", "rel", "/a", "/a"]), EnvPath([pathlib.Path("/p")]), EnvPath(["/with space", "/\u00fc"])]
    if v == "is_path":
        return [pathlib.Path("/a/b"), pathlib.Path("rel"), pathlib.Path(".")]
    if v == "is_string_set":
        return [set(), {"ignoredups"}, {"ignoredups", "ignoreerr"}, {"erasedups", "ignorespace", "ignoredups"}]
    if v == "is_history_tuple":
        return [(0, "commands"), (8128, "commands"), (3, "files"), (1.5, "s"), (3600, "s"), (1024, "b"), (10, "b")]
    if v == "is_bool_or_none":
        return [True, False, None]
    if v == "is_bool_or_int":
        return [True, False, 0, 1, 5]
    if v == "is_dynamic_cwd_width":
        return [(20.0, "c"), (50.0, "%"), (float("inf"), "c")]
    if v == "is_logfile_opt":
        return [None, "/tmp/x.log", False]
    if v == "is_nonstring_seq_of_strings":
        return [[".EXE", ".BAT"], []]
    if v == "is_valid_shlvl":
        return [0, 1, 999]
    if v == "is_completions_display_value":
        return ["none", "single", "multi"]
    if v == "is_completion_mode":
        return ["default", "menu-complete"]
    if v == "is_regex":
        return ["", "a.*", "^\\s"]
    if v == "is_tok_color_dict":
        return [{}]
    if v == "is_history_backend":
        return ["json", "sqlite", "dummy"]
    if v == "is_callable":
        return None
    return None


TRACK = ["VSTR", "VSTR2", "VFOOPATH", "V_DIRS", "AUTO_CD", "XONSH_DEBUG", "PATH", "VNUMSTR"]


def render(k, v):
    """Independent rendering of a typed value (10 lines, not xonsh's detypers)."""
    if v is None:
        return None
    if k.endswith("PATH") or k.endswith("_DIRS"):
        return os.pathsep.join(str(x) for x in v)
    if isinstance(v, bool):
        return "1" if v else ""
    return str(v)


class C10:
    id = "C10"
    module = "checks.c10"
    level = "exploration"
    tables = True
    rule = (
        "cases = (registered variable or name pattern, generated valid typed value) round trips, and histories of 12 ops over {set, del, append through a fresh read, append through "
        "a held reference, swap scope, `$K=v cmd` overlay, UPDATE_OS_ENVIRON toggle, judged detype() read, in-place $LS_COLORS colour/target edits, launch via prep_env_subproc (plain, in a swap, with spec env, inside nested overlay frames with masks), launch of a real `env -0` child}; "
        "distinct_nontrivial = distinct (variable, value) pairs plus distinct histories containing a mutation followed by a launch"
    )
    assumptions = [
        "a value is valid when the variable's own validator accepts it; path-typed variables are compared as the file they denote from the current directory (their detyper absolutises by design)",
        "string-set elements containing the separator are outside the value space and are not generated",
        "the reference image is computed after the system has produced its answer (reading a mutable value drops the detype cache and would mask the defect looked for)",
        "only the harness' tracked variables are compared in launch images; other keys of the child environment are required to be str->str and free of the DELETE_VAR repr",
    ]

    def shards(self, tier, seed):
        per = 150 if tier == "quick" else 4000
        out = [dict(kind="roundtrip", index=0, timeout=300)]
        out += [dict(kind="hist", index=1 + i, n=per, real=(12 if tier == "quick" else 150), timeout=420 if tier == "quick" else 3000) for i in range(14)]
        return out

    def floors(self, c, tier):
        r = []
        if c.get("roundtrips", 0) < 300:
            r.append("fewer than 300 round trips")
        if c.get("launch_images_checked", 0) < 1000:
            r.append("fewer than 1000 launch images checked")
        if c.get("real_child_launches", 0) < 50:
            r.append("fewer than 50 real child launches")
        if c.get("held_reference_mutations_before_launch", 0) < 50:
            r.append("held-reference mutation before launch under-exercised")
        return r

    def _setup(self):
        from vlib.session import make_sandbox_path, make_session

        self.sb = make_sandbox_path(os.environ["VERIF_SCRATCH"])
        self.XSH, self.ex, self.ctx = make_session([self.sb])
        from xonsh.environ import Env, EnvPath

        self.Env, self.EnvPath = Env, EnvPath

    # ------------------------------------------------------------------ (a)
    def run_roundtrip(self, rec):
        Env, EnvPath = self.Env, self.EnvPath
        base = Env({"HOME": os.environ["HOME"]})
        items = sorted(base._vars.items())
        extra = {"FOOPATH": [EnvPath(["/a", "/b"]), EnvPath([]), EnvPath(["/x y"])], "BAR_DIRS": [EnvPath(["/d"]), EnvPath(["/d", "/e"])], "PLAINVAR": ["", "s", "a:b", "1", "True"]}
        families = set()
        for k, var in items:
            vals = gen_for(k, var, EnvPath)
            vname = getattr(var.validate, "__name__", "?")
            if var.detype is None:
                rec.count("skipped_undetypable")
                continue
            if vals is None:
                rec.count("skipped_no_generator")
                rec.setadd("validators_without_generator", vname)
                continue
            families.add(vname)
            for val in vals:
                self.one_roundtrip(rec, k, val, var.validate, var.detype, vname)
        for k, vals in extra.items():
            for val in vals:
                e = Env({"HOME": os.environ["HOME"]})
                self.one_roundtrip(rec, k, val, e.get_validator(k), e.get_detyper(k), "pattern:" + k)
        # default value of every registered variable
        for k, var in items:
            if var.detype is None:
                continue
            try:
                val = base[k]
            except Exception:
                continue
            if callable(val):
                continue
            self.one_roundtrip(rec, k, val, var.validate, var.detype, "default:" + getattr(var.validate, "__name__", "?"), is_default=True)
        rec.count("converter_families_covered", len(families))

    def one_roundtrip(self, rec, k, val, validate, detype, vname, is_default=False):
        Env, EnvPath = self.Env, self.EnvPath
        case = {"kind": "roundtrip", "var": k, "value": repr(val)[:80], "family": vname}
        try:
            if not validate(val):
                rec.count("skipped_value_invalid_for_variable")
                return
        except Exception:
            rec.count("skipped_value_invalid_for_variable")
            return
        if vname.replace("default:", "") == "always_true":
            rec.count("informational_untyped_variable_not_judged")
            return
        rec.case(nontrivial=(k, repr(val)))
        rec.count("roundtrips")
        try:
            s = detype(val)
        except Exception as e:
            rec.violation(f"ROUNDTRIP/detype-raises/{vname.split(':')[0] if is_default else vname}", case, {"err": repr(e)[:120]})
            return
        if s is None:
            rec.count("detype_none_omitted")
            return
        if not isinstance(s, str):
            rec.violation(f"ROUNDTRIP/detype-returns-non-str/{vname}", case, {"type": type(s).__name__})
            return
        try:
            back = Env({"HOME": os.environ["HOME"], k: s})[k]
        except Exception as e:
            rec.violation(f"ROUNDTRIP/convert-raises/{vname}", case, {"str": s[:80], "err": repr(e)[:120]})
            return
        same = False
        try:
            if isinstance(val, EnvPath) or hasattr(back, "_l"):
                a = [os.path.abspath(os.path.expanduser(str(x))) for x in val]
                b = [os.path.abspath(os.path.expanduser(str(x))) for x in back]
                same = a == b
            elif isinstance(val, pathlib.PurePath) or vname.endswith("is_path"):
                same = os.path.abspath(str(val)) == os.path.abspath(str(back))
            elif getattr(detype, "__name__", "") == "abs_path_to_str" or "abs_path" in getattr(detype, "__name__", ""):
                same = os.path.abspath(os.path.expanduser(str(val))) == os.path.abspath(os.path.expanduser(str(back)))
            else:
                same = back == val and (type(back) is type(val) or isinstance(val, (int, float)) and isinstance(back, (int, float)) and not isinstance(val, bool) and not isinstance(back, bool))
        except Exception:
            same = False
        if same:
            rec.count("roundtrip_ok")
            return
        if val is None and back == "":
            mech = "ROUNDTRIP/None-becomes-empty-string/" + vname.replace("default:", "")
        elif val is False and back in ("", None) and "logfile" in vname:
            mech = "ROUNDTRIP/False-logfile-option-lost/" + vname.replace("default:", "")
        else:
            mech = f"ROUNDTRIP/value-differs/{vname}"
        rec.violation(mech, case, {"str": s[:80], "back": repr(back)[:80]})

    # ------------------------------------------------------------------ (b)
    def fresh_env(self):
        env = self.Env({
            "HOME": os.environ["HOME"], "PATH": [self.sb], "VSTR": "s0", "VFOOPATH": ["/a", "/b"], "VNUMSTR": "7",
            "XONSH_SHOW_TRACEBACK": False, "XONSH_SUBPROC_RAISE_ERROR": False, "UPDATE_OS_ENVIRON": False, "THREAD_SUBPROCS": False,
            "XONSH_DATA_DIR": os.environ["XONSH_DATA_DIR"], "XONSH_CACHE_DIR": os.environ["XONSH_CACHE_DIR"], "PYTHONPATH": os.environ.get("PYTHONPATH", ""),
        })
        env["LS_COLORS"] = "di=01;34:ln=01;36:ex=01;32"
        self.XSH.env = env
        self.XSH.interface.env = env
        self.XSH.commands_cache.env = env
        return env

    def lscolors_check(self, rec, case, trace, got_str, env, how):
        """round trip of the launch-time string: converting what the child receives back must give the live mapping
        (colours and `target` flags) - whatever in-place edits preceded the launch"""
        from xonsh.environ import LsColors

        rec.count("lscolors_images_checked")
        live = env["LS_COLORS"]
        want = {k: ("target" if live.is_target(k) else tuple(live[k])) for k in live}
        if got_str is None:
            rec.violation(f"IMAGE/{how}/LS_COLORS-missing", dict(case, steps=trace), None)
            return False
        back = LsColors.fromstring(got_str)
        have = {k: ("target" if back.is_target(k) else tuple(back[k])) for k in back}
        if want != have:
            ks = sorted(k for k in set(want) | set(have) if want.get(k) != have.get(k))
            rec.violation(f"IMAGE/{how}/LS_COLORS-string-does-not-convert-back-to-the-live-value", dict(case, steps=trace), {"keys": ks[:4], "live": {k: want.get(k) for k in ks[:4]}, "from_child_string": {k: have.get(k) for k in ks[:4]}, "last_ops": trace[-4:]})
            return False
        return True

    def image_check(self, rec, case, trace, got, model, how, overlay=None):
        """got: mapping handed to / printed by the child."""
        rec.count("launch_images_checked")
        exp = dict(model)
        if overlay:
            exp.update(overlay)
        bad = [(k, v) for k, v in got.items() if not isinstance(k, str) or not isinstance(v, str)]
        if bad:
            rec.violation("IMAGE/non-str-key-or-value-reaches-child", dict(case, steps=trace), {"bad": repr(bad[:3])})
            return False
        if any("DELETE_VAR" in v for v in got.values()):
            rec.violation("IMAGE/DELETE_VAR-sentinel-reaches-child", dict(case, steps=trace), None)
            return False
        for k in TRACK:
            want = render(k, exp.get(k)) if k in exp else None
            have = got.get(k)
            if k in ("AUTO_CD", "XONSH_DEBUG") and k not in exp:
                want = None  # default-valued and never set: must not be exported
            if want != have:
                kind = "stale-value" if (have is not None and want is not None) else ("missing-variable" if have is None else "extra-variable")
                scoped = {"prep-swap": ("VSTR", "VSTR2"), "prep-spec-env": ("VSTR", "VNUMSTR"), "real-prefix": ("VSTR", "VSTR2")}
                dels = [i for i, t in enumerate(trace) if t[0] == "del" and t[1] == k]
                if kind == "extra-variable" and dels and any(t[0] == "launch" and k in scoped.get(t[1], ()) for t in trace[: dels[-1]]):
                    rec.violation("IMAGE/variable-deleted-after-a-scoped-override-is-still-exported", dict(case, steps=trace), {"key": k, "got": have, "last_ops": trace[-4:]})
                    return False
                muts = [t for t in trace if t[0] in ("set", "del", "append-fresh-read", "append-held-reference") and t[1] == k]
                if kind == "stale-value" and muts and muts[-1][0] == "append-held-reference" and how in ("prep_env_subproc", "detype()"):
                    # the last edit of this variable went through a reference obtained earlier; nothing read the variable since
                    rec.violation("IMAGE/in-place-edit-through-a-held-reference-not-seen-by-the-cached-mapping", dict(case, steps=trace), {"key": k, "expected": want, "got": have, "last_ops": trace[-4:]})
                    return False
                rec.violation(f"IMAGE/{how}/{kind}", dict(case, steps=trace), {"key": k, "expected": want, "got": have, "last_ops": trace[-4:]})
                return False
        return True

    def run_hist(self, case, rec):
        from xonsh.procs.specs import SubprocSpec

        env = self.fresh_env()
        rng = random.Random(case["rseed"])
        model = {"VSTR": "s0", "VFOOPATH": ["/a", "/b"], "VNUMSTR": "7", "PATH": [self.sb]}
        held = {}
        trace = []
        mutated_then_launched = False
        pending_mut = False
        real_budget = case.get("real", 0)
        ls_focus = rng.random() < 0.3  # a third of the histories edit $LS_COLORS in place again and again between launches
        for step in range(case["steps"]):
            r = rng.random()
            if ls_focus and rng.random() < 0.35:
                k = rng.choice(["ln", "or"])
                v = rng.choice(["target", ("RESET",), ("RESET",), ("RED",)])
                env["LS_COLORS"][k] = v
                rec.count("lscolors_in_place_edits")
                trace.append(["lscolors-set", k, v])
                continue
            if r < 0.14:
                k = rng.choice(["VSTR", "VSTR2", "VNUMSTR"])
                v = rng.choice(["x", "y z", "", "\u00fc", "a=b", "1"])
                env[k] = v
                model[k] = v
                trace.append(["set", k, v])
            elif r < 0.22:
                k = rng.choice(["VFOOPATH", "V_DIRS"])
                v = rng.choice([["/p"], ["/p", "/q r"], []])
                env[k] = list(v)
                model[k] = list(v)
                held.pop(k, None)
                trace.append(["set", k, v])
            elif r < 0.28:
                k = rng.choice(["AUTO_CD", "XONSH_DEBUG"])
                v = rng.choice([True, False]) if k == "AUTO_CD" else rng.choice([0, 1, 2])
                env[k] = v
                model[k] = v
                trace.append(["set", k, v])
            elif r < 0.36:
                k = rng.choice([x for x in ("VSTR", "VSTR2", "VFOOPATH", "V_DIRS", "VNUMSTR", "AUTO_CD") if x in model] or ["VSTR"])
                if k in model:
                    del env[k]
                    del model[k]
                    held.pop(k, None)
                    trace.append(["del", k])
            elif r < 0.46:
                k = rng.choice(["VFOOPATH", "V_DIRS", "PATH"])
                if k in model:
                    x = "/m%d" % rng.randint(0, 99)
                    env[k].append(x)
                    model[k] = model[k] + [x]
                    pending_mut = True
                    trace.append(["append-fresh-read", k, x])
            elif r < 0.52:
                k = rng.choice(["VFOOPATH", "V_DIRS", "PATH"])
                if k in model:
                    held[k] = env[k]
                    trace.append(["hold-reference", k])
            elif r < 0.62:
                ks = [k for k in held if k in model]
                if ks:
                    k = rng.choice(ks)
                    x = "/h%d" % rng.randint(0, 99)
                    held[k].append(x)
                    model[k] = model[k] + [x]
                    pending_mut = True
                    rec.count("held_reference_mutations")
                    trace.append(["append-held-reference", k, x])
            elif r < 0.66:
                got = dict(env.detype())
                trace.append(["detype-read"])
                # the mapping a child launched right now would be handed (prep_env_subproc = swap + detype)
                rec.count("direct_detype_reads_checked")
                if not self.image_check(rec, case, list(trace), got, model, "detype()"):
                    return
            elif r < 0.70:
                k = rng.choice(["ln", "di", "or", "ex"])
                v = rng.choice(["target", ("RESET",), ("RESET",), ("BOLD_BLUE",), ("RED",)])
                env["LS_COLORS"][k] = v
                rec.count("lscolors_in_place_edits")
                trace.append(["lscolors-set", k, v])
            elif r < 0.74:
                v = rng.random() < 0.5
                try:
                    env["UPDATE_OS_ENVIRON"] = v
                except Exception as e:
                    rec.violation("UPDATE_OS_ENVIRON/toggle-raises", dict(case, steps=trace), {"err": repr(e)[:100]})
                    return
                trace.append(["UPDATE_OS_ENVIRON", v])
            else:
                # ---- a launch
                how = rng.choice(["prep", "prep", "prep-swap", "prep-spec-env", "prep-nested-overlays", "real", "real-prefix"])
                if how.startswith("real") and real_budget <= 0:
                    how = "prep"
                if pending_mut:
                    mutated_then_launched = True
                    if any(t[0] == "append-held-reference" for t in trace[-3:]):
                        rec.count("held_reference_mutations_before_launch")
                pending_mut = False
                overlay = None
                try:
                    if how == "prep":
                        spec = SubprocSpec.build(["env"])
                        kw = {}
                        spec.prep_env_subproc(kw)
                        got = kw["env"]
                    elif how == "prep-swap":
                        overlay = {"VSTR": "swapped", "VSTR2": "sw2"}
                        with env.swap(**overlay):
                            spec = SubprocSpec.build(["env"])
                            kw = {}
                            spec.prep_env_subproc(kw)
                            got = kw["env"]
                    elif how == "prep-nested-overlays":
                        # two overlay frames on one thread (an alias with `env` calling another one): the inner frame wins,
                        # a mask in the inner frame hides the outer frame's and the session's value
                        from xonsh.environ import DELETE_VAR

                        outer = {"VSTR": "outer", "VSTR2": "o2", "VNUMSTR": "5"}
                        inner = {"VSTR": "inner", "VSTR2": DELETE_VAR}
                        if rng.random() < 0.3:
                            inner["VNUMSTR"] = DELETE_VAR
                        overlay = {"VSTR": "inner", "VNUMSTR": "5"}
                        with env.swap(overlay=dict(outer)):
                            with env.swap(overlay=dict(inner)):
                                spec = SubprocSpec.build(["env"])
                                kw = {}
                                spec.prep_env_subproc(kw)
                                got = kw["env"]
                        masked = [k for k, v in inner.items() if v is DELETE_VAR]
                        rec.count("nested_overlay_launches")
                    elif how == "prep-spec-env":
                        overlay = {"VSTR": "fromspec", "VNUMSTR": "8"}
                        spec = SubprocSpec.build(["env"], env=dict(overlay))
                        kw = {}
                        spec.prep_env_subproc(kw)
                        got = kw["env"]
                    else:
                        real_budget -= 1
                        rec.count("real_child_launches")
                        if how == "real-prefix":
                            overlay = {"VSTR": "pfx", "VSTR2": "p2"}
                            src = "$VSTR='pfx' $VSTR2='p2' env -0"
                        else:
                            src = "env -0"
                        out = self.ex.eval("$(" + src + ")", glbs=self.ctx, locs=self.ctx)
                        got = dict(x.split("=", 1) for x in out.split("\0") if "=" in x)
                except Exception as e:
                    rec.violation(f"LAUNCH/{how}/raises-{type(e).__name__}", dict(case, steps=trace), {"err": str(e)[:150]})
                    return
                trace.append(["launch", how])
                m2 = model
                if how == "prep-nested-overlays":
                    m2 = {k: v for k, v in model.items() if k not in masked}
                    overlay = {k: v for k, v in overlay.items() if k not in masked}
                if not self.image_check(rec, case, list(trace), got, m2, how.split("-")[0] if how.startswith("real") else "prep_env_subproc", overlay):
                    return
                if not self.lscolors_check(rec, case, list(trace), got.get("LS_COLORS"), env, how.split("-")[0] if how.startswith("real") else "prep_env_subproc"):
                    return
                # after a scoped launch nothing of the overlay may remain
                if overlay:
                    kw = {}
                    SubprocSpec.build(["env"]).prep_env_subproc(kw)
                    if not self.image_check(rec, case, list(trace) + [["launch", "after-scope"]], kw["env"], model, "after-scoped-launch"):
                        return
        env["UPDATE_OS_ENVIRON"] = False
        # ---- the optional mirror into os.environ, probed at the end of every history: assignments, scopes and deletions
        # must show in os.environ while $UPDATE_OS_ENVIRON is on, and a scope must put the outer value back there too
        try:
            k, g, sc = rng.choice([("VSTR", "g%d" % rng.randint(0, 9), "scoped"), ("VNUMSTR", "5", "6"), ("VFOOPATH", ["/g", "/h"], ["/scoped"])])
            show = lambda v: os.pathsep.join(v) if isinstance(v, list) else v
            env["UPDATE_OS_ENVIRON"] = True
            env[k] = g
            probe = [os.environ.get(k)]
            with env.swap(**{k: sc}):
                probe.append(os.environ.get(k))
            probe.append(os.environ.get(k))
            kw = {}
            with env.swap(overlay={k: sc}):
                SubprocSpec.build(["env"]).prep_env_subproc(kw)
            probe.append(os.environ.get(k))
            del env[k]
            probe.append(os.environ.get(k))
            want = [show(g), show(sc), show(g), show(g), None]
            rec.count("os_environ_mirror_probes")
            if probe != want:
                which = ["assignment-not-mirrored", "scoped-value-not-mirrored", "scoped-value-left-behind-after-the-scope", "overlay-launch-changed-os-environ", "deletion-not-mirrored"][[a == b for a, b in zip(probe, want)].index(False)]
                rec.violation("OS-ENVIRON-MIRROR/" + which, dict(case, steps=list(trace) + [["mirror-probe", k]]), {"key": k, "os_environ_seen": probe, "expected": want})
        finally:
            env["UPDATE_OS_ENVIRON"] = False
            if k in model:
                env[k] = model[k]
        # ---- a variable whose default is computed on first read, read (and edited in place) for the first time *after* a
        # mapping for children was built: it is part of the environment from then on and the next mapping must carry it
        from xonsh.environ import Env as _Env

        e2 = _Env({"HOME": os.environ["HOME"], "VSTR": "x"})
        key = rng.choice(["XDG_DATA_DIRS", "XONSH_COMPLETER_DIRS"])
        e2.detype()
        first = e2[key]
        edit = rng.random() < 0.7
        if edit:
            first.append("/c10-probe")
        d2 = e2.detype()
        rec.count("first_reads_of_a_computed_default_after_detype")
        wantv = os.pathsep.join(str(x) for x in first)
        if d2.get(key) != wantv:
            rec.violation("IMAGE/computed-default-read-after-a-cached-mapping-missing-from-the-next-one", dict(case, steps=list(trace) + [["first-read", key, edit]]), {"key": key, "child_would_get": d2.get(key), "expected": wantv})
        rec.case(nontrivial=case["rseed"] if mutated_then_launched else None)

    def run_case(self, case, rec):
        if not hasattr(self, "XSH"):
            self._setup()
        if case["kind"] == "roundtrip":
            self.one_roundtrip_replay(case, rec) if "var" in case else self.run_roundtrip(rec)
        else:
            self.run_hist(case, rec)

    def one_roundtrip_replay(self, case, rec):
        self.run_roundtrip(rec)

    def run_shard(self, sh, rec):
        self._setup()
        if sh["kind"] == "roundtrip":
            self.run_roundtrip(rec)
            rec.sample({"kind": "roundtrip", "var": "XONSH_HISTORY_SIZE", "value": "(8128, 'commands')"}, "roundtrip")
            return
        saved = dict(os.environ)
        for i in harness.budgeted(range(sh["n"]), rec):
            case = {"kind": "hist", "rseed": f"{sh['seed']}/C10/{sh['index']}/{i}", "steps": 12, "real": 1 if i < sh["real"] else 0}
            if i < 1:
                rec.sample(case, "history")
            self.run_hist(case, rec)
            os.environ.clear()
            os.environ.update(saved)


CHECK = C10()

if __name__ == "__main__":
    harness.main(CHECK)
