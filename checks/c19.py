"""C19 - cached bytecode never changes what a script does.

(a) histories of write / edit (mtime forced strictly newer) / touch / run steps with every
combination of the cache switches: each cached run (run_script_with_cache / run_code_with_cache on the
real Execer) must be observably identical (stdout, exception type, namespace effects) to the same
step executed with caching disabled in a twin data directory; the same text is run via the -c
(single), stdin (exec) and script paths; (b) for every corruption of a cache file - EVERY truncation
length, zero-filled tails, foreign xonsh / Python version headers, non-marshal payload, a directory or
an unreadable file in its place, a read-only cache directory - the run must equal the uncached run
and never terminate abnormally; (c) a few real CLI runs for the process-level view.
"""

import contextlib
import io
import marshal
import os
import random
import shutil
import subprocess
import sys

from vlib import harness

BODIES = [
    "x = {n}\nprint('v', x)\n", "def f():\n    return {n} * 2\nprint(f())\n", "import math\nprint(math.floor({n}.5))\ny = [i for i in range({n} % 5)]\nprint(y)\n",
    "print('a{n}')\nraise ValueError('boom{n}')\n", "z = {n}\nprint(z + 1) if z % 2 else print(z - 1)\n", "s = 'é{n}'\nprint(s * 2)\n", "{n}\n", "'str{n}'\n", "print({n}); {n} + 1\n",
]


def classify_payload(payload):
    """What CPython's marshal says about a payload, asked in a throw-away child with a 2 s / 1 GiB leash (a damaged length
    field can make marshal allocate or spin): '' = loads, exception type name = refuses, None = neither within the leash."""
    import resource
    import signal

    r, w = os.pipe()
    pid = os.fork()
    if pid == 0:
        try:
            os.close(r)
            resource.setrlimit(resource.RLIMIT_AS, (1 << 30, 1 << 30))
            signal.signal(signal.SIGALRM, signal.SIG_DFL)
            signal.alarm(2)
            try:
                marshal.loads(payload)
                os.write(w, b"+")
            except MemoryError:
                pass
            except BaseException as e:  # noqa
                os.write(w, b"-" + type(e).__name__.encode())
        finally:
            os._exit(0)
    os.close(w)
    out = b""
    while True:
        chunk = os.read(r, 256)
        if not chunk:
            break
        out += chunk
    os.close(r)
    os.waitpid(pid, 0)
    if out.startswith(b"+"):
        return ""
    if out.startswith(b"-"):
        return out[1:].decode()
    return None


class C19:
    id = "C19"
    module = "checks.c19"
    level = "fault_enumeration"
    tables = True
    exhaustive = True
    rule = (
        "cases = histories of 8 steps over {write new script text, edit keeping the size, touch (virtual time moving by 2 s .. 4 ms), run one of two same-named scripts by absolute or relative path, load it through the import hook's loader, run the same text as -c code (single mode) and as stdin code (exec mode)} under all settings of "
        "(execer.scriptcache, execer.cacheall, $XONSH_CACHE_SCRIPTS, $XONSH_CACHE_EVERYTHING), compared step by step with a cache-free twin; plus, per script, every truncation length 0..len of its cache entry, "
        "zero-filled tails, foreign version headers, non-marshal payloads, directory / unreadable file / read-only directory in place of the entry (exhaustive per entry); plus CLI runs; "
        "distinct_nontrivial = distinct (history shape, switches) and distinct (script, corruption) pairs"
    )
    assumptions = [
        "source mtimes are set explicitly with os.utime in virtual time, strictly increasing by 2 s, 1 s, 0.25 s or 4 ms (an edit right after a run lands in the same second as the entry); entries written by a run are stamped with the same virtual clock",
        "a well-formed header followed by marshal.dumps of a non-code object cannot be produced by a crash or another version, only by tampering: it is run and counted as informational, not judged",
        "random bit flips inside a well-formed marshalled code object are readable entries (the format has no checksum) and are out of scope",
        "the cache-free twin uses scriptcache=False, cacheall=False and both environment switches off, in its own data directory",
    ]

    def shards(self, tier, seed):
        per = 14 if tier == "quick" else 260
        out = [dict(kind="hist", index=i, n=per, timeout=500 if tier == "quick" else 3000) for i in range(10)]
        out += [dict(kind="corrupt", index=30 + i, n=(2 if tier == "quick" else 12), timeout=500 if tier == "quick" else 3000) for i in range(5)]
        out.append(dict(kind="cli", index=60, n=(10 if tier == "quick" else 120), timeout=600 if tier == "quick" else 3000))
        return out

    def floors(self, c, tier):
        r = []
        if c.get("cached_runs_compared", 0) < 500:
            r.append("fewer than 500 cached runs compared")
        if c.get("cache_hits_observed", 0) < 100:
            r.append("the cache was hardly ever hit: the deciding comparison did not happen")
        if c.get("corruptions_run", 0) < 1000:
            r.append("fewer than 1000 corruptions run")
        if c.get("cli_runs", 0) < 10:
            r.append("CLI runs missing")
        return r

    def _setup(self):
        from vlib.session import make_sandbox_path, make_session

        self.sb = make_sandbox_path(os.environ["VERIF_SCRATCH"])
        self.root = os.path.join(os.environ["VERIF_SCRATCH"], f"c19-{os.getpid()}")
        os.makedirs(self.root, exist_ok=True)
        self.dd_c = os.path.join(self.root, "data-cached")
        self.dd_u = os.path.join(self.root, "data-uncached")
        self.XSH, self.ex, _ = make_session([self.sb], env={"XONSH_DATA_DIR": self.dd_c})
        from xonsh import codecache as CC
        from xonsh.execer import Execer

        self.CC, self.Execer = CC, Execer
        self.hits = [0]
        orig_load = marshal.load
        hits = self.hits

        def counting_load(f):
            r = orig_load(f)
            hits[0] += 1
            return r

        # observation only: how often a cache entry was actually used (marshal.load succeeded inside codecache)
        CC.marshal = type("M", (), {"load": staticmethod(counting_load), "dump": staticmethod(marshal.dump), "dumps": staticmethod(marshal.dumps), "loads": staticmethod(marshal.loads)})
        self.clock = 1_600_000_000

    def run(self, kind, target, cached, sw, mode="exec"):
        """-> (stdout, exception type name, namespace snapshot)"""
        env = self.XSH.env
        if cached:
            env["XONSH_DATA_DIR"] = self.dd_c
            env["XONSH_CACHE_SCRIPTS"], env["XONSH_CACHE_EVERYTHING"] = sw["CS"], sw["CE"]
            ex = self.ex_c
            ex.scriptcache, ex.cacheall = sw["sc"], sw["ca"]
        else:
            env["XONSH_DATA_DIR"] = self.dd_u
            env["XONSH_CACHE_SCRIPTS"], env["XONSH_CACHE_EVERYTHING"] = False, False
            ex = self.ex_u
        glb = {"__name__": "__main__"}
        buf = io.StringIO()
        exc = None
        try:
            with harness.alarm(30), contextlib.redirect_stdout(buf):
                if kind == "script":
                    info = self.CC.run_script_with_cache(target, ex, glb=glb, loc=None, mode="exec")
                elif kind == "import":
                    # the import hook's loader: same entries, its own call site (XonshImportHook.get_code)
                    from xonsh.imphooks import XonshImportHook

                    hook = XonshImportHook(ex)
                    modname = os.path.basename(target)[:-4]
                    if hook.find_spec(modname, [os.path.dirname(target)]) is None:
                        raise ImportError("not found")
                    info = None
                    try:
                        exec(hook.get_code(modname), glb)
                    except Exception as e:  # noqa  (what `import s` would raise)
                        info = (type(e), e, None)
                else:
                    info = self.CC.run_code_with_cache(target, "<string>", ex, glb=glb, loc=None, mode=mode)
            if info and info[0] is not None:
                exc = info[0].__name__
        except harness.CaseTimeout:
            exc = "HANG"
        except BaseException as e:  # noqa
            exc = "ESCAPED:" + type(e).__name__
        ns = {k: repr(v)[:60] for k, v in glb.items() if not k.startswith("__") and isinstance(v, (int, str, list, float))}
        if cached:
            # virtual time: entries written by this run carry the virtual clock, like the sources do
            self.clock += 1
            for dp, dn, fn in os.walk(self.dd_c):
                for f in fn:
                    p = os.path.join(dp, f)
                    try:
                        if os.stat(p).st_mtime > 1_700_000_000:
                            os.utime(p, (self.clock, self.clock))
                    except OSError:
                        pass
        return buf.getvalue(), exc, ns

    def fresh(self):
        for d in (self.dd_c, self.dd_u):
            shutil.rmtree(d, ignore_errors=True)
            os.makedirs(d)
        self.ex_c = self.Execer(scriptcache=True, cacheall=False)
        self.ex_u = self.Execer(scriptcache=False, cacheall=False)

    def tick(self, rng=None):
        """virtual time moves on - by whole seconds, or by a fraction of a second (an edit right after a run)"""
        self.clock += rng.choice([2, 2, 1, 0.25, 0.004]) if rng is not None else 2
        return self.clock

    def write(self, path, text, rng=None):
        with open(path, "w", encoding="utf-8") as f:
            f.write(text)
        t = self.tick(rng)
        os.utime(path, ns=(int(t * 1_000_000_000), int(t * 1_000_000_000)))

    def run_case(self, case, rec):
        if not hasattr(self, "XSH"):
            self._setup()
        {"hist": self.run_hist, "corrupt": self.run_corrupt, "cli": self.run_cli}[case["kind"]](case, rec)

    # ------------------------------------------------------------------ (a)
    def run_hist(self, case, rec):
        rng = random.Random(case["rseed"])
        self.fresh()
        sw = case["sw"]
        # two projects with a script of the same name: run by absolute path or by the relative name from its own directory
        scripts, ns_, bodies = [], [], []
        # ... or two scripts whose paths differ only in characters the cache-file naming has to escape (X vs _x, _ vs __)
        layout = random.Random(case["rseed"] + "/layout").choice([(("alpha", "s.xsh"), ("beta", "s.xsh"))] * 3 + [(("proj", "Run.xsh"), ("proj", "_run.xsh")), (("Proj", "s.xsh"), ("_proj", "s.xsh")), (("proj", "aB.xsh"), ("proj", "a_b.xsh"))])
        if layout[0][0] != "alpha":
            rec.count("histories_with_look_alike_script_paths")
        for proj, base in layout:
            d = os.path.join(self.root, proj)
            os.makedirs(d, exist_ok=True)
            scripts.append(os.path.join(d, base))
            ns_.append(rng.randint(10, 99))
            bodies.append(rng.choice(BODIES))
            self.write(scripts[-1], bodies[-1].format(n=ns_[-1]), rng)
        kinds = []
        os.chdir(self.root)
        for step in range(case["steps"]):
            r = rng.random()
            w = 0 if rng.random() < 0.6 else 1
            script = scripts[w]
            if r < 0.18:
                ns_[w] = rng.randint(10, 99)
                bodies[w] = rng.choice(BODIES)
                self.write(script, bodies[w].format(n=ns_[w]), rng)
                kinds.append("w")
                continue
            if r < 0.34:
                ns_[w] = (ns_[w] + rng.randint(1, 9) - 10) % 90 + 10  # same number of digits: same size, new content
                self.write(script, bodies[w].format(n=ns_[w]), rng)
                kinds.append("e")
                continue
            if r < 0.42:
                t = self.tick(rng)
                os.utime(script, ns=(int(t * 1_000_000_000), int(t * 1_000_000_000)))
                kinds.append("t")
                continue
            if r < 0.52:
                what, target, mode = "import", script, "exec"
                rec.count("module_imports_through_the_hook")
                kinds.append("I")
            elif r < 0.75:
                what, target, mode = "script", script, "exec"
                if rng.random() < 0.5:
                    os.chdir(os.path.dirname(script))
                    target = os.path.basename(script) if rng.random() < 0.7 else "./" + os.path.basename(script)
                    rec.count("script_runs_by_relative_path")
                kinds.append("R")
            else:
                what, target = "code", open(script, encoding="utf-8").read()
                mode = rng.choice(["exec", "single"])
                kinds.append("C" + mode[0])
            h0 = self.hits[0]
            got = self.run(what, target, True, sw, mode)
            if self.hits[0] > h0:
                rec.count("cache_hits_observed")
            exp = self.run(what, target, False, sw, mode)
            os.chdir(self.root)
            rec.count("cached_runs_compared")
            if got != exp:
                if what == "code" and "Ce" in kinds and "Cs" in kinds and sw["ca"] | sw["CE"]:
                    rec.violation("CODE-CACHE/entry-shared-between-compile-modes", dict(case, at_step=step), {"ops": "".join(kinds), "cached": got, "uncached": exp, "mode": mode})
                    return
                what2 = "stdout" if got[0] != exp[0] else "exception" if got[1] != exp[1] else "namespace"
                stale = "/stale-after-" + kinds[-2][:1] if len(kinds) > 1 and kinds[-2][:1] in ("w", "e", "t") else ""
                rec.violation(f"CACHED-RUN-DIFFERS/{what}/{what2}{stale}", dict(case, at_step=step), {"ops": "".join(kinds), "cached": got, "uncached": exp})
                return
        rec.case(nontrivial=("".join(kinds), tuple(sorted(sw.items()))))

    # ------------------------------------------------------------------ (b)
    def run_corrupt(self, case, rec):
        rng = random.Random(case["rseed"])
        self.fresh()
        sw = {"sc": True, "ca": True, "CS": True, "CE": True}
        script = os.path.join(self.root, "c.xsh")
        text = rng.choice(BODIES).format(n=rng.randint(10, 99))
        self.write(script, text)
        exp_script = self.run("script", script, False, sw)
        exp_code = self.run("code", text, False, sw)
        self.run("script", script, True, sw)
        self.run("code", text, True, sw)
        sfile = self.CC.get_cache_filename(script, code=False)
        cfile = self.CC.get_cache_filename(self.CC.code_cache_name(text), code=True)
        for kind, entry, exp, target in (("script", sfile, exp_script, script), ("code", cfile, exp_code, text)):
            if not os.path.isfile(entry):
                rec.violation(f"CORRUPTION/{kind}/no-cache-entry-was-written", case, {"entry": entry})
                continue
            good = open(entry, "rb").read()
            header_end = good.index(b"\n", good.index(b"\n") + 1) + 1
            variants = [("truncate", good[:k]) for k in range(len(good))]
            variants += [("zero-tail", good[:k] + b"\0" * (len(good) - k)) for k in sorted({0, 1, header_end - 1, header_end, header_end + 1, len(good) // 2, len(good) - 1} | {rng.randrange(len(good)) for _ in range(20)})]
            variants += [("foreign-xonsh-version", b"0.0.1\n" + good[good.index(b"\n") + 1:]), ("foreign-python-version", good[: good.index(b"\n") + 1] + b"(2, 7, 18)\n" + good[header_end:]), ("swapped-header-lines", b"\n".join(good[:header_end].split(b"\n")[:2][::-1]) + b"\n" + good[header_end:]),
                         ("empty", b""), ("long-header-line", b"x" * 5000 + b"\n" + good), ("text-payload", good[:header_end] + b"this is not marshal data\n"), ("only-newlines", b"\n\n\n"), ("garbage", bytes(rng.randrange(256) for _ in range(200)))]
            # single damaged bytes inside the payload: kept only when CPython's own marshal refuses the result (whatever it
            # raises) - an entry that still loads as some code object is outside the property and is not run
            r3 = random.Random(case["rseed"] + "/bytes/" + kind)
            refused = {}
            for _ in range(200):
                pos = r3.randrange(header_end, len(good))
                b = r3.choice([good[pos] | 0x80, good[pos] ^ 0xFF, 0xFF, r3.randrange(256)])
                if b == good[pos]:
                    continue
                data = good[:pos] + bytes([b]) + good[pos + 1:]
                verdict = classify_payload(data[header_end:])
                if verdict is None:
                    rec.count("damaged_bytes_marshal_neither_loads_nor_refuses_quickly_not_run")
                elif verdict == "":
                    rec.count("damaged_bytes_that_still_load_not_run")
                else:
                    refused.setdefault(verdict, []).append(("damaged-byte-marshal-raises-" + verdict, data))
            for lst in refused.values():
                variants += lst[:6]
            tamper = [("non-code-marshal-int", good[:header_end] + marshal.dumps(7)), ("non-code-marshal-str", good[:header_end] + marshal.dumps("print('pwned')")), ("non-code-marshal-none", good[:header_end] + marshal.dumps(None))]
            for name, data in variants + tamper:
                if os.path.isdir(entry):
                    shutil.rmtree(entry)
                with open(entry, "wb") as f:
                    f.write(data)
                os.utime(entry, (self.clock + 100, self.clock + 100))
                got = self.run(kind, target, True, sw)
                rec.count("corruptions_run")
                rec.case(nontrivial=(text, kind, name, len(data)))
                if name.startswith("non-code-marshal"):
                    rec.count("informational_tampered_entries_run")
                    if got != exp:
                        rec.count("informational_tampered_entry_changed_behaviour")
                    continue
                if got != exp:
                    rec.violation(f"CORRUPTION/{kind}/{name}/" + ("run-terminates-abnormally" if (got[1] or "").startswith(("ESCAPED", "HANG")) else "run-differs-from-uncached"), dict(case, corruption=name, length=len(data)), {"cached": got, "uncached": exp})
            # special files in place of the entry
            for name in ("directory", "unreadable", "read-only-dir"):
                if os.path.isdir(entry):
                    shutil.rmtree(entry)
                elif os.path.exists(entry):
                    os.remove(entry)
                d = os.path.dirname(entry)
                if name == "directory":
                    os.makedirs(entry)
                elif name == "unreadable":
                    with open(entry, "wb") as f:
                        f.write(good)
                    os.chmod(entry, 0)
                else:
                    os.chmod(d, 0o555)
                try:
                    got = self.run(kind, target, True, sw)
                finally:
                    os.chmod(d, 0o755)
                    if os.path.isfile(entry):
                        os.chmod(entry, 0o644)
                rec.count("corruptions_run")
                rec.case(nontrivial=(text, kind, name))
                if got != exp:
                    rec.violation(f"CORRUPTION/{kind}/{name}/" + ("run-terminates-abnormally" if (got[1] or "").startswith(("ESCAPED", "HANG")) else "run-differs-from-uncached"), dict(case, corruption=name), {"cached": got, "uncached": exp})

    # ------------------------------------------------------------------ (c)
    def run_cli(self, case, rec):
        rng = random.Random(case["rseed"])
        dd = os.path.join(self.root, "cli-data")
        shutil.rmtree(dd, ignore_errors=True)
        os.makedirs(dd)
        env = dict(os.environ, XONSH_DATA_DIR=dd, XONSH_CACHE_EVERYTHING=str(int(case["everything"])), XONSH_CACHE_SCRIPTS="1", PATH=self.sb + ":/usr/bin:/bin")
        base = [sys.executable, "-m", "xonsh", "--no-rc"]
        text = case["text"]

        def go(how, extra_env=None, args=()):
            e = dict(env, **(extra_env or {}))
            if how == "-c":
                r = subprocess.run(base + list(args) + ["-c", text], env=e, capture_output=True, text=True, timeout=120, stdin=subprocess.DEVNULL)
            elif how == "stdin":
                r = subprocess.run(base + list(args), env=e, input=text, capture_output=True, text=True, timeout=120)
            else:
                p = os.path.join(self.root, "cli.xsh")
                with open(p, "w") as f:
                    f.write(text)
                r = subprocess.run(base + list(args) + [p], env=e, capture_output=True, text=True, timeout=120, stdin=subprocess.DEVNULL)
            return r.stdout, r.returncode

        order = case["order"]
        outs = {}
        for how in order:
            rec.count("cli_runs")
            outs[how] = go(how)
        ref = {}
        dd2 = os.path.join(self.root, "cli-data-off")
        shutil.rmtree(dd2, ignore_errors=True)
        os.makedirs(dd2)
        for how in order:
            rec.count("cli_runs")
            ref[how] = go(how, {"XONSH_DATA_DIR": dd2, "XONSH_CACHE_EVERYTHING": "0", "XONSH_CACHE_SCRIPTS": "0"}, ["--no-script-cache"])
        rec.case(nontrivial=(text, tuple(order), case["everything"]))
        for how in order:
            if outs[how] != ref[how]:
                if case["everything"] and {"-c", "stdin"} <= set(order):
                    rec.violation("CODE-CACHE/entry-shared-between-compile-modes", case, {"how": how, "cached": outs[how], "uncached": ref[how]})
                else:
                    rec.violation(f"CLI/cached-run-differs/{how}", case, {"cached": outs[how], "uncached": ref[how]})
                return

    def run_shard(self, sh, rec):
        self._setup()
        rng = random.Random(f"{sh['seed']}/C19/{sh['index']}")
        for i in harness.budgeted(range(sh["n"]), rec):
            if sh["kind"] == "hist":
                sw = {"sc": rng.random() < 0.8, "ca": rng.random() < 0.5, "CS": rng.random() < 0.8, "CE": rng.random() < 0.5}
                case = {"kind": "hist", "rseed": f"{sh['seed']}/C19/{sh['index']}/{i}", "steps": 8, "sw": sw}
            elif sh["kind"] == "corrupt":
                case = {"kind": "corrupt", "rseed": f"{sh['seed']}/C19/c/{sh['index']}/{i}"}
            else:
                order = rng.sample(["-c", "stdin", "script"], rng.randint(2, 3))
                case = {"kind": "cli", "rseed": f"{sh['seed']}/C19/cli/{i}", "text": rng.choice(["1+1\n", "print('x')\n", "x = 3\nx\n", "'s'\n", "import sys\nprint(len(sys.argv) >= 0)\n"]), "order": order, "everything": rng.random() < 0.6}
            if i < 1:
                rec.sample(case, sh["kind"])
            self.run_case(case, rec)


CHECK = C19()

if __name__ == "__main__":
    harness.main(CHECK)
