"""C20 - the job table is always consistent with the processes it tracks.

Stub process objects with scripted poll() are registered through the real add_job; random
histories of job starts, exits and jobs/fg/bg/disown invocations (valid and invalid
arguments) are compared after every step with the reference model of DESIGN Appendix A.5
and with structural invariants (deque is a duplicate-free permutation of the dict keys, all
listed jobs alive after a purge, lowest-free numbering).  Three layers: main thread only;
the commands that run under use_main_jobs issued from an alias-like worker thread; and a
two-thread layer with schedule perturbation restricted to what the main thread really does
while an alias stage such as `jobs | cat` runs.
"""

import io
import os
import random
import re
import threading

from vlib import harness


class Proc:
    def __init__(self):
        self.rc = None
        self.pid = None

    def poll(self):
        return self.rc


class Spec:
    captured = "hiddenobject"


class Pipe:
    spec = Spec()

    def __init__(self):
        self.resumed = []

    def resume(self, job, tee_output=True):
        self.resumed.append(tee_output)


class Model:
    def __init__(self):
        self.J = {}  # num -> dict(proc, bg, status, pipe)
        self.mru = []

    def purge(self):
        dead = [n for n in self.mru if self.J[n]["proc"].rc is not None]
        for n in dead:
            self.mru.remove(n)
            del self.J[n]

    def free(self):
        i = 1
        while i in self.J:
            i += 1
        return i


ARGS = [[], ["+"], ["-"], ["1"], ["2"], ["3"], ["4"], ["7"], ["0"], ["-1"], ["x"], ["1", "2"], ["+", "-"], [" 2"], ["2 "], ["1.0"]]


class C20:
    id = "C20"
    module = "checks.c20"
    level = "exploration"
    tables = True
    rule = (
        "cases = histories of 25 steps over {start fg/bg/suspended job, exit of a job, jobs, jobs --posix, fg|bg|disown x {none,+,-,live n,dead n,unused n,0,-1,x,two args}, "
        "get_next_job_number, get_next_task}; every step is an evaluation judged against the A.5 model and the structural invariants; layers: main thread, alias-like worker thread "
        "(sequential hand-off), two threads with sys.monitoring delay injection on jobs.py, and a real-process layer (interactive session on a pseudo terminal: background pipelines incl. alias stages, Ctrl-Z-suspended jobs, kill, jobs, bg, disown through the Execer); distinct_nontrivial = distinct (layer, op, argument, table size, number of dead-unpurged jobs, outcome) tuples with table size >= 2"
    )
    assumptions = [
        "stub jobs use pids=[None] and pgrp=None so that the real _continue/_send_signal paths run but signal nobody",
        "reference model = DESIGN Appendix A.5; `disown` naming a finished job that was not purged yet is accepted either way (the statement does not order purge and disown)",
        "the concurrent layer restricts the main thread to add_job / job exit / get_next_task polling - what it really does while an alias stage runs; the hostile free-for-all of the design pilot is not judged",
    ]

    def shards(self, tier, seed):
        n = 16
        per = 700 if tier == "quick" else 12000
        out = [dict(kind="seq", layer=("main" if i % 2 == 0 else "worker"), index=i, n=per, steps=25, timeout=420 if tier == "quick" else 3000) for i in range(n - 4)]
        out += [dict(kind="conc", index=50 + i, n=(120 if tier == "quick" else 2500), timeout=420 if tier == "quick" else 3000) for i in range(4)]
        # real layer: an interactive session on a fresh pseudo terminal runs real background / suspended pipelines through
        # the Execer (registration by _run_command_pipeline, purge by Popen.poll(), Ctrl-Z typed into the terminal)
        out += [dict(kind="real", index=80 + i, n=(10 if tier == "quick" else 80), steps=14, timeout=420 if tier == "quick" else 3000) for i in range(3 if tier == "quick" else 6)]
        return out

    def floors(self, c, tier):
        r = []
        if c.get("steps", 0) < 20000:
            r.append("fewer than 20000 steps observed")
        if c.get("steps_with_dead_unpurged", 0) < 200:
            r.append("no steps taken while finished jobs were still in the table")
        if c.get("worker_thread_steps", 0) < 1000:
            r.append("alias-thread layer not exercised")
        if c.get("conc_histories", 0) < 50 or c.get("delays_injected", 0) < 200:
            r.append("concurrent layer saw too few injected delays")
        if c.get("error_returns", 0) < 500:
            r.append("error paths of fg/bg/disown not exercised")
        if c.get("real_steps", 0) < 100 or c.get("real_background_jobs_started", 0) < 20:
            r.append("real-process layer: too few steps / background jobs")
        if c.get("real_jobs_suspended_by_ctrl_z", 0) < 3:
            r.append("real-process layer: no job was suspended with Ctrl-Z")
        if c.get("real_jobs_purged_after_kill", 0) < 6:
            r.append("real-process layer: no finished job was seen disappearing")
        return r

    # ------------------------------------------------------------------
    def _setup(self):
        from vlib.session import make_session

        self.XSH, _, _ = make_session([])
        import xonsh.procs.jobs as J

        self.J = J

    def reset(self):
        J = self.J
        self.XSH.all_jobs.clear()
        J._tasks_main.clear()
        for a in ("tasks", "jobs"):
            if hasattr(J._jobs_thread_local, a):
                delattr(J._jobs_thread_local, a)

    def live_state(self):
        J = self.J
        jobs = J.get_jobs()
        return ({k: (v["bg"], v["status"]) for k, v in jobs.items()}, list(J.get_tasks()))

    def call(self, layer, fn):
        """Run fn on the main thread or on an alias-like worker thread (sequential hand-off)."""
        if layer == "main":
            return fn()
        box = {}

        def run():
            try:
                box["r"] = fn()
            except BaseException as e:  # noqa
                box["e"] = e

        t = threading.Thread(target=run, name="verif-alias")
        t.start()
        t.join()
        if "e" in box:
            raise box["e"]
        return box.get("r")

    def structural(self, rec, case, where, after_purge):
        J = self.J
        with J.use_main_jobs():
            jobs = dict(J.get_jobs())
            tasks = list(J.get_tasks())
        if len(set(tasks)) != len(tasks):
            rec.violation("STRUCT/duplicate-in-mru-deque", case, {"tasks": tasks, "where": where})
            return False
        if sorted(tasks) != sorted(jobs):
            rec.violation("STRUCT/mru-deque-and-job-dict-disagree", case, {"tasks": tasks, "jobs": sorted(jobs), "where": where})
            return False
        if after_purge and any(j["obj"].poll() is not None for j in jobs.values()):
            rec.violation("STRUCT/finished-job-still-listed-after-purge", case, {"where": where})
            return False
        return True

    def run_case(self, case, rec):
        if not hasattr(self, "XSH"):
            self._setup()
        if case.get("kind") == "conc":
            return self.run_conc(case, rec)
        if case.get("kind") == "real":
            return self.run_real_in_pty([case], rec, 300) if not getattr(self, "in_pty", False) else self.run_real(case, rec)
        J = self.J
        self.reset()
        layer = case["layer"]
        m = Model()
        procs = []
        trace = []
        for step in case["steps"]:
            op, arg = step[0], step[1]
            trace.append(step)
            sub = dict(case, steps=list(trace))
            dead_unpurged = sum(1 for n in m.mru if m.J[n]["proc"].rc is not None)
            size = len(m.mru)
            rec.count("steps")
            if dead_unpurged:
                rec.count("steps_with_dead_unpurged")
            if layer == "worker":
                rec.count("worker_thread_steps")
            outcome = "ok"
            purged = False
            if op == "start":
                bg, status = arg
                p, pipe = Proc(), Pipe()
                procs.append(p)
                info = {"cmds": [["sleep", str(len(procs))]], "pids": [None], "obj": p, "bg": bg, "pipeline": pipe, "pgrp": None, "status": status}
                J.add_job(info)  # pipelines are registered by the main thread (_run_command_pipeline)
                m.purge()
                n = m.free()
                m.J[n] = {"proc": p, "bg": bg, "status": status, "pipe": pipe}
                m.mru.insert(0, n)
                purged = True
                got = [k for k, v in J.get_jobs().items() if v["obj"] is p]
                if got != [n]:
                    rec.violation("NUMBERING/new-job-not-lowest-free-number", sub, {"got": got, "expected": n})
                    return
            elif op == "exit":
                live = [p for p in procs if p.rc is None]
                if live:
                    live[arg % len(live)].rc = 0
                continue
            elif op == "nextnum":
                got = J.get_next_job_number()
                m.purge()
                purged = True
                if got != m.free():
                    rec.violation("NUMBERING/get_next_job_number-not-lowest-free", sub, {"got": got, "expected": m.free()})
                    return
            elif op == "nexttask":
                t = J.get_next_task()
                m.purge()
                purged = True
                sel = next((n for n in m.mru if not m.J[n]["bg"] and m.J[n]["status"] == "running"), None)
                if sel is not None:
                    m.mru.remove(sel)
                    m.mru.insert(0, sel)
                gotn = next((k for k, v in J.get_jobs().items() if v is t), None) if t is not None else None
                if gotn != sel:
                    rec.violation("SELECT/get_next_task-wrong-job", sub, {"got": gotn, "expected": sel})
                    return
            elif op in ("jobs", "jobs-posix"):
                out = io.StringIO()
                self.call(layer, lambda: J.jobs(["--posix"] if op == "jobs-posix" else [], stdout=out))
                m.purge()
                purged = True
                lines = out.getvalue().splitlines()
                if op == "jobs-posix":
                    got = [(int(x.group(1)), x.group(2)) for x in (re.match(r"\[(\d+)\](.) ", l) for l in lines) if x]
                    exp = [(n, "+" if i == 0 else "-" if i == 1 else " ") for i, n in enumerate(m.mru)]
                else:
                    got = [int(x.group(1)) for x in (re.match(r"\{'num': (\d+),", l) for l in lines) if x]
                    exp = list(m.mru)
                if got != exp or len(lines) != len(exp):
                    rec.violation("JOBS-OUTPUT/listing-differs-from-live-jobs-in-mru-order", sub, {"got": got, "expected": exp, "lines": lines[:6]})
                    return
            elif op in ("fg", "bg"):
                before = self.live_state()
                f = J.fg if op == "fg" else J.bg
                r = self.call("main" if op == "fg" else layer, lambda: f(list(arg)))  # fg is @unthreadable: always main
                m.purge()
                purged = True
                err = isinstance(r, tuple) and bool(r[1])
                sel = None
                if not m.mru:
                    experr = True
                elif len(arg) == 0 or arg == ["+"]:
                    sel, experr = m.mru[0], False
                elif arg == ["-"]:
                    experr = len(m.mru) < 2
                    sel = None if experr else m.mru[1]
                elif len(arg) == 1:
                    try:
                        k = int(arg[0])
                    except ValueError:
                        k = None
                    experr = k not in m.J
                    sel = None if experr else k
                else:
                    experr = True
                if err:
                    rec.count("error_returns")
                    outcome = "error"
                if experr != err:
                    rec.violation(f"SELECT/{op}-" + ("reports-error-for-valid-selection" if err else "accepts-invalid-selection"), sub, {"arg": arg, "returned": r, "model_mru": m.mru})
                    return
                if err:
                    # purge is allowed, nothing else
                    now = self.live_state()
                    live_before = ({k: v for k, v in before[0].items() if k in m.J}, [t for t in before[1] if t in m.J])
                    if now != live_before:
                        rec.violation(f"ERROR-ALTERED-TABLE/{op}", sub, {"before": before, "after": now})
                        return
                else:
                    m.mru.remove(sel)
                    m.mru.insert(0, sel)
                    m.J[sel]["status"] = "running"
                    m.J[sel]["bg"] = op == "bg"
                    pipe = m.J[sel]["pipe"]
                    if len(pipe.resumed) != 1 or pipe.resumed[0] != (op == "fg"):
                        rec.violation(f"RESUME/{op}-did-not-resume-the-selected-job-exactly-once", sub, {"resumed": pipe.resumed, "selected": sel})
                        return
                    pipe.resumed.clear()
                    others = [n for n in m.J if n != sel and m.J[n]["pipe"].resumed]
                    if others:
                        rec.violation(f"RESUME/{op}-resumed-another-job", sub, {"others": others, "selected": sel})
                        return
            elif op == "disown":
                before = self.live_state()
                try:
                    r = self.call(layer, lambda: J.disown(list(arg)))
                except SystemExit:
                    r = ("", "usage")
                err = isinstance(r, tuple) and bool(r[1])
                ids = None
                try:
                    ids = [int(a) for a in arg]
                except ValueError:
                    pass
                pre = Model()
                pre.J, pre.mru = dict(m.J), list(m.mru)  # table before any purge
                m2 = Model()
                m2.J, m2.mru = dict(m.J), list(m.mru)
                m2.purge()
                if err:
                    rec.count("error_returns")
                    outcome = "error"
                if ids is None:
                    experr = {True}
                elif not ids:
                    # no argument: the current job; a finished-but-unpurged head is accepted either way
                    experr = {not pre.mru} if (not pre.mru or pre.mru[0] in m2.J) else {True, False}
                    ids_eff = pre.mru[:1]
                else:
                    if all(i in m2.J for i in ids) and len(set(ids)) == len(ids):
                        experr = {False}
                    elif all(i in pre.J for i in ids) and len(set(ids)) == len(ids):
                        experr = {True, False}
                    else:
                        experr = {True}
                    ids_eff = ids
                if not pre.mru:
                    experr = {True}
                if err not in experr:
                    rec.violation("SELECT/disown-" + ("reports-error-for-valid-job" if err else "accepts-invalid-job"), sub, {"arg": arg, "returned": r, "model_mru": pre.mru})
                    return
                if err and len(arg) <= 1:
                    now = self.live_state()
                    if now != before:
                        rec.violation("ERROR-ALTERED-TABLE/disown", sub, {"before": before, "after": now})
                        return
                if not err:
                    for i in ids_eff:
                        if i in m.J:
                            m.mru.remove(i)
                            del m.J[i]
                else:
                    # multi-id disown may have removed a prefix before failing: resync (structure is still judged)
                    live_jobs, live_tasks = self.live_state()
                    m.mru = [t for t in m.mru if t in live_jobs]
                    m.J = {k: v for k, v in m.J.items() if k in live_jobs}
            rec.case(nontrivial=(layer, op, str(arg), size, dead_unpurged, outcome) if size >= 2 else None)
            if not self.structural(rec, sub, op, purged):
                return
            # model vs live (compare on the live subset when no purge happened in this step)
            jobs, tasks = self.live_state()
            if purged:
                mm, mj = list(m.mru), {k: (v["bg"], v["status"]) for k, v in m.J.items()}
            else:
                mm, mj = list(m.mru), {k: (v["bg"], v["status"]) for k, v in m.J.items()}
            if tasks != mm or jobs != mj:
                rec.violation(f"TABLE-DIFFERS-FROM-MODEL/{op}", sub, {"tasks": tasks, "model_mru": mm, "jobs": jobs, "model_jobs": mj})
                return
        rec.count("histories_ok")

    # ------------------------------------------------------------------ concurrent layer
    def run_conc(self, case, rec):
        from vlib.sched import Injector

        J = self.J
        if not hasattr(self, "inj"):
            self.inj = Injector(case["seed"], p=case.get("p", 0.02), delays=(0.0, 0.0002, 0.001), cap=0.2)
            self.inj.target(J._clear_dead_jobs, J.add_job, J.get_next_job_number, J.get_next_task, J.resume_job, J.disown_fn, J.jobs, J.format_job_string, J.print_one_job, J.bg, J.use_main_jobs, J.get_task)
            self.inj.start()
        self.reset()
        self.inj.new_case()
        rng = random.Random(case["rseed"])
        procs, errors, disowned = [], [], []
        stop = threading.Event()

        def worker():
            r = random.Random(case["rseed"] + "/w")
            while not stop.is_set():
                op = r.choice(["jobs", "jobs", "jobs-posix", "disown", "bg"])
                try:
                    if op.startswith("jobs"):
                        J.jobs(["--posix"] if op.endswith("posix") else [], stdout=io.StringIO())
                    elif op == "disown":
                        with J.use_main_jobs():
                            ks = list(J.get_jobs())
                        if ks:
                            k = r.choice(ks)
                            out = J.disown_fn([k])
                            if isinstance(out, str) and "Removed job" in out:
                                disowned.append(k)
                    else:
                        J.bg([r.choice(["+", "-", "1", "2"])] if r.random() < 0.5 else [])
                except BaseException as x:  # noqa
                    errors.append(("alias-thread:" + op, type(x).__name__, str(x)[:80]))

        t = threading.Thread(target=worker, name="verif-alias")
        t.start()
        added = 0
        try:
            for step in range(case["steps"]):
                op = rng.choice(["start", "start", "exit", "poll", "poll"])
                try:
                    if op == "start":
                        p = Proc()
                        procs.append(p)
                        J.add_job({"cmds": [["sleep", str(step)]], "pids": [None], "obj": p, "bg": rng.random() < 0.7, "pipeline": Pipe(), "pgrp": None, "status": "running"})
                        added += 1
                    elif op == "exit":
                        live = [p for p in procs if p.rc is None]
                        if live:
                            rng.choice(live).rc = 0
                    else:
                        J.get_next_task()
                except BaseException as x:  # noqa
                    errors.append(("main:" + op, type(x).__name__, str(x)[:80]))
        finally:
            stop.set()
            t.join(20)
        rec.count("conc_histories")
        st = self.inj.stats()
        J._clear_dead_jobs()
        jobs = J.get_jobs()
        tasks = list(J.get_tasks())
        live = {id(p) for p in procs if p.rc is None}
        present = {id(j["obj"]) for j in jobs.values()}
        rec.case(nontrivial=case["rseed"])
        sig = self.inj.new_case()
        if sig:
            rec.setadd("interleaving_signatures", sig)
        detail = {"errors": errors[:4], "tasks": tasks, "jobs": sorted(jobs)}
        if errors:
            # symptoms of unsynchronised access to the deque/dict pair; anything else keeps its own name
            expected = {("RuntimeError", "deque mutated during iteration"), ("ValueError", "not in deque"), ("IndexError", "deque index out of range"), ("KeyError", "")}
            for side in sorted({e[0].split(":")[0] for e in errors}):
                mine = [e for e in errors if e[0].startswith(side)]
                if all(any(e[1] == t and frag in e[2] for t, frag in expected) for e in mine):
                    rec.violation(f"RACE/unsynchronised-job-table/exception-on-{side}", case, detail)
                else:
                    odd = next(e for e in mine if not any(e[1] == t and frag in e[2] for t, frag in expected))
                    rec.violation(f"RACE/{side}/{odd[1]}", case, detail)
        elif len(set(tasks)) != len(tasks) or sorted(tasks) != sorted(jobs):
            rec.violation("RACE/mru-deque-and-job-dict-disagree-at-quiescence", case, detail)
        elif not present <= live:
            rec.violation("RACE/finished-job-listed-at-quiescence", case, detail)
        elif len(live - present) > len(disowned):
            rec.violation("RACE/live-job-lost-from-table", case, detail)

    # ------------------------------------------------------------------ real-process layer (pty)
    def run_real_in_pty(self, cases, rec, timeout):
        from vlib import ptyrun

        side = rec.out_path + ".pty"

        def child(master_fd):
            self.in_pty, self.master_fd = True, master_fd
            crec = harness.Rec(side, rec.shard)
            try:
                self._setup_real()
                for i, case in enumerate(cases):
                    if i < 2:
                        crec.sample(case, "real")
                    crec.begin(case)
                    self.run_real(case, crec)
            finally:
                crec.finish()

        status, out = ptyrun.run_in_pty(child, timeout=timeout, errfile=side + ".err")
        merged = rec.merge_file(side)
        if status != "exit:0" or not merged:
            err = ""
            try:
                with open(side + ".err") as f:
                    err = f.read()[-600:]
            except OSError:
                pass
            rec.inconclusive(f"pty session child ended with {status}; terminal tail {out[-300:]!r}; {err}")

    def _setup_real(self):
        from vlib.session import make_sandbox_path, make_session

        scratch = os.environ["VERIF_SCRATCH"]
        sb = make_sandbox_path(scratch)
        work = os.path.join(scratch, f"c20-{os.getpid()}")
        os.makedirs(work, exist_ok=True)
        os.chdir(work)
        self.XSH, self.ex, self.ctx = make_session([sb], env={"PWD": work, "XONSH_INTERACTIVE": True, "THREAD_SUBPROCS": True, "XONSH_SUBPROC_RAISE_ERROR": False})
        import xonsh.procs.jobs as J

        self.J = J
        J.ignore_sigtstp()

        def aprod(args, stdin=None, stdout=None):
            stdout.write("x\n")
            return 0

        def acons(args, stdin=None, stdout=None):
            stdin.read()
            return 0

        self.XSH.aliases["aprod"], self.XSH.aliases["acons"] = aprod, acons

    @staticmethod
    def _pstate(pid):
        try:
            with open(f"/proc/{pid}/stat") as f:
                return f.read().rsplit(")", 1)[1].split()[0]
        except OSError:
            return None

    def run_real(self, case, rec):
        import signal
        import time

        J = self.J
        # fresh table; whatever an earlier history left is killed
        for j in list(J.get_jobs().values()):
            for pid in j.get("pids") or []:
                try:
                    os.kill(pid, signal.SIGKILL)
                except (OSError, TypeError):
                    pass
        time.sleep(0.05)
        J._clear_dead_jobs()
        J.get_jobs().clear()
        J.get_tasks().clear()
        m = {}  # num -> {"pids", "dead", "bg", "stopped"}
        mru = []
        strays = []
        trace = []

        def purge():
            for n in [n for n in mru if m[n]["dead"]]:
                mru.remove(n)
                del m[n]
                rec.count("real_jobs_purged_after_kill")

        def free():
            i = 1
            while i in m:
                i += 1
            return i

        def run(src, ctrl_z=False):
            timer = None
            if ctrl_z:
                def type_ctrl_z():
                    # logical trigger, not a wall-clock guess: type ^Z once the job owns the terminal (then the tty sends it SIGTSTP)
                    end = time.time() + 15
                    while time.time() < end:
                        try:
                            if os.tcgetpgrp(2) != os.getpgrp():
                                break
                        except OSError:
                            pass
                        time.sleep(0.01)
                    time.sleep(0.15)
                    os.write(self.master_fd, b"\x1a")

                timer = threading.Thread(target=type_ctrl_z, name="verif-suspend")
                timer.start()
            try:
                with harness.alarm(20):
                    self.ex.exec(src + "\n", glbs=self.ctx, locs=self.ctx, mode="exec", filename="<c20>")
                return "ok"
            except harness.CaseTimeout:
                return "HANG"
            except BaseException as e:  # noqa
                return type(e).__name__ + ":" + str(e)[:80]
            finally:
                if timer is not None:
                    timer.join()

        def table():
            return {n: list(j.get("pids") or []) for n, j in J.get_jobs().items()}, list(J.get_tasks())

        def fail(mech, **kw):
            rec.violation(mech, dict(case, steps=list(trace)), dict(kw, model={n: (v["pids"], "dead" if v["dead"] else "live") for n, v in m.items()}, model_mru=list(mru), table=table()))

        try:
            for step in case["steps"]:
                op, arg = step
                trace.append(step)
                rec.count("real_steps")
                size = len(mru)
                if op in ("bg-start", "bg-pipeline", "bg-alias-first", "bg-alias-last"):
                    before = table()[0]
                    out = run({"bg-start": "sleep 30 &", "bg-pipeline": "sleep 30 | catrc 0 &", "bg-alias-first": "aprod | sleep 30 &", "bg-alias-last": "sleep 30 | acons &"}[op])
                    purge()
                    jobs_now, tasks_now = table()
                    new = sorted(n for n in jobs_now if before.get(n) != jobs_now[n])
                    if out != "ok" or len(new) != 1:
                        return fail("REAL/background-pipeline-not-registered-exactly-once", outcome=out, new=new)
                    n = free()
                    if new != [n]:
                        return fail("NUMBERING/new-job-not-lowest-free-number", got=new, expected=n)
                    m[n] = {"pids": [p for p in jobs_now[n] if isinstance(p, int)], "dead": False, "bg": True, "stopped": False}
                    mru.insert(0, n)
                    rec.count("real_background_jobs_started")
                    if op.startswith("bg-alias"):
                        rec.count("real_background_jobs_with_alias_stage")
                    if not m[n]["pids"] or any(self._pstate(p) in (None, "Z") for p in m[n]["pids"]):
                        return fail("REAL/registered-job-has-no-live-process")
                elif op == "suspend-start":
                    before = table()[0]
                    out = run("sleep 30", ctrl_z=True)
                    purge()
                    jobs_now, tasks_now = table()
                    new = sorted(n for n in jobs_now if before.get(n) != jobs_now[n])
                    stopped = [n for n in new if all(self._pstate(p) == "T" for p in jobs_now[n])]
                    if out == "HANG":
                        for n in new:
                            for p_ in jobs_now[n]:
                                try:
                                    os.kill(p_, signal.SIGKILL)
                                except OSError:
                                    pass
                        return fail("REAL/ctrl-z-command-never-returned")
                    if len(new) != 1 or not stopped:
                        rec.count("real_suspend_not_effective")
                        # cannot be modelled further (the job ended some other way): stop this history here
                        return
                    n = free()
                    if new != [n]:
                        return fail("NUMBERING/new-job-not-lowest-free-number", got=new, expected=n)
                    m[n] = {"pids": jobs_now[n], "dead": False, "bg": False, "stopped": True}
                    mru.insert(0, n)
                    rec.count("real_jobs_suspended_by_ctrl_z")
                    if os.tcgetpgrp(2) != os.getpgrp():
                        return fail("REAL/terminal-not-returned-after-ctrl-z")
                elif op == "fgcmd":
                    out = run("exitn 0 x")
                    if out != "ok":
                        return fail("REAL/foreground-command-failed", outcome=out)
                    # registered under the lowest free number, finished, purged by the wait loop or by the next purge
                    purge()
                    live_nums = {n for n, j in J.get_jobs().items() if j["obj"].poll() is None}
                    if live_nums != set(m):
                        return fail("REAL/live-jobs-differ-after-foreground-command", live=sorted(live_nums))
                    J._clear_dead_jobs()
                elif op == "kill":
                    live = [n for n in mru if not m[n]["dead"]]
                    if not live:
                        continue
                    n = live[arg % len(live)]
                    for p in m[n]["pids"]:
                        try:
                            os.kill(p, signal.SIGKILL)
                        except OSError:
                            pass
                    end = time.time() + 3
                    while time.time() < end and any(self._pstate(p) not in (None, "Z") for p in m[n]["pids"]):
                        time.sleep(0.01)
                    # an alias stage downstream sees EOF now and finishes on its own thread
                    job = J.get_jobs().get(n)
                    while time.time() < end and job is not None and type(job["obj"]).__name__.startswith("ProcProxy") and job["obj"].poll() is None:
                        time.sleep(0.01)
                    m[n]["dead"] = True
                    continue  # nothing purges here
                elif op in ("jobs", "jobs-posix", "jobs-captured"):
                    if op == "jobs-captured":
                        self.ctx.pop("_o", None)
                        out = run("_o = $(jobs --posix)")
                        text = self.ctx.get("_o") or ""
                        if out != "ok":
                            known = ("RuntimeError", "ValueError", "KeyError", "IndexError")
                            return fail("RACE/unsynchronised-job-table/exception-on-main" if out.startswith(known) else "REAL/jobs-in-capture-failed", outcome=out)
                    else:
                        buf = io.StringIO()
                        J.jobs(["--posix"] if op == "jobs-posix" else [], stdout=buf)
                        text = buf.getvalue()
                    purge()
                    lines = text.splitlines()
                    if op == "jobs":
                        got = [int(x.group(1)) for x in (re.match(r"\{'num': (\d+),", l) for l in lines) if x]
                    else:
                        got = [int(x.group(1)) for x in (re.match(r"\[(\d+)\](.) ", l) for l in lines) if x]
                    if got != mru or len(lines) != len(mru):
                        return fail("JOBS-OUTPUT/listing-differs-from-live-jobs-in-mru-order", got=got, lines=lines[:6])
                elif op == "bg":
                    purge_first = True
                    before_tbl = table()
                    r = J.bg(list(arg))
                    purge()
                    err = isinstance(r, tuple) and bool(r[1])
                    if not mru:
                        sel, experr = None, True
                    elif not arg or arg == ["+"]:
                        sel, experr = mru[0], False
                    elif arg == ["-"]:
                        experr = len(mru) < 2
                        sel = None if experr else mru[1]
                    else:
                        k = int(arg[0])
                        experr = k not in m
                        sel = None if experr else k
                    if err:
                        rec.count("error_returns")
                    if err != experr:
                        return fail("SELECT/bg-" + ("reports-error-for-valid-selection" if err else "accepts-invalid-selection"), arg=arg, returned=r)
                    if not err:
                        mru.remove(sel)
                        mru.insert(0, sel)
                        m[sel]["bg"], m[sel]["stopped"] = True, False
                        time.sleep(0.05)
                        if any(self._pstate(p) == "T" for p in m[sel]["pids"]):
                            return fail("REAL/bg-left-the-job-stopped", selected=sel)
                        rec.count("real_bg_resumed")
                elif op == "disown":
                    live = [n for n in mru]
                    k = live[arg % len(live)] if live and arg >= 0 else 99
                    was_dead = k in m and m[k]["dead"]
                    r = J.disown([str(k)])
                    err = isinstance(r, tuple) and bool(r[1])
                    if err:
                        rec.count("error_returns")
                    if k in m and not was_dead:
                        if err:
                            return fail("SELECT/disown-reports-error-for-valid-job", arg=k, returned=r)
                        strays.extend(m[k]["pids"])
                        mru.remove(k)
                        del m[k]
                        rec.count("real_disowned")
                    elif k not in m and not err:
                        return fail("SELECT/disown-accepts-invalid-job", arg=k, returned=r)
                    elif was_dead and not err:
                        mru.remove(k)
                        del m[k]
                    purge_model_only = [n for n in mru if m[n]["dead"]]
                    # disown purges nothing by itself; resync on dead jobs the table may or may not have dropped
                    jobs_now, _ = table()
                    for n in purge_model_only:
                        if n not in jobs_now:
                            mru.remove(n)
                            del m[n]
                rec.case(nontrivial=("real", op, str(arg), size) if size >= 2 else None)
                # structure + model after every step
                jobs_now, tasks_now = table()
                if len(set(tasks_now)) != len(tasks_now) or sorted(tasks_now) != sorted(jobs_now):
                    return fail("STRUCT/mru-deque-and-job-dict-disagree", where=op)
                exp = [n for n in mru]
                live_only = [n for n in tasks_now if n in m]
                if op in ("bg-start", "bg-pipeline", "bg-alias-first", "bg-alias-last", "suspend-start", "jobs", "jobs-posix", "jobs-captured", "bg"):
                    if tasks_now != exp:
                        return fail(f"TABLE-DIFFERS-FROM-MODEL/{op}", where=op)
                elif live_only != exp or any(n not in m and J.get_jobs()[n]["obj"].poll() is None for n in tasks_now):
                    return fail(f"TABLE-DIFFERS-FROM-MODEL/{op}", where=op)
            rec.count("real_histories_ok")
        finally:
            for n, v in m.items():
                strays.extend(v["pids"])
            for p in strays:
                try:
                    os.kill(p, signal.SIGKILL)
                except (OSError, TypeError):
                    pass

    def run_shard(self, sh, rec):
        if sh["kind"] == "real":
            rng = random.Random(f"{sh['seed']}/C20/real/{sh['index']}")
            cases = []
            for h in harness.budgeted(range(sh["n"]), rec):
                steps = []
                for _ in range(sh["steps"]):
                    r = rng.random()
                    if r < 0.22:
                        steps.append([rng.choice(["bg-start", "bg-start", "bg-pipeline", "bg-alias-first", "bg-alias-first"]), None])  # (alias-last: its thread waits for an EOF the shell itself withholds in the background - not a job-table matter)
                    elif r < 0.30:
                        steps.append(["suspend-start", None])
                    elif r < 0.38:
                        steps.append(["fgcmd", None])
                    elif r < 0.56:
                        steps.append(["kill", rng.randrange(100)])
                    elif r < 0.74:
                        steps.append([rng.choice(["jobs", "jobs-posix", "jobs-posix", "jobs-captured"]), None])
                    elif r < 0.88:
                        steps.append(["bg", rng.choice([[], ["+"], ["-"], ["1"], ["2"], ["3"], ["5"]])])
                    else:
                        steps.append(["disown", rng.choice([0, 1, 2, 3, -1])])
                cases.append({"kind": "real", "steps": steps})
            return self.run_real_in_pty(cases, rec, sh.get("timeout", 420) - 30)
        self._setup()
        rng = random.Random(f"{sh['seed']}/C20/{sh['index']}")
        if sh["kind"] == "conc":
            for i in harness.budgeted(range(sh["n"]), rec):
                case = {"kind": "conc", "seed": sh["seed"], "rseed": f"{sh['seed']}/{sh['index']}/{i}", "steps": 40, "p": 0.02}
                if i < 1:
                    rec.sample(case, "concurrent")
                self.run_conc(case, rec)
            st = self.inj.stats()
            rec.count("delays_injected", st["delays_injected"])
            rec.count("line_events", st["line_events"])
            for f in st["functions_hit"]:
                rec.setadd("functions_hit", f)
            self.inj.stop()
            return
        for h in harness.budgeted(range(sh["n"]), rec):
            steps = []
            for _ in range(sh["steps"]):
                r = rng.random()
                if r < 0.28:
                    steps.append(["start", [rng.random() < 0.6, rng.choice(["running", "running", "stopped"])]])
                elif r < 0.42:
                    steps.append(["exit", rng.randrange(100)])
                elif r < 0.50:
                    steps.append([rng.choice(["jobs", "jobs-posix"]), None])
                elif r < 0.56:
                    steps.append([rng.choice(["nextnum", "nexttask"]), None])
                else:
                    steps.append([rng.choice(["fg", "bg", "disown", "disown"]), rng.choice(ARGS)])
            case = {"layer": sh["layer"], "steps": steps}
            if h < 1:
                rec.sample(case, sh["layer"])
            self.run_case(case, rec)


CHECK = C20()

if __name__ == "__main__":
    harness.main(CHECK)
