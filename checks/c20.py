"""C20 - the job table is always consistent with the processes it tracks.

Stub process objects with scripted poll() are registered through the real add_job; random
histories of job starts, exits and jobs/fg/bg/disown invocations (valid and invalid
arguments) are compared after every step with the reference model of DESIGN Appendix A.5
and with structural invariants (deque is a duplicate-free permutation of the dict keys, all
listed jobs alive after a purge, lowest-free numbering).  Three layers: main thread only;
the commands that run under use_main_jobs issued from an alias-like worker thread; and a
two-thread layer with schedule perturbation restricted to what the main thread really does
while an alias stage such as `jobs | cat` runs.
"""

import io
import os
import random
import re
import threading

from vlib import harness


class Proc:
    def __init__(self):
        self.rc = None
        self.pid = None

    def poll(self):
        return self.rc


class Spec:
    captured = "hiddenobject"


class Pipe:
    spec = Spec()

    def __init__(self):
        self.resumed = []

    def resume(self, job, tee_output=True):
        self.resumed.append(tee_output)


class Model:
    def __init__(self):
        self.J = {}  # num -> dict(proc, bg, status, pipe)
        self.mru = []

    def purge(self):
        dead = [n for n in self.mru if self.J[n]["proc"].rc is not None]
        for n in dead:
            self.mru.remove(n)
            del self.J[n]

    def free(self):
        i = 1
        while i in self.J:
            i += 1
        return i


ARGS = [[], ["+"], ["-"], ["1"], ["2"], ["3"], ["4"], ["7"], ["0"], ["-1"], ["x"], ["1", "2"], ["+", "-"], [" 2"], ["2 "], ["1.0"]]


class C20:
    id = "C20"
    module = "checks.c20"
    level = "exploration"
    tables = True
    rule = (
        "cases = histories of 25 steps over {start fg/bg/suspended job, exit of a job, jobs, jobs --posix, fg|bg|disown x {none,+,-,live n,dead n,unused n,0,-1,x,two args}, "
        "get_next_job_number, get_next_task}; every step is an evaluation judged against the A.5 model and the structural invariants; layers: main thread, alias-like worker thread "
        "(sequential hand-off), two threads with sys.monitoring delay injection on jobs.py; distinct_nontrivial = distinct (layer, op, argument, table size, number of dead-unpurged jobs, outcome) tuples with table size >= 2"
    )
    assumptions = [
        "stub jobs use pids=[None] and pgrp=None so that the real _continue/_send_signal paths run but signal nobody",
        "reference model = DESIGN Appendix A.5; `disown` naming a finished job that was not purged yet is accepted either way (the statement does not order purge and disown)",
        "the concurrent layer restricts the main thread to add_job / job exit / get_next_task polling - what it really does while an alias stage runs; the hostile free-for-all of the design pilot is not judged",
    ]

    def shards(self, tier, seed):
        n = 16
        per = 700 if tier == "quick" else 12000
        out = [dict(kind="seq", layer=("main" if i % 2 == 0 else "worker"), index=i, n=per, steps=25, timeout=420 if tier == "quick" else 3000) for i in range(n - 4)]
        out += [dict(kind="conc", index=50 + i, n=(120 if tier == "quick" else 2500), timeout=420 if tier == "quick" else 3000) for i in range(4)]
        return out

    def floors(self, c, tier):
        r = []
        if c.get("steps", 0) < 20000:
            r.append("fewer than 20000 steps observed")
        if c.get("steps_with_dead_unpurged", 0) < 200:
            r.append("no steps taken while finished jobs were still in the table")
        if c.get("worker_thread_steps", 0) < 1000:
            r.append("alias-thread layer not exercised")
        if c.get("conc_histories", 0) < 50 or c.get("delays_injected", 0) < 200:
            r.append("concurrent layer saw too few injected delays")
        if c.get("error_returns", 0) < 500:
            r.append("error paths of fg/bg/disown not exercised")
        return r

    # ------------------------------------------------------------------
    def _setup(self):
        from vlib.session import make_session

        self.XSH, _, _ = make_session([])
        import xonsh.procs.jobs as J

        self.J = J

    def reset(self):
        J = self.J
        self.XSH.all_jobs.clear()
        J._tasks_main.clear()
        for a in ("tasks", "jobs"):
            if hasattr(J._jobs_thread_local, a):
                delattr(J._jobs_thread_local, a)

    def live_state(self):
        J = self.J
        jobs = J.get_jobs()
        return ({k: (v["bg"], v["status"]) for k, v in jobs.items()}, list(J.get_tasks()))

    def call(self, layer, fn):
        """Run fn on the main thread or on an alias-like worker thread (sequential hand-off)."""
        if layer == "main":
            return fn()
        box = {}

        def run():
            try:
                box["r"] = fn()
            except BaseException as e:  # noqa
                box["e"] = e

        t = threading.Thread(target=run, name="verif-alias")
        t.start()
        t.join()
        if "e" in box:
            raise box["e"]
        return box.get("r")

    def structural(self, rec, case, where, after_purge):
        J = self.J
        with J.use_main_jobs():
            jobs = dict(J.get_jobs())
            tasks = list(J.get_tasks())
        if len(set(tasks)) != len(tasks):
            rec.violation("STRUCT/duplicate-in-mru-deque", case, {"tasks": tasks, "where": where})
            return False
        if sorted(tasks) != sorted(jobs):
            rec.violation("STRUCT/mru-deque-and-job-dict-disagree", case, {"tasks": tasks, "jobs": sorted(jobs), "where": where})
            return False
        if after_purge and any(j["obj"].poll() is not None for j in jobs.values()):
            rec.violation("STRUCT/finished-job-still-listed-after-purge", case, {"where": where})
            return False
        return True

    def run_case(self, case, rec):
        if not hasattr(self, "XSH"):
            self._setup()
        if case.get("kind") == "conc":
            return self.run_conc(case, rec)
        J = self.J
        self.reset()
        layer = case["layer"]
        m = Model()
        procs = []
        trace = []
        for step in case["steps"]:
            op, arg = step[0], step[1]
            trace.append(step)
            sub = dict(case, steps=list(trace))
            dead_unpurged = sum(1 for n in m.mru if m.J[n]["proc"].rc is not None)
            size = len(m.mru)
            rec.count("steps")
            if dead_unpurged:
                rec.count("steps_with_dead_unpurged")
            if layer == "worker":
                rec.count("worker_thread_steps")
            outcome = "ok"
            purged = False
            if op == "start":
                bg, status = arg
                p, pipe = Proc(), Pipe()
                procs.append(p)
                info = {"cmds": [["sleep", str(len(procs))]], "pids": [None], "obj": p, "bg": bg, "pipeline": pipe, "pgrp": None, "status": status}
                J.add_job(info)  # pipelines are registered by the main thread (_run_command_pipeline)
                m.purge()
                n = m.free()
                m.J[n] = {"proc": p, "bg": bg, "status": status, "pipe": pipe}
                m.mru.insert(0, n)
                purged = True
                got = [k for k, v in J.get_jobs().items() if v["obj"] is p]
                if got != [n]:
                    rec.violation("NUMBERING/new-job-not-lowest-free-number", sub, {"got": got, "expected": n})
                    return
            elif op == "exit":
                live = [p for p in procs if p.rc is None]
                if live:
                    live[arg % len(live)].rc = 0
                continue
            elif op == "nextnum":
                got = J.get_next_job_number()
                m.purge()
                purged = True
                if got != m.free():
                    rec.violation("NUMBERING/get_next_job_number-not-lowest-free", sub, {"got": got, "expected": m.free()})
                    return
            elif op == "nexttask":
                t = J.get_next_task()
                m.purge()
                purged = True
                sel = next((n for n in m.mru if not m.J[n]["bg"] and m.J[n]["status"] == "running"), None)
                if sel is not None:
                    m.mru.remove(sel)
                    m.mru.insert(0, sel)
                gotn = next((k for k, v in J.get_jobs().items() if v is t), None) if t is not None else None
                if gotn != sel:
                    rec.violation("SELECT/get_next_task-wrong-job", sub, {"got": gotn, "expected": sel})
                    return
            elif op in ("jobs", "jobs-posix"):
                out = io.StringIO()
                self.call(layer, lambda: J.jobs(["--posix"] if op == "jobs-posix" else [], stdout=out))
                m.purge()
                purged = True
                lines = out.getvalue().splitlines()
                if op == "jobs-posix":
                    got = [(int(x.group(1)), x.group(2)) for x in (re.match(r"\[(\d+)\](.) ", l) for l in lines) if x]
                    exp = [(n, "+" if i == 0 else "-" if i == 1 else " ") for i, n in enumerate(m.mru)]
                else:
                    got = [int(x.group(1)) for x in (re.match(r"\{'num': (\d+),", l) for l in lines) if x]
                    exp = list(m.mru)
                if got != exp or len(lines) != len(exp):
                    rec.violation("JOBS-OUTPUT/listing-differs-from-live-jobs-in-mru-order", sub, {"got": got, "expected": exp, "lines": lines[:6]})
                    return
            elif op in ("fg", "bg"):
                before = self.live_state()
                f = J.fg if op == "fg" else J.bg
                r = self.call("main" if op == "fg" else layer, lambda: f(list(arg)))  # fg is @unthreadable: always main
                m.purge()
                purged = True
                err = isinstance(r, tuple) and bool(r[1])
                sel = None
                if not m.mru:
                    experr = True
                elif len(arg) == 0 or arg == ["+"]:
                    sel, experr = m.mru[0], False
                elif arg == ["-"]:
                    experr = len(m.mru) < 2
                    sel = None if experr else m.mru[1]
                elif len(arg) == 1:
                    try:
                        k = int(arg[0])
                    except ValueError:
                        k = None
                    experr = k not in m.J
                    sel = None if experr else k
                else:
                    experr = True
                if err:
                    rec.count("error_returns")
                    outcome = "error"
                if experr != err:
                    rec.violation(f"SELECT/{op}-" + ("reports-error-for-valid-selection" if err else "accepts-invalid-selection"), sub, {"arg": arg, "returned": r, "model_mru": m.mru})
                    return
                if err:
                    # purge is allowed, nothing else
                    now = self.live_state()
                    live_before = ({k: v for k, v in before[0].items() if k in m.J}, [t for t in before[1] if t in m.J])
                    if now != live_before:
                        rec.violation(f"ERROR-ALTERED-TABLE/{op}", sub, {"before": before, "after": now})
                        return
                else:
                    m.mru.remove(sel)
                    m.mru.insert(0, sel)
                    m.J[sel]["status"] = "running"
                    m.J[sel]["bg"] = op == "bg"
                    pipe = m.J[sel]["pipe"]
                    if len(pipe.resumed) != 1 or pipe.resumed[0] != (op == "fg"):
                        rec.violation(f"RESUME/{op}-did-not-resume-the-selected-job-exactly-once", sub, {"resumed": pipe.resumed, "selected": sel})
                        return
                    pipe.resumed.clear()
                    others = [n for n in m.J if n != sel and m.J[n]["pipe"].resumed]
                    if others:
                        rec.violation(f"RESUME/{op}-resumed-another-job", sub, {"others": others, "selected": sel})
                        return
            elif op == "disown":
                before = self.live_state()
                try:
                    r = self.call(layer, lambda: J.disown(list(arg)))
                except SystemExit:
                    r = ("", "usage")
                err = isinstance(r, tuple) and bool(r[1])
                ids = None
                try:
                    ids = [int(a) for a in arg]
                except ValueError:
                    pass
                pre = Model()
                pre.J, pre.mru = dict(m.J), list(m.mru)  # table before any purge
                m2 = Model()
                m2.J, m2.mru = dict(m.J), list(m.mru)
                m2.purge()
                if err:
                    rec.count("error_returns")
                    outcome = "error"
                if ids is None:
                    experr = {True}
                elif not ids:
                    # no argument: the current job; a finished-but-unpurged head is accepted either way
                    experr = {not pre.mru} if (not pre.mru or pre.mru[0] in m2.J) else {True, False}
                    ids_eff = pre.mru[:1]
                else:
                    if all(i in m2.J for i in ids) and len(set(ids)) == len(ids):
                        experr = {False}
                    elif all(i in pre.J for i in ids) and len(set(ids)) == len(ids):
                        experr = {True, False}
                    else:
                        experr = {True}
                    ids_eff = ids
                if not pre.mru:
                    experr = {True}
                if err not in experr:
                    rec.violation("SELECT/disown-" + ("reports-error-for-valid-job" if err else "accepts-invalid-job"), sub, {"arg": arg, "returned": r, "model_mru": pre.mru})
                    return
                if err and len(arg) <= 1:
                    now = self.live_state()
                    if now != before:
                        rec.violation("ERROR-ALTERED-TABLE/disown", sub, {"before": before, "after": now})
                        return
                if not err:
                    for i in ids_eff:
                        if i in m.J:
                            m.mru.remove(i)
                            del m.J[i]
                else:
                    # multi-id disown may have removed a prefix before failing: resync (structure is still judged)
                    live_jobs, live_tasks = self.live_state()
                    m.mru = [t for t in m.mru if t in live_jobs]
                    m.J = {k: v for k, v in m.J.items() if k in live_jobs}
            rec.case(nontrivial=(layer, op, str(arg), size, dead_unpurged, outcome) if size >= 2 else None)
            if not self.structural(rec, sub, op, purged):
                return
            # model vs live (compare on the live subset when no purge happened in this step)
            jobs, tasks = self.live_state()
            if purged:
                mm, mj = list(m.mru), {k: (v["bg"], v["status"]) for k, v in m.J.items()}
            else:
                mm, mj = list(m.mru), {k: (v["bg"], v["status"]) for k, v in m.J.items()}
            if tasks != mm or jobs != mj:
                rec.violation(f"TABLE-DIFFERS-FROM-MODEL/{op}", sub, {"tasks": tasks, "model_mru": mm, "jobs": jobs, "model_jobs": mj})
                return
        rec.count("histories_ok")

    # ------------------------------------------------------------------ concurrent layer
    def run_conc(self, case, rec):
        from vlib.sched import Injector

        J = self.J
        if not hasattr(self, "inj"):
            self.inj = Injector(case["seed"], p=case.get("p", 0.02), delays=(0.0, 0.0002, 0.001), cap=0.2)
            self.inj.target(J._clear_dead_jobs, J.add_job, J.get_next_job_number, J.get_next_task, J.resume_job, J.disown_fn, J.jobs, J.format_job_string, J.print_one_job, J.bg, J.use_main_jobs, J.get_task)
            self.inj.start()
        self.reset()
        self.inj.new_case()
        rng = random.Random(case["rseed"])
        procs, errors, disowned = [], [], []
        stop = threading.Event()

        def worker():
            r = random.Random(case["rseed"] + "/w")
            while not stop.is_set():
                op = r.choice(["jobs", "jobs", "jobs-posix", "disown", "bg"])
                try:
                    if op.startswith("jobs"):
                        J.jobs(["--posix"] if op.endswith("posix") else [], stdout=io.StringIO())
                    elif op == "disown":
                        with J.use_main_jobs():
                            ks = list(J.get_jobs())
                        if ks:
                            k = r.choice(ks)
                            out = J.disown_fn([k])
                            if isinstance(out, str) and "Removed job" in out:
                                disowned.append(k)
                    else:
                        J.bg([r.choice(["+", "-", "1", "2"])] if r.random() < 0.5 else [])
                except BaseException as x:  # noqa
                    errors.append(("alias-thread:" + op, type(x).__name__, str(x)[:80]))

        t = threading.Thread(target=worker, name="verif-alias")
        t.start()
        added = 0
        try:
            for step in range(case["steps"]):
                op = rng.choice(["start", "start", "exit", "poll", "poll"])
                try:
                    if op == "start":
                        p = Proc()
                        procs.append(p)
                        J.add_job({"cmds": [["sleep", str(step)]], "pids": [None], "obj": p, "bg": rng.random() < 0.7, "pipeline": Pipe(), "pgrp": None, "status": "running"})
                        added += 1
                    elif op == "exit":
                        live = [p for p in procs if p.rc is None]
                        if live:
                            rng.choice(live).rc = 0
                    else:
                        J.get_next_task()
                except BaseException as x:  # noqa
                    errors.append(("main:" + op, type(x).__name__, str(x)[:80]))
        finally:
            stop.set()
            t.join(20)
        rec.count("conc_histories")
        st = self.inj.stats()
        J._clear_dead_jobs()
        jobs = J.get_jobs()
        tasks = list(J.get_tasks())
        live = {id(p) for p in procs if p.rc is None}
        present = {id(j["obj"]) for j in jobs.values()}
        rec.case(nontrivial=case["rseed"])
        sig = self.inj.new_case()
        if sig:
            rec.setadd("interleaving_signatures", sig)
        detail = {"errors": errors[:4], "tasks": tasks, "jobs": sorted(jobs)}
        if errors:
            # symptoms of unsynchronised access to the deque/dict pair; anything else keeps its own name
            expected = {("RuntimeError", "deque mutated during iteration"), ("ValueError", "not in deque"), ("IndexError", "deque index out of range"), ("KeyError", "")}
            for side in sorted({e[0].split(":")[0] for e in errors}):
                mine = [e for e in errors if e[0].startswith(side)]
                if all(any(e[1] == t and frag in e[2] for t, frag in expected) for e in mine):
                    rec.violation(f"RACE/unsynchronised-job-table/exception-on-{side}", case, detail)
                else:
                    odd = next(e for e in mine if not any(e[1] == t and frag in e[2] for t, frag in expected))
                    rec.violation(f"RACE/{side}/{odd[1]}", case, detail)
        elif len(set(tasks)) != len(tasks) or sorted(tasks) != sorted(jobs):
            rec.violation("RACE/mru-deque-and-job-dict-disagree-at-quiescence", case, detail)
        elif not present <= live:
            rec.violation("RACE/finished-job-listed-at-quiescence", case, detail)
        elif len(live - present) > len(disowned):
            rec.violation("RACE/live-job-lost-from-table", case, detail)

    def run_shard(self, sh, rec):
        self._setup()
        rng = random.Random(f"{sh['seed']}/C20/{sh['index']}")
        if sh["kind"] == "conc":
            for i in range(sh["n"]):
                case = {"kind": "conc", "seed": sh["seed"], "rseed": f"{sh['seed']}/{sh['index']}/{i}", "steps": 40, "p": 0.02}
                if i < 1:
                    rec.sample(case, "concurrent")
                self.run_conc(case, rec)
            st = self.inj.stats()
            rec.count("delays_injected", st["delays_injected"])
            rec.count("line_events", st["line_events"])
            for f in st["functions_hit"]:
                rec.setadd("functions_hit", f)
            self.inj.stop()
            return
        for h in range(sh["n"]):
            steps = []
            for _ in range(sh["steps"]):
                r = rng.random()
                if r < 0.28:
                    steps.append(["start", [rng.random() < 0.6, rng.choice(["running", "running", "stopped"])]])
                elif r < 0.42:
                    steps.append(["exit", rng.randrange(100)])
                elif r < 0.50:
                    steps.append([rng.choice(["jobs", "jobs-posix"]), None])
                elif r < 0.56:
                    steps.append([rng.choice(["nextnum", "nexttask"]), None])
                else:
                    steps.append([rng.choice(["fg", "bg", "disown", "disown"]), rng.choice(ARGS)])
            case = {"layer": sh["layer"], "steps": steps}
            if h < 1:
                rec.sample(case, sh["layer"])
            self.run_case(case, rec)


CHECK = C20()

if __name__ == "__main__":
    harness.main(CHECK)
