"""C06 - captured output is complete, ordered and exactly what the command wrote.

A producer (external `writer` process or a threaded alias) writes a self-describing payload P with a
given chunking, inter-chunk delay, exit code and exit timing, possibly through further stages (cat-like
processes and aliases, `head -c`).  The capture - `$()`, `!()` (.out / iteration / .raw_out / .rtn),
`@$()` - is compared with the documented image of P (raw: P; text: CR/CRLF -> LF, CSI sequences removed,
one-line `$()` minus its final newline).  The worker's fds 1/2 are files, so echoed captures and stderr
mixing are visible.  xonsh's reader / proxy / closer threads run under the sys.monitoring schedule
injector (vlib.sched): every statement boundary of the targeted functions may be delayed.
"""

import os
import random
import re
import sys
import threading
import time
import traceback

from vlib import harness

CSI = re.compile(r"\x1b\[[0-?]*[ -/]*[@-~]")
SIZES = [0, 1, 7, 8, 100, 1023, 1024, 1025, 4095, 4096, 4097, 8192, 20000, 65535, 65536, 65537, 131072, 200000]
CHUNKS = [1, 7, 512, 1024, 4096, 65536, 1 << 20]
NOISE = "<STDERR-NOISE>\n"


# ---- payloads ------------------------------------------------------------------------------------
def make_payload(spec):
    rng = random.Random(spec["seed"])
    kind, size = spec["kind"], spec["size"]
    out = bytearray()
    i = 0
    if kind == "binary":
        out = bytearray(rng.randbytes(size))
        # alternate-screen switches are documented pass-through, keep them out
        return bytes(out.replace(b"\x1b[?", b"\x1b[!"))
    if kind == "oneline":
        body = ("%07d" % 0) + "".join(rng.choice("abcdefghijklmnopqrstuvwxyz ") for _ in range(max(size - 8, 0)))
        out = bytearray(body[: max(size - 1, 0)].encode())
        if spec["final_nl"] and size:
            out += b"\n"
        return bytes(out)
    while len(out) < size:
        if kind == "words":
            line = " ".join("w%06d" % (i * 8 + k) for k in range(rng.randint(1, 8))) + "\n"
        elif kind == "crlf":
            line = ("%07d" % i) + "x" * rng.choice([0, 3, 60]) + rng.choice(["\r\n", "\r\n", "\n", "\r"])
        elif kind == "ansi":
            line = "\x1b[%dm%07d\x1b[0m" % (rng.randint(30, 37), i) + rng.choice(["", "\x1b[1;32mtext\x1b[m", "plain"]) + "\n"
        elif kind == "utf8":
            line = ("%07d" % i) + rng.choice(["", "éè", "中文", "\U0001f600", "abc"]) * rng.choice([1, 5]) + "\n"
        else:  # lines
            line = ("%07d" % i) + "." * rng.choice([0, 0, 1, 10, 70, 300]) + "\n"
        out += line.encode()
        i += 1
    out = out[:size]
    # never cut inside a multi-byte character / escape sequence: trim back to the last complete line start when needed
    if kind in ("utf8", "ansi", "crlf", "words") and size:
        j = max(out.rfind(b"\n"), out.rfind(b"\r"))
        out = out[: j + 1] if j >= 0 else bytearray(b"")
    if not spec["final_nl"]:
        while out and out[-1:] in (b"\n", b"\r"):
            out = out[:-1]
    elif out and out[-1:] not in (b"\n", b"\r"):
        out = out[:-1] + b"\n"
    return bytes(out)


def canon(s):
    return s.replace("\r\n", "\n").replace("\r", "\n")


def text_image(payload):
    return canon(CSI.sub("", payload.decode("utf-8", "surrogateescape")))


def one_line(t):
    return t.count("\n") == 0 or (t.count("\n") == 1 and t.endswith("\n"))


def diagnose(exp, act):
    """lost tail / hole / duplicate / reorder / kept escape / extra newline ..., from the data itself"""
    if act == exp:
        return None
    if isinstance(exp, str):
        if canon(CSI.sub("", act)) == exp:
            return "escape-sequence-kept"
        if [l for l in act.split("\n") if l] == [l for l in exp.split("\n") if l] and act.count("\n") > exp.count("\n"):
            return "extra-newline"
        if act.encode("utf-8", "surrogateescape") == exp.encode("utf-8", "surrogateescape"):
            return "undecoded-multibyte-character"
        exp, act = exp.encode("utf-8", "surrogateescape"), act.encode("utf-8", "surrogateescape")
    if len(act) < len(exp) and exp.startswith(act):
        return "lost-tail"
    if len(act) < len(exp) and exp.endswith(act):
        return "lost-head"
    # common prefix / suffix
    n = min(len(exp), len(act))
    a = 0
    while a < n and exp[a] == act[a]:
        a += 1
    b = 0
    while b < n - a and exp[len(exp) - 1 - b] == act[len(act) - 1 - b]:
        b += 1
    if len(act) < len(exp) and a + b >= len(act):
        return "hole"
    if len(act) > len(exp):
        # every 48-byte window of the surplus region already occurs in the payload: chunks were delivered twice
        ins = act[a : len(act) - b] if a + b <= len(exp) else act[a : a + (len(act) - len(exp))]
        wins = [ins[i : i + 48] for i in range(0, max(len(ins) - 48, 1), 48)]
        if wins and sum(1 for w in wins if w in exp) >= 0.9 * len(wins):
            return "duplicate"
        if 0 < len(ins) < 48 and len(ins) >= 4:
            # a short surplus (1-byte writes): it is a repeat when the bytes delivered just before the surplus reappear in it
            k = min(len(ins), a)
            if k >= 4 and (act[a - k : a].endswith(ins[-min(8, len(ins)):]) or ins in exp or all(ins[i : i + 4] in exp for i in range(0, len(ins) - 3, 4))):
                return "duplicate"
        if ins.strip(b"\r\n") == b"":
            return "extra-newline"
        return "foreign-bytes"
    if sorted(exp.split(b"\n")) == sorted(act.split(b"\n")):
        return "reordered"
    return "differs"


def firstdiff(exp, act):
    n = min(len(exp), len(act))
    a = 0
    while a < n and exp[a] == act[a]:
        a += 1
    return {"at": a, "expected": repr(exp[max(a - 30, 0) : a + 60]), "actual": repr(act[max(a - 30, 0) : a + 60]), "expected_len": len(exp), "actual_len": len(act)}


# ---- case rendering -------------------------------------------------------------------------------
def render(case, pfile):
    st = []
    for i, s in enumerate(case["stages"]):
        k = s["kind"]
        if k == "writer":
            st.append(f"writer {pfile} {s['chunk']} {s['delay']} {s['rc']} {s.get('linger', 0)}")
        elif k == "awriter":
            st.append(f"awriter {pfile} {s['chunk']} {s['delay']} {s['rc']} {s.get('style', 'buffer')}")
        elif k == "catrc":
            st.append(f"catrc {s['rc']} {s.get('delay', 0)}")
        elif k == "acat":
            st.append(f"acat {s['rc']}")
        elif k == "cat":
            st.append("cat")
        elif k == "head":
            st.append(f"head -c {s['n']}")
        else:
            raise ValueError(k)
    cmd = " | ".join(st)
    f = case["form"]
    if f == "$()":
        return f"r = $({cmd})"
    if f == "!()":
        return f"r = !({cmd})"
    if f == "@$()":
        return f"argv_dump @$({cmd})"
    raise ValueError(f)


def final_rc(case):
    s = case["stages"][-1]
    return 0 if s["kind"] in ("cat", "head") else s["rc"]


def expected_payload(case, payload):
    for s in case["stages"]:
        if s["kind"] == "head":
            payload = payload[: s["n"]]
    return payload


def final_proxy(case):
    k = case["stages"][-1]["kind"]
    if k in ("awriter", "acat"):
        return "alias" if case.get("threads", True) else "alias-nothread"
    return "process" if case.get("threads", True) else "process-nothread"


# ---- generator -----------------------------------------------------------------------------------
def gen_case(rng, tier):
    kind = rng.choice(["lines"] * 4 + ["crlf", "ansi", "utf8", "oneline", "oneline", "binary", "words"])
    sizes = SIZES + ([1 << 20] if tier != "quick" else [])
    size = rng.choice(sizes)
    if kind == "oneline":
        size = rng.choice([0, 1, 2, 8, 100, 4096, 4097, 20000, 65537])
    form = rng.choice(["$()"] * 3 + ["!()"] * 4 + ["@$()"])
    if kind == "words":
        form = "@$()"
        size = min(size, 20000)
    elif form == "@$()":
        kind = "words"
        size = min(size, 20000)
    if kind == "binary":
        form = "!()"
    pl = {"kind": kind, "size": size, "final_nl": rng.random() < 0.7, "seed": rng.randrange(1 << 30)}
    chunk = rng.choice(CHUNKS)
    if size // max(chunk, 1) > 3000:
        chunk = rng.choice([c for c in CHUNKS if size // c <= 3000])
    nchunks = size // chunk + 1
    delay = rng.choice([0, 0, 0.0005, 0.002]) if nchunks < 200 else 0
    rc = rng.choice([0, 0, 1, 3, 255])
    shape = rng.choice(["w", "w", "w", "a", "a", "w|catrc", "w|acat", "a|catrc", "a|acat", "w|cat|catrc", "w|acat|catrc", "w|head", "a|head", "w|catrc|acat", "w|head|catrc", "w|head|cat", "a|head|catrc", "w|head|acat"])
    threads = rng.random() < 0.9
    stages = []
    for tok in shape.split("|"):
        if tok == "w":
            stages.append({"kind": "writer", "chunk": chunk, "delay": delay, "rc": rc if len(shape) == 1 else rng.choice([0, 1]), "linger": rng.choice([0, 0, 0, 0.05])})
        elif tok == "a":
            stages.append({"kind": "awriter", "chunk": max(chunk, 7), "delay": delay, "rc": rc if len(shape) == 1 else rng.choice([0, 1]), "style": rng.choice(["buffer", "text", "print", "return"]) if kind != "binary" else "buffer"})
        elif tok == "catrc":
            stages.append({"kind": "catrc", "rc": rng.choice([0, 0, 2, 7]), "delay": rng.choice([0, 0, 0.001])})
        elif tok == "acat":
            stages.append({"kind": "acat", "rc": rng.choice([0, 0, 4])})
        elif tok == "cat":
            stages.append({"kind": "cat"})
        elif tok == "head":
            stages.append({"kind": "head", "n": rng.choice([0, 1, 100, 4096, 5000, 70000])})
    if not threads:
        # without $THREAD_SUBPROCS callable aliases are documented as not pipeable
        if len(stages) > 1:
            for s in stages:
                if s["kind"] == "awriter":
                    s.update(kind="writer", linger=0)
                    s.pop("style", None)
                elif s["kind"] == "acat":
                    s.update(kind="catrc")
    if not threads and stages[0]["kind"] == "awriter" and stages[0]["style"] == "print":
        stages[0]["style"] = "text"  # AVOID: print() in an alias on the main thread bypasses every redirect (C07 finding); directed witness kept
    if stages[0]["kind"] == "awriter" and stages[0]["style"] == "return" and size > 70000:
        stages[0]["style"] = "buffer"
    view = rng.choice(["out", "iter", "raw", "raw"]) if form == "!()" else "str"
    if kind == "binary":
        view = "raw"
    return {"payload": pl, "stages": stages, "form": form, "view": view, "threads": threads, "noise": rng.random() < 0.4, "p": rng.choice([0, 0.003, 0.01, 0.03])}


DIRECTED = [
    # single short line written byte by byte: the one-line rule must not depend on how many reads it took
    {"payload": {"kind": "oneline", "size": 8, "final_nl": True, "seed": 1}, "stages": [{"kind": "writer", "chunk": 1, "delay": 0.002, "rc": 0, "linger": 0}], "form": "$()", "view": "str", "threads": True, "noise": False, "p": 0},
    # CRLF split across two writes
    {"payload": {"kind": "crlf", "size": 4096, "final_nl": True, "seed": 2}, "stages": [{"kind": "writer", "chunk": 7, "delay": 0.0005, "rc": 0, "linger": 0}], "form": "!()", "view": "out", "threads": True, "noise": False, "p": 0},
    # escape sequence split across two writes
    {"payload": {"kind": "ansi", "size": 4096, "final_nl": True, "seed": 3}, "stages": [{"kind": "writer", "chunk": 7, "delay": 0.0005, "rc": 0, "linger": 0}], "form": "$()", "view": "str", "threads": True, "noise": False, "p": 0},
    # DESIGN §C06 directed witness: a delay right after `p = membuf.tell()` in PopenThread._alt_mode_writer
    {"payload": {"kind": "lines", "size": 20000, "final_nl": True, "seed": 4}, "stages": [{"kind": "writer", "chunk": 512, "delay": 0.002, "rc": 0, "linger": 0}], "form": "!()", "view": "raw", "threads": True, "noise": False, "p": 0,
     "forced": [["_alt_mode_writer", "p = membuf.tell()", 1, 0.03]]},
    # fragment boundaries without reader threads ($THREAD_SUBPROCS off)
    {"payload": {"kind": "ansi", "size": 8192, "final_nl": True, "seed": 6}, "stages": [{"kind": "writer", "chunk": 7, "delay": 0.0005, "rc": 0, "linger": 0}], "form": "$()", "view": "str", "threads": False, "noise": False, "p": 0},
    {"payload": {"kind": "crlf", "size": 8192, "final_nl": True, "seed": 7}, "stages": [{"kind": "writer", "chunk": 7, "delay": 0.0005, "rc": 0, "linger": 0}], "form": "!()", "view": "out", "threads": False, "noise": False, "p": 0},
    {"payload": {"kind": "utf8", "size": 8192, "final_nl": True, "seed": 8}, "stages": [{"kind": "writer", "chunk": 7, "delay": 0.0005, "rc": 0, "linger": 0}], "form": "!()", "view": "out", "threads": False, "noise": False, "p": 0},
    {"payload": {"kind": "utf8", "size": 8192, "final_nl": True, "seed": 9}, "stages": [{"kind": "writer", "chunk": 7, "delay": 0.0005, "rc": 0, "linger": 0}], "form": "$()", "view": "str", "threads": True, "noise": False, "p": 0},
    # a middle stage exits early while its producer is still writing and cannot finish on its own: the last stage must still see EOF
    {"payload": {"kind": "lines", "size": 200000, "final_nl": True, "seed": 10}, "stages": [{"kind": "writer", "chunk": 4096, "delay": 0.001, "rc": 0, "linger": 0}, {"kind": "head", "n": 100}, {"kind": "catrc", "rc": 0, "delay": 0}], "form": "$()", "view": "str", "threads": True, "noise": False, "p": 0},
    {"payload": {"kind": "lines", "size": 200000, "final_nl": True, "seed": 11}, "stages": [{"kind": "writer", "chunk": 4096, "delay": 0.001, "rc": 0, "linger": 0}, {"kind": "head", "n": 5000}, {"kind": "cat"}], "form": "!()", "view": "raw", "threads": True, "noise": False, "p": 0},
    {"payload": {"kind": "lines", "size": 200000, "final_nl": True, "seed": 12}, "stages": [{"kind": "awriter", "chunk": 4096, "delay": 0.001, "rc": 0, "style": "buffer"}, {"kind": "head", "n": 100}, {"kind": "catrc", "rc": 3, "delay": 0}], "form": "!()", "view": "out", "threads": True, "noise": False, "p": 0},
    # print() inside an alias that runs on the main thread ($THREAD_SUBPROCS off)
    {"payload": {"kind": "lines", "size": 100, "final_nl": True, "seed": 5}, "stages": [{"kind": "awriter", "chunk": 4096, "delay": 0, "rc": 0, "style": "print"}], "form": "!()", "view": "out", "threads": False, "noise": False, "p": 0},
]


class C06:
    id = "C06"
    module = "checks.c06"
    level = "exploration"
    tables = True
    rule = (
        "cases = payload kind {counter lines, CR/CRLF mixes, SGR escape sequences, multi-byte UTF-8, one line with/without newline, all byte values, words} x size {0 .. 200 000 (1 MiB thorough), around 1 KiB/4 KiB/64 KiB boundaries} "
        "x write chunking {1 .. 1 MiB} x inter-chunk delay x exit code x exit timing (immediately / stdout closed then lingering) x pipeline shape (external writer, threaded alias writing via buffer/text/print()/return value, "
        "cat-like process and alias stages, early-exit `head -c`) x capture form/view {$(), !().out, iteration, .raw_out, @$()} x $THREAD_SUBPROCS x stderr noise, each run under a seeded schedule injector with p in {0, .003, .01, .03}, plus a one-preemption sweep: every statement line of the targeted functions held in turn (12 ms; thorough 3/12/40 ms) under four standard captures, alone and with a late reader thread, "
        "on xonsh's reader/proxy/closer functions; distinct_nontrivial = distinct (payload kind, size, chunk, shape, view, p) with a non-empty payload"
    )
    assumptions = [
        "text views are compared after CR/CRLF -> LF on both sides, so which lone CRs xonsh converts is not judged; payloads contain no \\x01/\\x02 spans, C1 CSI or alternate-screen switches (documented pass-through)",
        "`.out` of a one-line output may or may not keep its final newline (the statement only fixes this for `$()`); text views are not judged for payloads that are not valid UTF-8 (raw view is)",
        "a case that exceeds the 25 s watchdog is a violation only if no thread made progress between two stack samples 5 s apart and the last stage has exited (deadlock); otherwise it is counted inconclusive",
        "injected delays only happen at statement boundaries of Python code, which are real preemption points",
    ]

    TARGETS = [
        ("xonsh.procs.readers", ["populate_fd_queue", "QueueReader.read_queue", "QueueReader.is_fully_read", "QueueReader.iterqueue", "QueueReader.readlines", "QueueReader.read", "QueueReader._read_all_lines", "populate_buffer"]),
        ("xonsh.procs.posix", ["PopenThread.run", "PopenThread._read_write", "PopenThread._alt_mode_writer", "PopenThread._alt_mode_switch", "PopenThread.wait"]),
        ("xonsh.procs.pipelines", ["CommandPipeline.iterraw", "CommandPipeline.tee_stdout", "CommandPipeline._prev_procs_done", "CommandPipeline._close_prev_procs", "CommandPipeline._close_proc", "CommandPipeline._end", "PrevProcCloser.run"]),
        ("xonsh.procs.proxies", ["ProcProxyThread.run", "ProcProxyThread.wait", "ProcProxyThread._signal_int"]),
        ("xonsh.procs.pipes", ["PipeChannel.close_writer", "PipeChannel.close_reader", "PipeChannel.close"]),
    ]

    def shards(self, tier, seed):
        per = 75 if tier == "quick" else 1500
        out = [dict(index=i, n=per, timeout=900 if tier == "quick" else 7000) for i in range(16)]
        # one-preemption sweep: every statement line of every targeted function in turn becomes a forced preemption
        # point (the thread that reaches it is held for a few milliseconds) under a few standard captures
        nsw = 16
        out += [dict(kind="sweep", index=i, nsweep=nsw, timeout=900 if tier == "quick" else 7000) for i in range(nsw)]
        return out

    def floors(self, c, tier):
        r = []
        if c.get("captures_judged", 0) < 800:
            r.append("fewer than 800 captures judged")
        if c.get("delays_injected", 0) < 1000:
            r.append("fewer than 1000 delays injected")
        if c.get("set:interleavings", 0) < 50:
            r.append("fewer than 50 distinct interleaving signatures")
        if c.get("set:functions_hit", 0) < 12:
            r.append("targeted functions not reached")
        if c.get("sweep_sites", 0) < 150 or c.get("sweep_forced_delays_taken", 0) < 300:
            r.append(f"one-preemption sweep covered too little ({c.get('sweep_sites', 0)} sites, {c.get('sweep_forced_delays_taken', 0)} forced delays taken)")
        for v in ("str", "out", "iter", "raw", "words"):
            if c.get("view_" + v, 0) < 20:
                r.append(f"view {v} under-exercised")
        return r

    def _setup(self):
        from vlib.sched import Injector
        from vlib.session import make_sandbox_path, make_session

        scratch = os.environ["VERIF_SCRATCH"]
        self.scratch = scratch
        self.sb = make_sandbox_path(scratch)
        self.work = os.path.join(scratch, f"c06-{os.getpid()}")
        os.makedirs(self.work, exist_ok=True)
        self.dump = os.path.join(scratch, f"c06-argv-{os.getpid()}.jsonl")
        self.XSH, self.ex, self.ctx = make_session([self.sb], env={"PWD": self.work, "THREAD_SUBPROCS": True, "VERIF_ARGV_OUT": self.dump, "XONSH_SUBPROC_RAISE_ERROR": False})

        def awriter(args, stdin=None, stdout=None, stderr=None):
            with open(args[0], "rb") as fh:
                data = fh.read()
            chunk, delay, rc, style = int(args[1]), float(args[2]), int(args[3]), args[4]
            if os.environ.get("VERIF_C06_NOISE"):
                stderr.write(NOISE)
                stderr.flush()
            if style == "return":
                return (data.decode("utf-8"), None, rc)
            i = 0
            while i < len(data):
                b = data[i : i + chunk]
                if style == "buffer":
                    stdout.buffer.write(b)
                    stdout.flush()
                else:
                    # never split a multi-byte character between two text writes
                    while True:
                        try:
                            t = b.decode("utf-8")
                            break
                        except UnicodeDecodeError:
                            chunk_end = i + len(b) + 1
                            b = data[i:chunk_end]
                    if style == "print":
                        print(t, end="", flush=True)
                    else:
                        stdout.write(t)
                        stdout.flush()
                i += len(b)
                if delay:
                    time.sleep(delay)
            return rc

        def acat(args, stdin=None, stdout=None):
            src = stdin.buffer if hasattr(stdin, "buffer") else stdin
            while True:
                b = src.read(65536)
                if not b:
                    break
                if isinstance(b, str):
                    b = b.encode()
                stdout.buffer.write(b)
                stdout.flush()
            return int(args[0])

        self.XSH.aliases["awriter"] = awriter
        self.XSH.aliases["acat"] = acat
        os.chdir(self.work)
        self.t1 = os.open(os.path.join(scratch, f"c06-T1-{os.getpid()}"), os.O_RDWR | os.O_CREAT | os.O_APPEND, 0o600)
        self.t2 = os.open(os.path.join(scratch, f"c06-T2-{os.getpid()}"), os.O_RDWR | os.O_CREAT | os.O_APPEND, 0o600)
        self.real1, self.real2 = os.dup(1), os.dup(2)
        # schedule injector on the reader / proxy / closer machinery
        import importlib

        self.inj = Injector(seed=os.environ.get("VERIF_SEED", "0") + f"/{os.getpid()}", p=0.0)
        self.target_funcs = {}
        for mod, names in self.TARGETS:
            m = importlib.import_module(mod)
            for n in names:
                obj = m
                try:
                    for part in n.split("."):
                        obj = getattr(obj, part)
                except AttributeError:
                    continue
                self.inj.target(obj)
                self.target_funcs[n.split(".")[-1]] = obj
        self.inj.start()

    def stacks(self):
        out = {}
        for tid, fr in sys._current_frames().items():
            name = next((t.name for t in threading.enumerate() if t.ident == tid), str(tid))
            out[name] = [f"{f.filename.rsplit('/', 1)[-1]}:{f.lineno}:{f.name}" for f in traceback.extract_stack(fr)[-6:]]
        return out

    def execute(self, case, src):
        from vlib.session import read_argv_dump, reset_jobs, settle

        try:
            os.unlink(self.dump)
        except OSError:
            pass
        self.XSH.env["THREAD_SUBPROCS"] = bool(case.get("threads", True))
        env = self.XSH.env
        if case.get("noise"):
            env["VERIF_WRITER_STDERR"] = NOISE
            os.environ["VERIF_C06_NOISE"] = "1"
        else:
            env.pop("VERIF_WRITER_STDERR", None)
            os.environ.pop("VERIF_C06_NOISE", None)
        self.ctx.pop("r", None)
        self.stale_jobs = reset_jobs()
        self.inj.new_case()
        self.inj.p = case.get("p", 0)
        self.inj.forced = {}
        for fname, needle, off, d in case.get("forced", []):
            from vlib.sched import find_line

            loc = find_line(self.target_funcs[fname], needle, off)
            if loc:
                self.inj.forced[loc] = d
        for coname, lineno, d in case.get("forced_sites", []):
            self.inj.forced[(coname, lineno)] = d
        self.repair_std()
        sys.stdout.flush()
        sys.stderr.flush()
        os.ftruncate(self.t1, 0)
        os.ftruncate(self.t2, 0)
        os.dup2(self.t1, 1)
        os.dup2(self.t2, 2)
        err = None
        res = {}
        try:
            try:
                with harness.alarm(25):
                    self.ex.exec(src + "\n", glbs=self.ctx, locs=None, mode="exec", filename="<c06>")
                    r = self.ctx.get("r")
                    if case["form"] == "!()":
                        v = case["view"]
                        if v == "iter":
                            res["value"] = list(r)
                        elif v == "raw":
                            res["value"] = r.raw_out
                        else:
                            res["value"] = r.out
                        res["rtn"] = r.rtn
                        res["raw_after"] = r.raw_out
                        res["out_after"] = r.out
                    elif case["form"] == "$()":
                        res["value"] = r
                        res["rtn"] = self.XSH.lastcmd.rtn if self.XSH.lastcmd is not None else None
            except harness.CaseTimeout as e:
                s1 = self.stacks()
                s1["MainThread"] = [f"{f.filename.rsplit('/', 1)[-1]}:{f.lineno}:{f.name}" for f in traceback.extract_tb(e.__traceback__) if "/xonsh/" in f.filename][-8:]
                err = ("HANG", s1)
            except BaseException as e:  # noqa
                err = (type(e).__name__, str(e)[:200])
            self.inj.p = 0
            self.inj.forced = {}
            if err and err[0] == "HANG":
                time.sleep(5)
                s2 = self.stacks()
                stuck = {k: v for k, v in s2.items() if err[1].get(k) == v and k != "MainThread"}
                err = ("HANG", {"main_was_at": err[1]["MainThread"], "stuck_threads": stuck, "moved": sorted(set(s2) - set(stuck) - {"MainThread"}), "children": self.children()})
            settled = self.settle(5)
            for stream in (sys.stdout, sys.stderr):
                try:
                    stream.flush()
                except ValueError:
                    pass  # reported below by the sys.std* probe
        finally:
            os.dup2(self.real1, 1)
            os.dup2(self.real2, 2)
        res["term1"] = os.pread(self.t1, 1 << 22, 0)
        res["term2"] = os.pread(self.t2, 1 << 22, 0)
        if case["form"] == "@$()" and err is None:
            d = read_argv_dump(self.dump)
            res["value"] = d[0]["argv"][1:] if d else None
        res["settled"] = settled
        res["std_closed"] = [n for n in ("stdin", "stdout", "stderr") if getattr(getattr(sys, n), "closed", False)]
        return err, res

    def children(self):
        out = []
        try:
            for tid in os.listdir("/proc/self/task"):
                with open(f"/proc/self/task/{tid}/children") as fh:
                    for pid in fh.read().split():
                        try:
                            with open(f"/proc/{pid}/stat") as st:
                                f = st.read().rsplit(")", 1)
                            out.append(f[0].split("(", 1)[1] + ":" + f[1].split()[0])
                        except OSError:
                            pass
        except OSError:
            pass
        return sorted(out)

    def repair_std(self):
        for n, fd, mode in (("stdout", 1, "w"), ("stderr", 2, "w"), ("stdin", 0, "r")):
            if getattr(getattr(sys, n), "closed", False):
                setattr(sys, n, open(fd, mode, closefd=False))
                setattr(sys, "__" + n + "__", getattr(sys, n))

    def settle(self, timeout):
        """wait for xonsh's helper threads of the finished command; threads already reported as stuck are ignored"""
        self.ignored = getattr(self, "ignored", set())
        end = time.time() + timeout
        while True:
            alive = [t for t in threading.enumerate() if t is not threading.main_thread() and t.is_alive() and t.ident not in self.ignored and not t.name.startswith("verif") and not isinstance(t, threading._DummyThread)]
            if not alive:
                return []
            if time.time() > end:
                st = self.stacks()
                out = [(type(t).__name__, st.get(t.name, ["?"])) for t in alive]
                self.ignored.update(t.ident for t in alive)
                return out
            time.sleep(0.01)

    def run_case(self, case, rec):
        if not hasattr(self, "XSH"):
            self._setup()
        payload = make_payload(case["payload"])
        pfile = os.path.join(self.work, "payload.bin")
        with open(pfile, "wb") as fh:
            fh.write(payload)
        src = render(case, pfile)
        shape = "|".join(s["kind"] for s in case["stages"])
        key = (case["payload"]["kind"], case["payload"]["size"], case["stages"][0].get("chunk"), shape, case["form"], case["view"], case["p"], case["threads"])
        rec.case(nontrivial=repr(key) if payload else None)
        err, res = self.execute(case, src)
        if self.stale_jobs:
            rec.count("unfinished_jobs_left_by_previous_case", self.stale_jobs)
        sig = self.inj.new_case()
        if sig:
            rec.setadd("interleavings", sig)
        st = self.inj.stats()
        rec.count("delays_injected", st["delays_injected"] - getattr(self, "_last_inj", 0))
        self._last_inj = st["delays_injected"]
        for f in st["functions_hit"]:
            rec.setadd("functions_hit", f)
        prox = final_proxy(case)
        kind = case["payload"]["kind"]
        info = {"src": src.replace(pfile, "PAYLOAD"), "payload_len": len(payload), "case_p": case["p"]}
        if err:
            if err[0] == "HANG":
                info["stacks"] = err[1]
                info["term2_tail"] = res["term2"][-600:].decode("utf-8", "replace")
                # a real deadlock: 60 s in, no helper thread moved between two samples 5 s apart and no child is still running
                running = [c for c in err[1]["children"] if not c.endswith(":Z")]
                if not err[1]["moved"] and not running:
                    where = err[1]["main_was_at"][-1].split(":")[-1] if err[1]["main_was_at"] else "?"
                    nal = sum(1 for s in case["stages"] if s["kind"] in ("awriter", "acat"))
                    cls = "queue-reader-wait" if where in ("read_queue", "iterqueue", "is_fully_read", "_read_all", "read", "readlines", "_read_all_lines") else "poll-loop"
                    info["main_in"] = where
                    rec.violation(f"DEADLOCK/{cls}/alias-stages-{min(nal, 2)}{'+' if nal >= 2 else ''}", case, info)
                else:
                    rec.count("watchdog_fired_not_judged")
                    rec.sample({"src": info["src"], "case": case, "stacks": err[1]}, "watchdog", per_class=3)
                # the session may hold stuck threads: rebuild it
                self.inj.stop()
                self._setup()
                return
            info["error"] = err
            rec.violation(f"RAISED/{err[0]}/{prox}/{case['form']}", case, info)
            return
        exp_raw = expected_payload(case, payload)
        view = case["view"]
        val = res.get("value")
        rec.count("captures_judged")
        rec.count("view_" + ("words" if case["form"] == "@$()" else view))
        rec.count("shape_" + shape)
        rec.count("bytes_compared", len(exp_raw))

        def viol(mech, **kw):
            d = dict(info)
            d.update(kw)
            # symptoms whose cause does not depend on the view or capture form get one key per final-stage machinery, so that
            # which view happens to expose them in a given run does not matter
            parts = mech.split("/")
            df = kw.get("diff") or {}
            if len(parts) > 1 and parts[0] == "TEXT" and parts[1] == "lost-tail" and case["payload"]["kind"] == "crlf" and df.get("expected_len", 0) - df.get("actual_len", 0) == 1:
                # only the final line end of a CR/CRLF payload is missing from the text view: a CRLF cut by a read boundary
                mech = f"FRAGMENT-BOUNDARY/final-newline-lost/{'threaded' if case.get('threads', True) else 'nothread'}"
            elif len(parts) > 1 and parts[1] in ("escape-sequence-kept", "extra-newline", "undecoded-multibyte-character"):
                mech = f"FRAGMENT-BOUNDARY/{parts[1]}/{'threaded' if case.get('threads', True) else 'nothread'}"
            elif len(parts) > 1 and parts[1] == "duplicate":
                mech = f"DUPLICATE-CHUNK/{prox}"
            rec.violation(mech, case, d)

        def clip(x):
            return repr(x[:120]) + ("..." + repr(x[-80:]) if len(x) > 200 else "")

        # -- the view itself
        if case["form"] == "@$()":
            expw = exp_raw.decode("utf-8", "surrogateescape").split()
            if val != expw:
                viol(f"WORDS/{diagnose(' '.join(expw), ' '.join(val or []))}/{prox}", expected_n=len(expw), actual_n=len(val or []))
        elif view == "raw":
            if not isinstance(val, bytes | bytearray):
                viol(f"RAW/not-bytes/{prox}", actual=repr(val)[:100])
            elif bytes(val) != exp_raw:
                viol(f"RAW/{diagnose(exp_raw, bytes(val))}/{prox}", diff=firstdiff(exp_raw, bytes(val)))
        elif kind != "binary":
            img = text_image(exp_raw)
            if view == "iter":
                if not all(isinstance(x, str) for x in val):
                    viol(f"ITER/not-str/{prox}")
                else:
                    act = canon("".join(val))
                    if act != img:
                        viol(f"ITER/{diagnose(img, act)}/{prox}", diff=firstdiff(img, act))
            else:
                act = canon(val) if isinstance(val, str) else None
                if act is None:
                    viol(f"TEXT/not-str/{prox}/{case['form']}", actual=repr(val)[:100])
                else:
                    if one_line(img):
                        ok = [img.rstrip("\n")] if case["form"] == "$()" else [img.rstrip("\n"), img]
                    else:
                        ok = [img]
                    if act not in ok:
                        if case["form"] == "$()" and one_line(img) and act == img:
                            viol(f"TEXT/one-line-newline-kept/{prox}", expected=clip(ok[0]), actual=clip(act))
                        else:
                            viol(f"TEXT/{diagnose(ok[-1], act)}/{prox}/{case['form']}", diff=firstdiff(ok[-1], act))
        # -- views agree with each other afterwards (!())
        if case["form"] == "!()" and isinstance(res.get("raw_after"), bytes | bytearray) and bytes(res["raw_after"]) != exp_raw and view != "raw":
            viol(f"RAW/{diagnose(exp_raw, bytes(res['raw_after']))}/{prox}", diff=firstdiff(exp_raw, bytes(res["raw_after"])), note="raw_out read after the text view")
        # -- return code
        if case["form"] != "@$()":
            if res.get("rtn") != final_rc(case):
                viol(f"RTN/{prox}/expected-{'zero' if final_rc(case) == 0 else 'nonzero'}-got-{res.get('rtn')!r}"[:80], shape=shape)
        # -- not echoed, stderr not mixed in
        if res["term1"].strip():
            if payload and (res["term1"] in payload or payload[:64] in res["term1"]):
                viol(f"ECHOED-TO-TERMINAL/{prox}/{case['form']}", term1=clip(res["term1"]))
            else:
                viol(f"TERMINAL-STDOUT-NOT-EMPTY/{prox}/{case['form']}", term1=clip(res["term1"]))
        flat = val if isinstance(val, bytes | bytearray | str) else " ".join(val or [])
        if case.get("noise"):
            needle = NOISE.strip()
            if (needle.encode() if isinstance(flat, bytes | bytearray) else needle) in flat:
                viol(f"STDERR-MIXED-IN/{prox}/{case['form']}")
            rec.count("stderr_noise_cases")
        for tname, stack in res["settled"]:
            viol(f"HELPER-THREAD-NEVER-FINISHED/{tname}/{stack[-1].split(':')[-1]}/{prox}", stack=stack)
        for n in res["std_closed"]:
            viol(f"SESSION-DAMAGED/sys.{n}-closed/{'alias-stages-2+' if sum(1 for s in case['stages'] if s['kind'] in ('awriter', 'acat')) >= 2 else prox}")

    SWEEP_CASES = [
        {"payload": {"kind": "lines", "size": 6000, "final_nl": True, "seed": 21}, "stages": [{"kind": "writer", "chunk": 2000, "delay": 0.003, "rc": 0, "linger": 0}], "form": "$()", "view": "str", "threads": True, "noise": False, "p": 0},
        {"payload": {"kind": "lines", "size": 6000, "final_nl": False, "seed": 22}, "stages": [{"kind": "writer", "chunk": 2000, "delay": 0.003, "rc": 3, "linger": 0}], "form": "!()", "view": "raw", "threads": True, "noise": False, "p": 0},
        {"payload": {"kind": "lines", "size": 9000, "final_nl": True, "seed": 23}, "stages": [{"kind": "awriter", "chunk": 3000, "delay": 0.003, "rc": 0, "style": "buffer"}, {"kind": "catrc", "rc": 0, "delay": 0}], "form": "!()", "view": "out", "threads": True, "noise": False, "p": 0},
        {"payload": {"kind": "lines", "size": 150000, "final_nl": True, "seed": 24}, "stages": [{"kind": "writer", "chunk": 4096, "delay": 0.0005, "rc": 0, "linger": 0}, {"kind": "head", "n": 3000}, {"kind": "catrc", "rc": 0, "delay": 0}], "form": "$()", "view": "str", "threads": True, "noise": False, "p": 0},
    ]

    def sweep_sites(self):
        from vlib.sched import _code_of

        sites = []
        for name, f in sorted(self.target_funcs.items()):
            c = _code_of(f)
            if c is None:
                continue
            lines = sorted({ln for _, _, ln in c.co_lines() if ln is not None and ln > c.co_firstlineno})
            sites += [(c.co_name, ln) for ln in lines]
        return sorted(set(sites))

    def run_sweep(self, sh, rec):
        sites = self.sweep_sites()
        mine = sites[sh["index"] :: sh["nsweep"]]
        # thorough: every site with a short, a medium and a long hold (windows of different widths)
        holds = [0.012] if sh["tier"] == "quick" else [0.003, 0.012, 0.04]
        mine = [(c, l, h) for (c, l) in mine for h in holds]
        for k, (coname, ln, hold) in enumerate(harness.budgeted(mine, rec)):
            rec.count("sweep_sites")
            before = self.inj.stats()["delays_injected"]
            for j, base in enumerate(self.SWEEP_CASES):
                case = dict(base, forced_sites=[[coname, ln, hold]], sweep=True)
                if k == 0 and j == 0:
                    rec.sample({"case": case}, "sweep")
                self.run_case(case, rec)
                if j < 2:
                    # the same preemption point while the reader thread runs late (held before every queue.put):
                    # windows between "the process has exited" and "its last chunk is queued" need both
                    case = dict(base, forced_sites=[[coname, ln, hold]], forced=[["populate_fd_queue", "queue.put(c)", 0, 0.004]], sweep="slow-reader")
                    self.run_case(case, rec)
                    rec.count("sweep_slow_reader_cases")
            taken = self.inj.stats()["delays_injected"] - before
            rec.count("sweep_forced_delays_taken", taken)
            if taken:
                rec.count("sweep_sites_reached")

    def run_shard(self, sh, rec):
        self._setup()
        if sh.get("kind") == "sweep":
            self.run_sweep(sh, rec)
            st = self.inj.stats()
            rec.count("line_events", st["line_events"])
            return
        rng = random.Random(f"{sh['seed']}/C06/{sh['index']}")
        cases = []
        if sh["index"] < len(DIRECTED):
            cases += [dict(DIRECTED[sh["index"]])] * 3
        cases += [gen_case(rng, sh["tier"]) for _ in range(sh["n"])]
        for i, case in enumerate(harness.budgeted(cases, rec)):
            if i < 2:
                rec.sample({"case": case}, case["form"])
            self.run_case(case, rec)
        st = self.inj.stats()
        rec.count("line_events", st["line_events"])
        rec.count("injection_sites", st["sites"])


CHECK = C06()

if __name__ == "__main__":
    harness.main(CHECK)
