"""C11 - scoped environment changes are exactly undone and never leak across threads.

Random nested scope programs (swap with values / DELETE_VAR masks / dict argument / overlay,
per-command `$K=v cmd` prefixes and alias threads) run against the real Env.  Monitors:
conservation of a six-view snapshot (`[]`, `in`, `get`, iteration, detype(), detype_all())
across every scope, a reference stack model for what must be visible inside, mask
invisibility on all views at once, persistence of assignments to other variables, and - with
2-4 threads and sys.monitoring delay injection - each thread checking only its own view.
"""

import os
import random
import threading

from vlib import harness

KEYS = ["SETSTR", "SETPATH", "SETBOOL", "AUTO_CD", "XONSH_DEBUG", "UNKNOWNVAR", "FOOPATH", "XONSH_DATA_DIR", "HISTCONTROL", "LS_COLORS_X", "THREAD_SUBPROCS"]
CLASS = {
    "SETSTR": "set", "SETPATH": "set", "SETBOOL": "set", "AUTO_CD": "default-valued", "XONSH_DEBUG": "default-valued", "UNKNOWNVAR": "unknown",
    "FOOPATH": "unknown-pattern-typed", "XONSH_DATA_DIR": "callable-default", "HISTCONTROL": "default-valued", "LS_COLORS_X": "unknown", "THREAD_SUBPROCS": "default-valued",
}
VALS = {
    "SETSTR": ["x", "y", ""], "SETPATH": [["/c"], ["/d", "/e"]], "SETBOOL": ["0", "yes"], "AUTO_CD": [True, False], "XONSH_DEBUG": [1, 2], "UNKNOWNVAR": ["u1", "u2"],
    "FOOPATH": [["/f"], ["/g", "/h"]], "XONSH_DATA_DIR": ["/tmp/dd1", "/tmp/dd2"], "HISTCONTROL": [{"ignoredups"}, {"ignorespace"}], "LS_COLORS_X": ["q"], "THREAD_SUBPROCS": [True, False],
}


class Boom(Exception):
    pass


def canon(v):
    if hasattr(v, "_l"):
        return ("path", [str(x) for x in v._l])
    if isinstance(v, (set, frozenset)):
        return ("set", sorted(v))
    return repr(v)


def read_views(env, keys):
    """One consistent look at every read path for the keys of interest."""
    it = set(k for k in env)
    det = env.detype()
    da = env.detype_all()
    snap = {}
    for k in keys:
        try:
            v = canon(env[k])
        except KeyError:
            v = "<KeyError>"
        g = env.get(k, "<dflt>")
        snap[k] = (v, k in env, canon(g) if g != "<dflt>" else g, k in it, det.get(k, "<absent>"), da.get(k, "<absent>"))
    return snap


class C11:
    id = "C11"
    module = "checks.c11"
    level = "exploration"
    tables = True
    rule = (
        "cases = random scope programs nesting up to 4 of {swap(k=v), swap(k=DELETE_VAR), swap(dict), swap(overlay=dict), `$K=v cmd` prefix executed through the Execer with a "
        "threaded recording alias} over overlapping keys from {explicitly set, default-valued but unset, callable-default, unknown, pattern-typed}, with inner set/del/in-place mutation of other "
        "variables and exits by return or exception; single-threaded and 2-4 concurrent threads under seeded delay injection on Env.swap/_set_item/_del_item/detype and InternalEnvironDict; session programs with alias threads that start late (held at the first statement of ProcProxyThread.run) and live !() objects created inside a scope the spawner leaves at once; directed schedule on the return of Env.detype; "
        "distinct_nontrivial = distinct (scope kinds, key classes, mask pattern, exit kind, thread count) shapes with nesting depth >= 2 or more than one thread"
    )
    assumptions = [
        "every key is read once (warm-up) before the first snapshot: reading materialises callable defaults and drops the detype cache, which is not a leak",
        "swapped-in values are already of the variable's type, so no converter needs modelling",
        "in the multi-thread layer threads swap overlapping keys but assign globally only to thread-private keys; the base value of shared keys is never changed globally during a run",
    ]

    def shards(self, tier, seed):
        n = 16
        per = 260 if tier == "quick" else 6000
        out = [dict(kind="single", index=i, n=per, timeout=420 if tier == "quick" else 3000) for i in range(8)]
        out += [dict(kind="threads", index=20 + i, n=(36 if tier == "quick" else 600), timeout=420 if tier == "quick" else 3000) for i in range(6)]
        out += [dict(kind="session", index=40 + i, n=(60 if tier == "quick" else 1500), timeout=420 if tier == "quick" else 3000) for i in range(2)]
        return out

    def floors(self, c, tier):
        r = []
        if c.get("scopes_entered", 0) < 3000:
            r.append("fewer than 3000 scopes entered")
        if c.get("mask_checks", 0) < 300:
            r.append("DELETE_VAR masks under-exercised")
        if c.get("exception_exits", 0) < 100:
            r.append("exception exits under-exercised")
        if c.get("thread_view_checks", 0) < 2000 or c.get("delays_injected", 0) < 200:
            r.append("multi-thread layer under-exercised")
        if c.get("alias_thread_views", 0) < 50:
            r.append("alias-thread inheritance not observed")
        return r

    # ------------------------------------------------------------------
    def _setup(self):
        from vlib.session import Recorder, make_session

        self.XSH, self.ex, self.ctx = make_session([])
        from xonsh.environ import Env

        self.Env = Env
        self.rec_alias = Recorder()

    def fresh(self):
        env = self.Env({"SETSTR": "s0", "SETPATH": "/a:/b", "SETBOOL": "1", "HOME": os.environ["HOME"], "PATH": "/bin", "XONSH_SHOW_TRACEBACK": False, "XONSH_SUBPROC_RAISE_ERROR": False})
        self.XSH.env = env
        self.XSH.interface.env = env
        read_views(env, KEYS)
        read_views(env, KEYS)
        return env

    # -- one scope program (recursive)
    def run_prog(self, env, rng, depth, rec, case_ref, model_stack, keys, private_prefix=""):
        DEL = self.Env.DELETE_VAR
        kind = rng.choice(["swap-kw", "swap-kw", "swap-dict", "overlay", "swap-kw+overlay"])
        # A swap nested inside an overlay that shadows the same key captures the overlay's value and writes it
        # into the thread-local layer on exit (listed known finding, kept as a directed witness): such programs
        # are not generated at random, otherwise every later snapshot of the history is polluted by it.
        shadowed = {k for fk, fr in model_stack if fk == "overlay" for k in fr}
        pool = [k for k in keys if k not in shadowed] or list(keys)
        chosen = rng.sample(pool, min(len(pool), rng.randint(1, 3)))
        frame = {}
        for key in chosen:
            frame[key] = DEL if rng.random() < 0.3 else rng.choice(VALS[key])
        before = read_views(env, keys)
        had_value = {k for k in chosen if k in env}
        raised = False
        exit_exc = rng.random() < 0.25
        if not hasattr(self, "_path"):
            self._path = threading.local()
        path = self._path.__dict__.setdefault("p", [])
        path.append([kind, {kk: ("DELETE_VAR" if vv is DEL else canon(vv)) for kk, vv in frame.items()}, "raises" if exit_exc else "returns"])
        rec.count("scopes_entered")
        rec.count("scope_" + kind)
        self._ctr = getattr(self, "_ctr", 0) + 1
        other_key = private_prefix + "OTHER%d_%d" % (threading.get_ident() % 1000, self._ctr)
        other_val = None
        ov = {k: v for k, v in frame.items()}
        try:
            if kind == "swap-kw":
                cm = env.swap(**frame)
            elif kind == "swap-dict":
                cm = env.swap(dict(frame))
            elif kind == "overlay":
                cm = env.swap(overlay=ov)
            else:
                half = dict(list(frame.items())[:1])
                rest = dict(list(frame.items())[1:])
                cm = env.swap(overlay=rest, **half)
            if kind == "swap-kw+overlay":
                mframes = [("swap", half), ("overlay", rest)]
            else:
                mframes = [("overlay" if kind == "overlay" else "swap", frame)]
            with cm:
                model_stack.extend(mframes)
                inside = read_views(env, keys)
                self.check_inside(env, inside, model_stack, rec, case_ref, keys)
                r = rng.random()
                if r < 0.3:
                    other_val = "v%d" % rng.randint(0, 99)
                    env[other_key] = other_val
                elif r < 0.4 and other_key in env:
                    del env[other_key]
                    other_val = "<deleted>"
                elif r < 0.5:
                    p = env.get("PATH")
                    if p is not None and "PATH" not in frame:
                        p.append("/mut%d" % rng.randint(0, 9))
                if depth < 3 and rng.random() < 0.6:
                    self.run_prog(env, rng, depth + 1, rec, case_ref, model_stack, keys, private_prefix)
                    again = read_views(env, keys)
                    if again != inside:
                        self.report_diff(rec, "NOT-RESTORED-INSIDE-OUTER-SCOPE", inside, again, frame, case_ref, keys)
                if kind in ("swap-kw", "swap-dict") and rng.random() < 0.3:
                    # the body itself removes or re-assigns a variable the scope set (an `unset`-like alias, `del $X`)
                    cands = [k for k in frame if frame[k] is not DEL and k in had_value and k in env]
                    if cands:
                        k = rng.choice(cands)
                        how = rng.choice(["del", "pop", "assign"])
                        if how == "del":
                            del env[k]
                        elif how == "pop":
                            env.pop(k)
                        else:
                            env[k] = rng.choice(VALS[k])
                        rec.count("swapped_variable_changed_by_the_body_" + how)
                if exit_exc:
                    rec.count("exception_exits")
                    raise Boom()
        except Boom:
            raised = True
        finally:
            for _ in mframes:
                if model_stack:
                    model_stack.pop()
        if exit_exc and not raised:
            rec.violation("EXCEPTION-SWALLOWED-BY-SCOPE", case_ref(), None)
        after = read_views(env, keys)
        if before != after:
            self.report_diff(rec, "NOT-RESTORED", before, after, frame, case_ref, keys)
        path.pop()
        if other_val == "<deleted>":
            if other_key in env:
                rec.violation("INNER-DELETE-OF-OTHER-VARIABLE-UNDONE", case_ref(), {"key": other_key})
        elif other_val is not None:
            if env.get(other_key) != other_val:
                rec.violation("INNER-ASSIGNMENT-TO-OTHER-VARIABLE-LOST", case_ref(), {"key": other_key, "expected": other_val, "got": env.get(other_key)})
        return kind, tuple(sorted((CLASS[k], frame[k] is DEL) for k in frame)), raised

    def check_inside(self, env, inside, model_stack, rec, case_ref, keys, base=None):
        DEL = self.Env.DELETE_VAR
        for k in keys:
            vis = None
            # documented precedence (Env.swap docstring): overlays shadow swapped and global values
            for want in ("overlay", "swap"):
                for fk, fr in reversed(model_stack):
                    if fk == want and k in fr:
                        vis = fr[k]
                        break
                if vis is not None:
                    break
            if vis is None:
                continue
            v, contains, got, initer, det, detall = inside[k]
            if vis is DEL:
                rec.count("mask_checks")
                if v != "<KeyError>" or contains or initer or det != "<absent>" or detall != "<absent>" or got != "<dflt>":
                    views = [n for n, bad in (("[]", v != "<KeyError>"), ("in", contains), ("get", got != "<dflt>"), ("iter", initer), ("detype", det != "<absent>"), ("detype_all", detall != "<absent>")) if bad]
                    if getattr(rec, "multi", False) and set(views) <= {"detype", "detype_all"}:
                        rec.violation("CROSS-THREAD/detype-cache-shared-between-threads", case_ref(), {"key": k, "views": inside[k], "masked": True})
                    else:
                        rec.violation("MASK-VISIBLE/" + "+".join(views), case_ref(), {"key": k, "views": inside[k], "class": CLASS[k]})
            else:
                rec.count("value_checks")
                if v != canon(vis) and not (isinstance(vis, list) and v == ("path", [str(x) for x in vis])):
                    rec.violation("SWAPPED-VALUE-NOT-VISIBLE/" + CLASS[k], case_ref(), {"key": k, "expected": canon(vis), "got": v})
                elif not contains or not initer or det == "<absent>":
                    rec.count("informational_value_missing_from_iteration_or_detype")  # not demanded by the statement

    def report_diff(self, rec, head, before, after, frame, case_ref, keys):
        DEL = self.Env.DELETE_VAR
        for k in keys:
            if before[k] != after[k]:
                how = "mask" if frame.get(k) is DEL else "value" if k in frame else "untouched"
                names = ("[]", "in", "get", "iter", "detype", "detype_all")
                changed = [n for n, a, b in zip(names, before[k], after[k]) if a != b]
                mech = f"{head}/{CLASS[k]}/{how}/views={'+'.join(changed)}"
                if getattr(rec, "multi", False) and set(changed) <= {"detype", "detype_all"}:
                    mech = "CROSS-THREAD/detype-cache-shared-between-threads"
                elif CLASS[k] in ("default-valued", "callable-default") and set(changed) <= {"detype"} and before[k][4] == "<absent>":
                    mech = "NOT-RESTORED/default-valued-key-left-explicitly-set"
                rec.violation(mech, case_ref(), {"key": k, "before": before[k], "after": after[k], "scopes_open_outermost_first": [list(x) for x in self._path.__dict__.get("p", [])]})

    # ------------------------------------------------------------------
    def run_case(self, case, rec):
        if not hasattr(self, "XSH"):
            self._setup()
        kind = case["kind"]
        if kind == "single":
            env = self.fresh()
            rng = random.Random(case["rseed"])
            shape = self.run_prog(env, rng, 0, rec, lambda: case, [], KEYS)
            rec.case(nontrivial=(shape, 1))
        elif kind == "directed":
            env = self.fresh()
            before = read_views(env, KEYS)
            rec.case(nontrivial=("directed", case["program"]))
            if case["program"] == "swap-default-valued":
                with env.swap(AUTO_CD=True):
                    pass
                after = read_views(env, KEYS)
                if before != after:
                    self._path = threading.local()
                    self.report_diff(rec, "NOT-RESTORED", before, after, {"AUTO_CD": True}, lambda: case, KEYS)
            elif case["program"] == "detype-cache-reset-during-return":
                # directed schedule (regression witness of fix 1171163): thread A is delayed at the first `return` of
                # Env.detype (the cached answer) while thread B keeps filling and invalidating the shared cache
                from vlib.sched import Injector, find_line

                inj = Injector(0, p=0.0)
                inj.target(self.Env.detype)
                site = find_line(self.Env.detype, "return ")
                inj.forced[site] = 0.01
                stop = threading.Event()
                got = []

                def reader():
                    for _ in range(60):
                        try:
                            got.append(type(env.detype()).__name__)
                        except Exception as e:  # noqa
                            got.append("raised:" + type(e).__name__)

                def churn():
                    i = 0
                    while not stop.is_set():
                        i += 1
                        env["SETSTR"] = "v%d" % (i % 2)  # invalidates the cache
                        time.sleep(0.002)

                import time

                inj.start()
                try:
                    tb = threading.Thread(target=churn, name="verif-churn")
                    tb.start()
                    ta = threading.Thread(target=reader, name="verif-reader")
                    ta.start()
                    ta.join(60)
                    stop.set()
                    tb.join(10)
                finally:
                    inj.stop()
                rec.count("directed_detype_calls_delayed_at_return", inj.stats()["delays_injected"])
                bad = sorted({g for g in got if g != "dict"})
                if bad:
                    rec.violation("CROSS-THREAD/detype-returned-None", case, {"returned": bad, "calls": len(got), "delayed_at": site})
            else:
                with env.swap(overlay={"SETSTR": "from-overlay"}):
                    with env.swap(SETSTR="inner"):
                        pass
                after = read_views(env, KEYS)
                if after["SETSTR"][0] == repr("from-overlay"):
                    rec.violation("NOT-RESTORED/swap-inside-overlay-writes-overlay-value-into-thread-local-layer", case, {"before": before["SETSTR"], "after": after["SETSTR"]})
                elif before != after:
                    self._path = threading.local()
                    self.report_diff(rec, "NOT-RESTORED", before, after, {"SETSTR": "inner"}, lambda: case, KEYS)
        elif kind == "threads":
            self.run_threads(case, rec)
        else:
            self.run_session(case, rec)

    def run_threads(self, case, rec):
        from vlib.sched import Injector

        env = self.fresh()
        if not hasattr(self, "inj"):
            from xonsh.environ import InternalEnvironDict as I

            E = self.Env
            self.inj = Injector(case["seed"], p=0.02, delays=(0.0, 0.0002, 0.001, 0.004), cap=0.3)
            self.inj.target(E.swap, E._set_item, E._del_item, E.detype, E.detype_all, E.__getitem__, E._capture_for_swap, E.__iter__, E.__contains__, I.__setitem__, I.__delitem__, I.set_locally, I.del_locally)
            self.inj.start()
        self.inj.new_case()
        nthreads = case["threads"]
        errors = []
        shapes = []
        base = read_views(env, KEYS)
        lock = threading.Lock()

        class TRec:
            """per-thread view of the recorder: counts go to the shared one under a lock"""

            multi = True

            def __init__(s, name):
                s.name = name

            def count(s, k, n=1):
                with lock:
                    rec.count(k, n)

            def violation(s, mech, c, d):
                with lock:
                    rec.violation(mech, c, dict(d or {}, thread=s.name))

        def body(i):
            rng = random.Random(f"{case['rseed']}/t{i}")
            tr = TRec(f"t{i}")
            try:
                for _ in range(case["programs"]):
                    # outside any scope of this thread the shared keys must show their base values
                    v0 = read_views(env, KEYS)
                    tr.count("thread_view_checks")
                    if v0 != base:
                        for k in KEYS:
                            if v0[k] != base[k]:
                                names = ("[]", "in", "get", "iter", "detype", "detype_all")
                                changed = [n for n, a, b in zip(names, base[k], v0[k]) if a != b]
                                if set(changed) <= {"detype", "detype_all"}:
                                    tr.violation("CROSS-THREAD/detype-cache-shared-between-threads", case, {"key": k, "base": base[k], "seen": v0[k]})
                                else:
                                    tr.violation("CROSS-THREAD-LEAK/views=" + "+".join(changed), case, {"key": k, "base": base[k], "seen": v0[k]})
                        return
                    shapes.append(self.run_prog(env, rng, 0, tr, lambda: case, [], KEYS, private_prefix=f"T{i}_"))
            except BaseException as e:  # noqa
                errors.append((i, type(e).__name__, str(e)[:120]))

        ts = [threading.Thread(target=body, args=(i,), name=f"verif-env-{i}") for i in range(nthreads)]
        for t in ts:
            t.start()
        for t in ts:
            t.join(120)
        rec.case(nontrivial=(tuple(sorted(map(str, shapes)))[:6], nthreads))
        sig = self.inj.new_case()
        if sig:
            rec.setadd("interleaving_signatures", sig)
        for i, tn, msg in errors:
            if (tn == "TypeError" and "'NoneType' object is not iterable" in msg) or (tn == "AttributeError" and "'NoneType' object has no attribute" in msg):
                # detype() returned the cache another thread had just reset to None (check-then-return on the shared attribute)
                rec.violation("CROSS-THREAD/detype-returned-None", case, {"thread": i, "msg": msg})
            else:
                rec.violation("EXCEPTION-IN-THREAD/" + tn, case, {"thread": i, "msg": msg})

    def run_session(self, case, rec):
        """`$K=v cmd` prefixes and swaps around commands whose alias runs in a proxy thread."""
        env = self.fresh()
        XSH, ex = self.XSH, self.ex
        if not hasattr(self, "inj_late"):
            # schedule: in every other case the alias thread starts late - it is held at the first statement of
            # ProcProxyThread.run, i.e. after the spawner captured its swapped view and before the thread applies it
            from vlib.sched import Injector, _code_of
            from xonsh.procs.proxies import ProcProxyThread

            self.inj_late = Injector(0, p=0.0)
            self.inj_late.target(ProcProxyThread.run)
            c = _code_of(ProcProxyThread.run)
            self.late_site = (c.co_name, min(ln for _, _, ln in c.co_lines() if ln is not None and ln > c.co_firstlineno))
            self.inj_late.start()
        late = int(case["rseed"].rsplit("/", 1)[-1]) % 2 == 1
        self.inj_late.forced = {self.late_site: 0.01} if late else {}
        if late:
            rec.count("session_cases_with_late_alias_thread")
        rng = random.Random(case["rseed"])
        seen = {}

        def viewer(args, stdin=None):
            seen["views"] = read_views(XSH.env, KEYS)
            seen["thread"] = threading.current_thread().name
            return 0

        XSH.aliases["viewer"] = viewer
        for _ in range(case["programs"]):
            k = rng.choice(["SETSTR", "UNKNOWNVAR", "AUTO_CD", "XONSH_DEBUG", "SETBOOL"])
            val = {"SETSTR": "'pfx'", "UNKNOWNVAR": "'u9'", "AUTO_CD": "True", "XONSH_DEBUG": "2", "SETBOOL": "'7'"}[k]
            pyval = {"SETSTR": "pfx", "UNKNOWNVAR": "u9", "AUTO_CD": True, "XONSH_DEBUG": 2, "SETBOOL": "7"}[k]
            before = read_views(env, KEYS)
            outer = rng.random() < 0.5
            seen.clear()
            src = f"${k}={val} viewer a\n"
            frame = {k: pyval}
            stack = [("swap", frame)]
            try:
                if outer and rng.random() < 0.4:
                    # the command is started as a live `!()` object inside a swap scope which the spawner leaves at once:
                    # the alias thread must still see the view that was in effect when it was created
                    ok2 = rng.choice([x for x in ("SETSTR", "UNKNOWNVAR", "SETPATH") if x != k])
                    ov = rng.choice(VALS[ok2])
                    src = f"_r = !(${k}={val} viewer a)\n"
                    with env.swap(**{ok2: ov}):
                        stack = [("swap", {ok2: ov}), ("swap", frame)]
                        ex.exec(src, glbs=self.ctx, locs=self.ctx, mode="exec")
                    rec.count("session_async_object_in_scope_left_early")
                    _r = self.ctx.pop("_r", None)
                    if _r is not None:
                        try:
                            with harness.alarm(20):
                                _r.end()
                        except harness.CaseTimeout:
                            rec.count("session_async_object_never_ended_not_judged")  # C06's listed livelock race
                            continue
                elif outer:
                    ok2 = rng.choice([x for x in ("SETSTR", "UNKNOWNVAR", "SETPATH") if x != k])
                    ov = rng.choice(VALS[ok2])
                    with env.swap(**{ok2: ov}):
                        stack = [("swap", {ok2: ov}), ("swap", frame)]
                        ex.exec(src, glbs=self.ctx, locs=self.ctx, mode="exec")
                else:
                    ex.exec(src, glbs=self.ctx, locs=self.ctx, mode="exec")
            except Exception as e:
                rec.violation("SESSION/exception-running-prefixed-command/" + type(e).__name__, case, {"src": src, "msg": str(e)[:100]})
                return
            from vlib.session import settle

            settle(3)
            rec.count("scopes_entered")
            rec.count("scope_cmd-prefix")
            if "views" in seen:
                rec.count("alias_thread_views")
                if seen["thread"] != "MainThread":
                    rec.count("alias_ran_in_worker_thread")
                self.check_inside(env, seen["views"], stack, rec, lambda: dict(case, src=src), KEYS)
            else:
                rec.violation("SESSION/alias-never-ran", case, {"src": src})
            after = read_views(env, KEYS)
            if before != after:
                self.report_diff(rec, "NOT-RESTORED", before, after, frame, lambda: dict(case, src=src, scope="cmd-prefix"), KEYS)
        rec.case(nontrivial=("session", case["rseed"]))

    def run_shard(self, sh, rec):
        self._setup()
        if sh["index"] == 0:
            for prog in ("swap-default-valued", "swap-inside-overlay", "detype-cache-reset-during-return"):
                self.run_case({"kind": "directed", "program": prog}, rec)
        for i in harness.budgeted(range(sh["n"]), rec):
            case = {"kind": sh["kind"], "seed": sh["seed"], "rseed": f"{sh['seed']}/C11/{sh['index']}/{i}"}
            if sh["kind"] == "threads":
                case.update(threads=2 + (i % 3), programs=6)
            if sh["kind"] == "session":
                case.update(programs=5)
            if i < 1:
                rec.sample(case, sh["kind"])
            self.run_case(case, rec)
        if hasattr(self, "inj_late"):
            rec.count("late_alias_thread_delays_taken", self.inj_late.stats()["delays_injected"])
            self.inj_late.stop()
        if hasattr(self, "inj"):
            st = self.inj.stats()
            rec.count("delays_injected", st["delays_injected"])
            rec.count("line_events", st["line_events"])
            for f in st["functions_hit"]:
                rec.setadd("functions_hit", f)
            self.inj.stop()


CHECK = C11()

if __name__ == "__main__":
    harness.main(CHECK)
