"""C14 - history GC only ever discards the oldest, unlocked history.

Real history files / SQLite tables are generated in a scratch data dir, the real GC
threads are run on them, and the directory listing / table before and after is judged
with the set-level rules of DESIGN Appendix A.3 (not a re-implementation of the
_xhj_gc_*_to_rmfiles arithmetic).
"""

import contextlib
import io
import os
import random
import shutil
import sqlite3
import time
import warnings

from vlib import harness

UNITS = ["commands", "files", "s", "b"]

# how a user may write the limit: unit names with the factor *I* attach to them (not read from xonsh)
SYNONYMS = {
    "commands": [("", 1), ("c", 1), ("cmd", 1), ("cmds", 1), ("command", 1), ("commands", 1)],
    "files": [("f", 1), ("files", 1)],
    "s": [("s", 1), ("sec", 1), ("second", 1), ("seconds", 1), ("m", 60), ("min", 60), ("mins", 60), ("h", 3600), ("hr", 3600), ("hour", 3600), ("hours", 3600), ("d", 86400), ("day", 86400), ("days", 86400)],
    "b": [("b", 1), ("byte", 1), ("bytes", 1), ("kb", 1024), ("kilobyte", 1024), ("kilobytes", 1024), ("mb", 1024 * 1024), ("megs", 1024 * 1024)],
}


def spell(rng, lim, unit):
    """(how, value): the limit (lim, unit) as the constructor argument or as $XONSH_HISTORY_SIZE, in one of the accepted spellings."""
    r = rng.random()
    if r < 0.5:
        return ["ctor-tuple", [lim, unit]]
    how = "env" if r < 0.8 else "ctor"
    if unit == "commands" and rng.random() < 0.15:
        return [how + "-number", lim]
    if rng.random() < 0.2:
        return [how + "-tuple", [lim, unit]]
    fits = [(n, f) for n, f in SYNONYMS[unit] if (lim % f == 0) or (unit == "s" and (2 * lim) % f == 0)]
    name, f = rng.choice(fits)
    num = str(lim // f) if lim % f == 0 else repr(lim / f)
    if lim >= 0 and rng.random() < 0.1:
        num = "+" + num
    name = rng.choice([name, name.upper(), name.title()])
    text = rng.choice(["", " "]) + num + rng.choice(["", " ", "  "]) + name + rng.choice(["", " "])
    return [how + "-string", text]



class C14:
    id = "C14"
    module = "checks.c14"
    level = "exploration"
    tables = True
    rule = (
        "cases = (collection of 0-12 real JSON history files with random command counts incl. 0, byte sizes, ages, live/stale lock flags, corrupt, truncated "
        "and empty members, optional custom $XONSH_HISTORY_FILE; limit in one of the four units chosen at and around every boundary the collection defines, given as tuple / number / spelled string through the constructor or $XONSH_HISTORY_SIZE; forced or not) "
        "run through the real JsonHistoryGC thread, plus SQLite tables of 0-200 rows through SqliteHistoryGC; distinct_nontrivial = distinct (file kinds/sizes/order, unit, limit, force) "
        "tuples in which at least two files (or rows) were GC candidates"
    )
    assumptions = [
        "a stale lock (locked and started before uptime.boottime()) counts as unlocked after the documented unlock",
        "for the seconds unit no generated age lies within 5 s of the limit (GC reads its own clock after the harness read its)",
        "the refuse-unless-forced rule is only judged where both readings of 'discards more than it keeps' agree; the band between is accepted either way",
        "set-level oracle: the deleted set must be a prefix set of the oldest-first unlocked files; directory listing order is not judged",
    ]

    def shards(self, tier, seed):
        n = 16
        per = 220 if tier == "quick" else 4000
        out = [dict(kind="json", index=i, n=per, timeout=420 if tier == "quick" else 3000) for i in range(n - 2)]
        out += [dict(kind="sqlite", index=100 + i, n=(150 if tier == "quick" else 3000), timeout=420 if tier == "quick" else 3000) for i in range(2)]
        return out

    def floors(self, c, tier):
        r = []
        if c.get("gc_runs", 0) < 500:
            r.append("fewer than 500 GC runs observed")
        if c.get("files_deleted_by_gc", 0) < 100:
            r.append("GC deleted almost nothing: the deciding monitor saw no deletions")
        if c.get("gc_refusals", 0) < 5:
            r.append("the refuse-unless-forced branch was never observed")
        if c.get("sqlite_gc_runs", 0) < 50:
            r.append("sqlite GC not exercised")
        for u in UNITS:
            if c.get("unit_" + u, 0) < 20:
                r.append(f"unit {u} under-exercised")
        return r

    # ------------------------------------------------------------------
    def _setup(self):
        from vlib.session import make_session

        self.dd = os.path.join(os.environ["VERIF_SCRATCH"], f"data14-{os.getpid()}")
        shutil.rmtree(self.dd, ignore_errors=True)
        os.makedirs(os.path.join(self.dd, "history_json"))
        self.XSH, _, _ = make_session([], env={"XONSH_DATA_DIR": self.dd}, data_dir=self.dd)
        import xonsh.history.json as J
        import xonsh.lib.lazyjson as LJ
        import xonsh.xoreutils.uptime as up

        self.J, self.LJ = J, LJ
        self.boot = up.boottime()

    def make_collection(self, rng, now):
        n = rng.choice([0, 1, 2, 3, 3, 4, 5, 6, 8, 10, 12])
        ages = sorted(rng.sample(range(20, 4 * 10**6), n), reverse=True)
        if n and rng.random() < 0.3:
            ages = sorted(rng.sample(range(20, 3000), n), reverse=True)
        files = []
        for i in range(n):
            ncmd = rng.choice([0, 0, 1, 2, 3, 5, 10, 40])
            kind = rng.choices(["unlocked", "live-locked", "stale-locked", "corrupt", "empty", "truncated"], [7, 2, 1, 1, 1, 1])[0]
            files.append({"i": i, "kind": kind, "ncmd": ncmd, "age": ages[i], "pad": rng.choice([0, 0, 5, 40, 300])})
        return files

    def write_collection(self, files, now, custom=None):
        HD = os.path.join(self.dd, "history_json")
        for f in os.listdir(HD):
            os.remove(os.path.join(HD, f))
        for f in os.listdir(self.dd):
            p = os.path.join(self.dd, f)
            if os.path.isfile(p):
                os.remove(p)
        LJ = self.LJ
        for f in files:
            i, kind, age = f["i"], f["kind"], f["age"]
            ts_end = now - age
            ts_beg = ts_end - 5
            if kind == "stale-locked":
                ts_beg, ts_end = self.boot - 1000 - i, None
            if kind == "live-locked":
                ts_beg, ts_end = max(self.boot + 1, now - age - 5), None
            path = os.path.join(HD, "xonsh-f%02d.json" % i)
            if custom is not None and f["i"] == custom:
                path = os.path.join(self.dd, "custom-history.json")
            cmds = [{"inp": "c%d_%d" % (i, j) + "x" * f["pad"], "rtn": 0, "ts": [ts_beg, ts_beg + 1]} for j in range(f["ncmd"])]
            meta = {"cmds": cmds, "sessionid": "f%02d" % i, "ts": [ts_beg, ts_end], "locked": kind in ("live-locked", "stale-locked")}
            with open(path, "w", newline="\n") as fp:
                if kind == "empty":
                    pass
                elif kind == "corrupt":
                    fp.write("{not json at all" + "x" * f["pad"])
                elif kind == "truncated":
                    s = LJ.dumps(meta)
                    fp.write(s[: max(5, len(s) // 2)])
                else:
                    LJ.ljdump(meta, fp, sort_keys=True)
            if kind in ("empty", "corrupt", "truncated"):
                os.utime(path, (now - age, now - age))
            f["path"] = path
            f["size"] = os.path.getsize(path)
            f["ts"] = (ts_end or ts_beg) if kind not in ("empty", "corrupt", "truncated") else os.path.getmtime(path)
            f["eff_ncmd"] = f["ncmd"] if kind in ("unlocked", "stale-locked", "live-locked") else 0

    def run_live(self, case, rec):
        """A live session (real JsonHistory object, its file locked) types history commands; other sessions come and go;
        then a collection far over the limit runs: the live session's file must survive, with everything it had saved."""
        import io as _io

        import xonsh.history.main as HM

        now = time.time()
        self.write_collection([], now)
        if "XONSH_HISTORY_FILE" in self.XSH.env:
            del self.XSH.env["XONSH_HISTORY_FILE"]
        h = self.J.JsonHistory(sessionid="live-%d" % case["n"], gc=False, buffersize=case["buffersize"], ts=[now, None], locked=True)  # as construct_history does
        old_hist = self.XSH.history
        self.XSH.history = h
        saved = 0
        try:
            k = 0
            for op in case["ops"]:
                if op == "append":
                    k += 1
                    h.append({"inp": "live cmd %d" % k, "rtn": 0, "ts": [now + k, now + k + 0.5]})
                elif op == "history-flush":
                    with contextlib.redirect_stdout(_io.StringIO()), contextlib.redirect_stderr(_io.StringIO()):
                        HM.history_main(["flush"])
                elif op == "flush":
                    hf = h.flush()
                    if hf is not None:
                        hf.join(30)
                elif op == "history-info":
                    with contextlib.redirect_stdout(_io.StringIO()), contextlib.redirect_stderr(_io.StringIO()):
                        HM.history_main(["info"])
            for t in list(h._queue) if hasattr(h, "_queue") else []:
                t.join(30)
            try:
                saved = len(self.LJ.LazyJSON(h.filename).load()["cmds"])
            except Exception:
                saved = 0
            # three other sessions start and end after that, each with a later closing time
            HD = os.path.join(self.dd, "history_json")
            for i in range(case["others"]):
                t0 = now + 1000 + 10 * i
                meta = {"cmds": [{"inp": "o%d" % i, "rtn": 0, "ts": [t0, t0 + 1]}], "sessionid": "o%02d" % i, "ts": [t0, t0 + 5], "locked": False}
                with open(os.path.join(HD, "xonsh-o%02d.json" % i), "w", newline="\n") as fp:
                    self.LJ.ljdump(meta, fp, sort_keys=True)
            existed = os.path.exists(h.filename)
            with contextlib.redirect_stdout(_io.StringIO()), warnings.catch_warnings():
                warnings.simplefilter("ignore")
                gc = self.J.JsonHistoryGC(wait_for_shell=False, size=(case["limit"], "files"), force=True)
                gc.join(60)
            rec.count("live_session_collections")
            rec.case(nontrivial=("live", tuple(case["ops"]), case["others"], case["limit"]) if existed else None)
            if not existed:
                rec.count("live_session_had_no_file_yet")
            elif not os.path.exists(h.filename):
                rec.violation("LIVE-SESSION-FILE-DELETED/after-" + ("history-flush" if "history-flush" in case["ops"] else "flush" if "flush" in case["ops"] else "append"), case, {"saved_commands_lost": saved})
            else:
                rec.count("ok")
        finally:
            self.XSH.history = old_hist

    def run_case(self, case, rec):
        if not hasattr(self, "XSH"):
            self._setup()
        if case.get("backend") == "sqlite":
            return self.run_sqlite(case, rec)
        if case.get("backend") == "live":
            return self.run_live(case, rec)
        now = time.time()
        files = [dict(f) for f in case["files"]]
        unit, lim, force = case["unit"], case["limit"], case["force"]
        custom = case.get("custom")
        self.write_collection(files, now, custom)
        if custom is not None:
            self.XSH.env["XONSH_HISTORY_FILE"] = os.path.join(self.dd, "custom-history.json")
        elif "XONSH_HISTORY_FILE" in self.XSH.env:
            del self.XSH.env["XONSH_HISTORY_FILE"]
        # candidates: unlocked, stale-locked (after the documented unlock) and empty files; oldest first
        U = sorted([f for f in files if f["kind"] in ("unlocked", "stale-locked", "empty")], key=lambda f: f["ts"])

        def measure(fs):
            return {"commands": sum(f["eff_ncmd"] for f in fs), "files": len(fs), "b": sum(f["size"] for f in fs)}.get(unit)

        def fits(K):
            if unit == "s":
                return all(now - f["ts"] < lim for f in K)
            return measure(K) <= lim

        if unit == "s" and any(abs((now - f["ts"]) - lim) < 5 for f in U):
            rec.count("skipped_age_too_close_to_limit")
            return
        before = {f["path"] for f in files}
        buf = io.StringIO()
        with contextlib.redirect_stdout(buf), warnings.catch_warnings():
            warnings.simplefilter("ignore")
            size = self.apply_spelling(case, rec)
            if size is False:
                return
            gc = self.J.JsonHistoryGC(wait_for_shell=False, size=size, force=force)
            gc.join(60)
        if gc.is_alive():
            rec.violation("HANG/JsonHistoryGC", case, None)
            return
        refused = "would discard more" in buf.getvalue()
        HD = os.path.join(self.dd, "history_json")
        remaining = {os.path.join(HD, f) for f in os.listdir(HD)} | {os.path.join(self.dd, f) for f in os.listdir(self.dd)}
        D = [f for f in files if f["path"] not in remaining]
        rec.case(nontrivial=(tuple((f["kind"], f["ncmd"], f["pad"]) for f in files), unit, lim, force) if len(U) >= 2 else None)
        rec.count("gc_runs")
        rec.count("unit_" + unit)
        rec.count("files_deleted_by_gc", len(D))
        if refused:
            rec.count("gc_refusals")
        if force:
            rec.count("forced_runs")
        lim0 = "/limit-0" if lim == 0 else ""
        detail = {
            "deleted": [os.path.basename(f["path"]) for f in D],
            "refused": refused,
            "U_oldest_first": [(os.path.basename(f["path"]), f["kind"], f["eff_ncmd"], f["size"], int(now - f["ts"])) for f in U],
        }
        bad = None
        Dset = {f["path"] for f in D}
        if any(f["kind"] == "live-locked" for f in D):
            bad = "LOCKED-FILE-DELETED"
        elif any(f["kind"] in ("corrupt", "truncated") for f in D):
            bad = "UNREADABLE-FILE-DELETED"
        elif Dset != {f["path"] for f in U[: len(D)]}:
            bad = "NOT-OLDEST-FIRST"
        elif fits(U) and D:
            bad = "DELETED-THOUGH-WITHIN-LIMIT"
        else:
            K = [f for f in U if f["path"] in remaining]
            if D and not fits(K):
                bad = "KEPT-SET-EXCEEDS-LIMIT"
            elif D and unit != "s" and fits(K + [U[len(D) - 1]]):
                bad = "KEPT-SET-NOT-MAXIMAL"
            elif D and unit == "s" and (now - U[len(D) - 1]["ts"]) < lim - 5:
                bad = "KEPT-SET-NOT-MAXIMAL"
        if bad is None and not fits(U):
            # ideal deletion set D*: shortest prefix whose removal makes the rest fit
            k = 0
            while k < len(U) and not fits(U[k:]):
                k += 1
            Dstar, Kstar = U[:k], U[k:]
            if force and not D:
                bad = "FORCED-BUT-NOTHING-DELETED"
            elif force and refused:
                bad = "FORCED-BUT-REFUSED"
            elif not force and unit != "s":
                disc, kept = measure(Dstar), measure(Kstar)
                if disc > lim and D:
                    bad = "RAN-THOUGH-IT-DISCARDS-MORE-THAN-THE-LIMIT"
                elif disc < min(lim, kept) and not D:
                    bad = "REFUSED-THOUGH-IT-DISCARDS-LESS-THAN-IT-KEEPS"
                else:
                    rec.count("refusal_band_either_way")
        if bad:
            rec.violation(f"{bad}/{unit}{lim0}", case, detail)
        else:
            rec.count("ok")
        # stale-locked files must have been unlocked, not damaged
        for f in files:
            if f["kind"] == "stale-locked" and f["path"] in remaining:
                try:
                    lj = self.LJ.LazyJSON(f["path"], reopen=False)
                    data = lj.load()
                    lj.close()
                    if data.get("locked") or len(data["cmds"]) != f["ncmd"]:
                        rec.violation("STALE-LOCK/not-unlocked-or-altered", case, {"file": os.path.basename(f["path"])})
                except Exception as e:
                    rec.violation("STALE-LOCK/unloadable-after-unlock", case, {"err": repr(e)})

    def apply_spelling(self, case, rec):
        """Hand the limit to the collector the way the case says; returns the constructor's size argument (None = read
        $XONSH_HISTORY_SIZE) or False when the spelled limit already reads back differently (reported)."""
        import xonsh.tools as xt

        lim, unit = case["limit"], case["unit"]
        how, value = case.get("spelling") or ["ctor-tuple", [lim, unit]]
        value = tuple(value) if isinstance(value, list) else value
        rec.count("limit_given_as_" + how)
        env = self.XSH.env
        if how.startswith("env"):
            try:
                env["XONSH_HISTORY_SIZE"] = value
                got = tuple(env.get("XONSH_HISTORY_SIZE"))
            except Exception as e:
                rec.violation(f"LIMIT-PARSING/{unit}/accepted-spelling-rejected/{type(e).__name__}", case, {"value": repr(value)})
                return False
            size = None
        else:
            try:
                got = tuple(xt.to_history_tuple(value))
            except Exception as e:
                rec.violation(f"LIMIT-PARSING/{unit}/accepted-spelling-rejected/{type(e).__name__}", case, {"value": repr(value)})
                return False
            size = value
        if got != (lim, unit):
            rec.violation(f"LIMIT-PARSING/{unit}/read-back-differs", case, {"value": repr(value), "got": repr(got), "want": repr((lim, unit))})
            return False
        rec.count("limit_spellings_read_back")
        return size

    def run_sqlite(self, case, rec):
        import xonsh.history.sqlite as S

        fn = os.path.join(self.dd, "h.sqlite")
        for ext in ("", "-wal", "-shm", "-journal"):
            with contextlib.suppress(OSError):
                os.remove(fn + ext)
        for attr in list(vars(S.XH_SQLITE_CACHE)):
            delattr(S.XH_SQLITE_CACHE, attr)
        rows = case["rows"]  # list of tsb
        for i, tsb in enumerate(rows):
            S.xh_sqlite_append_history({"inp": f"cmd{i}", "rtn": 0, "ts": [tsb, tsb + 0.5]}, "sess%d" % (i % 3), False, filename=fn)
        lim, unit = case["limit"], case["unit"]
        with warnings.catch_warnings():
            warnings.simplefilter("ignore")
            size = self.apply_spelling(case, rec)
            if size is False:
                return
            gc = S.SqliteHistoryGC(wait_for_shell=False, size=size, filename=fn)
            gc.join(60)
        if gc.is_alive():
            rec.violation("HANG/SqliteHistoryGC", case, None)
            return
        after = []
        if os.path.exists(fn):
            con = sqlite3.connect(fn)
            try:
                after = [r[0] for r in con.execute("SELECT tsb FROM xonsh_history ORDER BY tsb")]
            except sqlite3.OperationalError:
                after = []
            con.close()
        rec.case(nontrivial=(tuple(rows), lim, unit) if len(rows) >= 2 else None)
        rec.count("sqlite_gc_runs")
        rec.count("sqlite_rows_deleted", len(rows) - len(after))
        srt = sorted(rows)
        detail = {"rows_before": len(rows), "rows_after": len(after), "limit": lim, "unit": unit}
        lim0 = "/limit-0" if lim == 0 else ""
        if unit != "commands" or lim < 0:
            if sorted(after) != srt:
                rec.violation("SQLITE/deleted-for-unsupported-limit", case, detail)
            return
        newest = srt[-lim:] if lim > 0 else []
        aset = list(after)
        # remaining rows must contain the newest n rows; no remaining row older than the n-th newest
        missing = [t for t in newest if t not in aset]
        if missing:
            rec.violation("SQLITE/newest-rows-missing" + lim0, case, detail)
            return
        if any(t not in srt for t in aset):
            rec.violation("SQLITE/invented-row", case, detail)
            return
        if len(srt) > lim:
            cutoff = newest[0] if newest else float("inf")
            if any(t < cutoff for t in aset):
                rec.violation("SQLITE/row-older-than-the-nth-newest-kept" + lim0, case, detail)
                return
        elif sorted(aset) != srt:
            rec.violation("SQLITE/deleted-though-within-limit", case, detail)
            return
        rec.count("ok")

    def run_shard(self, sh, rec):
        self._setup()
        rng = random.Random(f"{sh['seed']}/C14/{sh['index']}")
        if sh["kind"] == "sqlite":
            for it in harness.budgeted(range(sh["n"]), rec):
                n = rng.choice([0, 1, 2, 3, 5, 10, 50, 200])
                base = 1.6e9
                rows = [base + i * 10 + rng.random() for i in range(n)]
                if n > 3 and rng.random() < 0.3:
                    rows[rng.randrange(n)] = rows[rng.randrange(n)]  # a tie in tsb
                rng.shuffle(rows)
                unit = rng.choices(["commands", "files", "s", "b"], [8, 1, 1, 1])[0]
                lim = rng.choice([0, 1, max(n - 1, 0), n, n + 1, -1, rng.randint(0, max(n, 1))])
                case = {"backend": "sqlite", "rows": rows, "limit": lim, "unit": unit, "spelling": spell(rng, lim, unit) if lim >= 0 else None}
                if it < 2:
                    rec.sample({k: (v if k != "rows" else v[:5]) for k, v in case.items()}, "sqlite")
                self.run_case(case, rec)
            return
        for it in harness.budgeted(range(sh["n"]), rec):
            now = time.time()
            files = self.make_collection(rng, now)
            unit = rng.choice(UNITS)
            force = rng.random() < 0.45
            U = sorted([f for f in files if f["kind"] in ("unlocked", "stale-locked", "empty")], key=lambda f: -f["age"])
            # sizes are only known after writing: write once to learn them
            self.write_collection(files, now)
            tot = {"commands": sum(f["eff_ncmd"] for f in U), "files": len(U), "b": sum(f["size"] for f in U), "s": (max(f["age"] for f in U) + 10) if U else 0}[unit]
            cands = {0, 1, tot, max(tot - 1, 0), tot + 1, rng.randint(0, max(tot, 1)), tot // 2, tot // 2 + 1}
            if U:
                newest = sorted(U, key=lambda f: f["age"])
                acc = 0
                for f in newest[:4]:
                    acc += {"commands": f["eff_ncmd"], "files": 1, "b": f["size"], "s": 0}[unit]
                    cands.update({acc, acc + 1, max(acc - 1, 0)})
                if unit == "s":
                    cands = {f["age"] + 60 for f in U} | {max(f["age"] - 60, 1) for f in U} | {1, tot}
            lim = rng.choice(sorted(cands))
            if unit == "s" and lim == 0:
                lim = 1
            # limits a user would write with a larger unit name (kb, min, h ...)
            if unit == "b" and lim >= 1024 and rng.random() < 0.4:
                lim = lim // 1024 * 1024
            elif unit == "s" and lim >= 120 and rng.random() < 0.4:
                lim = lim // 60 * 60 if lim < 7200 or rng.random() < 0.5 else lim // 3600 * 3600
            custom = rng.choice([f["i"] for f in files]) if files and rng.random() < 0.15 else None
            case = {"files": [{k: f[k] for k in ("i", "kind", "ncmd", "age", "pad")} for f in files], "unit": unit, "limit": lim, "force": force, "custom": custom, "spelling": spell(rng, lim, unit)}
            if it < 2:
                rec.sample(case, "json")
            self.run_case(case, rec)
        # live sessions typing history commands before a collection that is far over the limit
        for it in range(12 if sh.get("tier") == "quick" else 60):
            ops = [rng.choice(["append", "append", "append", "history-flush", "flush", "history-info"]) for _ in range(rng.randint(2, 8))]
            if it % 2 == 0:
                ops = ["append", "append"] + ops + ["append", "history-flush"] + (["append"] if rng.random() < 0.5 else [])
            self.run_case({"backend": "live", "n": it, "ops": ops, "others": rng.randint(2, 5), "limit": rng.choice([0, 1, 2]), "buffersize": rng.choice([1, 3, 100])}, rec)
        # directed: the boundary named in the property text
        for unit in UNITS:
            for force in (True, False):
                files = [{"i": i, "kind": "unlocked", "ncmd": 2, "age": 1000 * (5 - i), "pad": 0} for i in range(4)]
                self.run_case({"files": files, "unit": unit, "limit": 0 if unit != "s" else 1, "force": force, "custom": None}, rec)


CHECK = C14()

if __name__ == "__main__":
    harness.main(CHECK)
