"""C09 - running a command leaves the shell session as it found it.

A resource sampler (open fds with their targets, children with their state, live threads, cwd, identity
and closed-ness of sys.std*, the detyped environment, the job table, the effect of a self-sent SIGINT and
a liveness probe command) is read at quiescent points: after two warm-up executions of a command and
again after N further executions.  Conservation: everything sampled must be equal - opened = closed,
spawned = reaped, started = finished - whatever the command did (succeed, fail, not exist, raise inside
an alias, exit early under a writing producer, miss its redirect target, get interrupted).
"""

import os
import random
import signal
import sys
import threading
import time

from vlib import harness

FORMS = ["bare", "![]", "$[]", "$()", "!()", "@$()"]

# (label = failure class, command text, forms it makes sense in)
SHAPES = [
    ("ok/process", "exitn 0 t", FORMS),
    ("ok/alias", "atag 0", FORMS),
    ("ok/unthreaded-alias", "utag 0", FORMS),
    ("ok/process|process", "tagger 0 | tagger 1 in", FORMS),
    ("ok/alias|alias", "atag 0 | atag 1 in", FORMS),
    ("ok/alias|process", "atag 0 | tagger 1 in", FORMS),
    ("ok/process|alias", "tagger 0 | atag 1 in", FORMS),
    ("ok/3-stage", "tagger 0 | atag 1 in | tagger 2 in", FORMS),
    ("ok/redirect-out", "tagger 0 > out.txt", FORMS),
    ("ok/redirect-all-alias", "atag 0 a> out.txt", FORMS),
    ("ok/redirect-in", "tagger 0 in < inp", FORMS),
    ("ok/e2o-pipe", "tagger 0 e>o | tagger 1 in", FORMS),
    ("ok/a2p", "atag 0 a>p | tagger 1 in", FORMS),
    ("fail/exit-status", "exitn 3 t", FORMS),
    ("fail/exit-status-first", "exitn 3 t | tagger 1 in", FORMS),
    ("fail/exit-status-last", "tagger 0 | exitn 3 t", FORMS),
    ("fail/alias-returns-nonzero", "afail 2", FORMS),
    ("fail/error-raise-decorator", "@error_raise exitn 3 t", FORMS),
    ("fail/error-raise-decorator-last-stage", "tagger 0 | @error_raise exitn 3 t", FORMS),
    ("notfound/only", "nonexistent_cmd_xyz", FORMS),
    ("notfound/first", "nonexistent_cmd_xyz | tagger 1 in", FORMS),
    ("notfound/later-stage-after-process", "tagger 0 | nonexistent_cmd_xyz", FORMS),
    ("notfound/later-stage-after-alias", "atag 0 | nonexistent_cmd_xyz", FORMS),
    ("notfound/later-stage-after-infinite-producer", "yes | nonexistent_cmd_xyz", FORMS),
    ("notfound/middle", "tagger 0 | nonexistent_cmd_xyz | tagger 2 in", FORMS),
    ("noexec/permission-denied", "./noexec", FORMS),
    ("launch-error/nul-byte-in-environment", "$VNUL='a\\x00b' exitn 0 t", FORMS),
    ("launch-error/nul-byte-in-environment-later-stage", "tagger 0 | $VNUL='a\\x00b' exitn 0 t", FORMS),
    ("noexec/later-stage", "tagger 0 | ./noexec", FORMS),
    ("alias-raises/only", "aexc", FORMS),
    ("alias-raises/first", "aexc | tagger 1 in", FORMS),
    ("alias-raises/last", "tagger 0 | aexc", FORMS),
    ("alias-raises/middle", "tagger 0 | aexc | tagger 2 in", FORMS),
    ("alias-systemexit/only", "aexit 3", FORMS),
    ("alias-systemexit/last", "tagger 0 | aexit 3", FORMS),
    ("alias-systemexit/unthreaded", "uexit 3", FORMS),
    ("early-exit/head-under-yes", "yes | head -n 1", FORMS),
    ("early-exit/alias-under-yes", "yes | ahead", FORMS),
    ("early-exit/head-under-writing-alias", "abig | head -c 1", FORMS),
    ("early-exit/head-under-big-writer", "writer BIG 4096 0 0 | head -c 1", FORMS),
    ("early-exit/middle", "yes | head -n 3 | tagger 2 in", FORMS),
    ("redirect-missing/target-dir-only", "tagger 0 > nodir/x", FORMS),
    ("redirect-missing/target-dir-later-stage", "tagger 0 | tagger 1 in > nodir/x", FORMS),
    ("redirect-missing/input-first", "tagger 0 in < missing_input | tagger 1 in", FORMS),
    ("redirect-missing/input-only", "tagger 0 in < missing_input", FORMS),
    ("redirect-conflict/two-stdout", "tagger 0 > a.txt > b.txt", FORMS),
    ("redirect-conflict/later-stage", "tagger 0 | tagger 1 in > a.txt > b.txt", FORMS),
    ("redirect-conflict/pipe-redirect-without-pipe", "tagger 0 a>p", FORMS),
    ("unthreadable-in-pipeline/last", "tagger 0 | utag 1", FORMS),
    ("unthreadable-in-pipeline/first", "utag 0 | tagger 1 in", FORMS),
    ("alias-e2o/uncaptured", "atag 0 e>o", FORMS),
    ("alias-e2o/after-process", "tagger 0 | atag 1 in e>o", FORMS),
    ("alias-o2e/unthreaded", "utag 0 o>e", FORMS),
    ("unthreaded-alias-stdin-file", "urin < inp", FORMS),
    ("background/process", "exitn 0 t &", ["bare", "![]"]),
    ("background/pipeline", "tagger 0 | tagger 1 in &", ["bare", "![]"]),
    ("background/alias", "atag 0 &", ["bare", "![]"]),
    ("interrupt/sleeping-process", "sleep 5", ["bare", "$()", "!()", "$[]"]),
    ("interrupt/pipeline", "sleep 5 | catrc 0", ["bare", "$()", "!()", "$[]"]),
    ("interrupt/alias", "asleep 5", ["bare", "$()", "!()"]),
    ("interrupt/alias|process", "asleep 5 | catrc 0", ["bare", "$()"]),
    ("nested/capture-inside-alias", "anest", FORMS),
    ("nested/failing-capture-inside-alias", "anestfail", FORMS),
]


def render(cmd, form):
    if form == "bare":
        return cmd
    if form in ("![]", "$[]"):
        return f"{form[:2]}{cmd}]"
    if form in ("$()", "!()"):
        return f"r = {form[:2]}{cmd})"
    if form == "@$()":
        return f"exitn 0 outer @$({cmd})"
    raise ValueError(form)


class C09:
    id = "C09"
    module = "checks.c09"
    level = "exploration"
    tables = True
    rule = (
        "cases = (command shape from a 63-entry table of outcome classes: success, exit status, command not found / not executable / not launchable (ValueError from Popen) at each position, exception and SystemExit inside aliases at each position, "
        "early-exit consumer under an infinite or large producer, missing redirect target / input at each stage, conflicting redirects, unthreadable alias in a pipeline, background jobs, SIGINT delivered mid-command, "
        "captures nested inside aliases) x capture form {bare, ![], $[], $(), !(), @$()} x repetitions; judged = equality of the resource sample (fds+targets, children+state, threads, cwd, sys.std* identity/closed, "
        "detyped env, unfinished jobs, SIGINT effect, liveness probe) taken after 2 warm-up executions and after N more; plus scope-lifetime cases (non-blocking command with a gated alias started inside "
        "redirect_stdout(+stderr) / the shell's Tee / an undone assignment, scope ended while the alias thread runs, sys.std* identity judged once the command finished); distinct_nontrivial = distinct (shape, form, repetitions) and (scope case)"
    )
    assumptions = [
        "samples are taken at quiescence: the sampler is polled until two consecutive reads 50 ms apart agree (at most 3 s), so xonsh's own join/close windows are honoured",
        "the outcome of the command itself is not judged here (C05-C07 do); only what it leaves behind",
        "terminal ownership needs a controlling tty, which workers do not have: not judged",
        "$OLDPWD/$PWD, $LAST_RETURN_CODE-like bookkeeping and `_` are documented effects and excluded from the environment comparison",
    ]

    def shards(self, tier, seed):
        out = [dict(index=i, timeout=900 if tier == "quick" else 7000) for i in range(16)]
        # pty layer: the worker forks a child that is the session leader of a fresh pseudo terminal with
        # $XONSH_INTERACTIVE on, so terminal hand-over (give_terminal_to / _return_terminal), tty-generated
        # Ctrl-C / Ctrl-Z and the terminal modes are the real ones
        npty = 3 if tier == "quick" else 8
        out += [dict(kind="pty", index=i, npty=npty, timeout=600 if tier == "quick" else 5000) for i in range(npty)]
        return out

    def floors(self, c, tier):
        r = []
        if c.get("conservation_checks", 0) < 250:
            r.append("fewer than 250 (shape, form) conservation checks")
        if c.get("commands_run", 0) < 2000:
            r.append("fewer than 2000 commands run")
        if c.get("sigint_probes_ok", 0) < 200 or c.get("liveness_probes_ok", 0) < 200:
            r.append("SIGINT / liveness probes under-exercised")
        if c.get("set:shapes", 0) < len(SHAPES):
            r.append("not every shape exercised")
        if c.get("scope_lifetime_checks", 0) < 24:
            r.append("fewer than 24 commands observed finishing after the stream scope they were started in had ended")
        if c.get("pty_terminal_owner_checks", 0) < 150:
            r.append("pty layer: fewer than 150 terminal-ownership observations")
        if c.get("pty_terminal_handed_to_job", 0) < 20:
            r.append("pty layer: the terminal was (almost) never handed to a job, so getting it back was not observed")
        if c.get("pty_ctrl_c_typed", 0) < 3:
            r.append("pty layer: no Ctrl-C typed into the terminal")
        return r

    # ---- session ---------------------------------------------------------------------------------
    pty = False
    master_fd = None

    def _setup(self):
        from vlib.session import make_sandbox_path, make_session
        from xonsh.tools import unthreadable

        scratch = os.environ["VERIF_SCRATCH"]
        self.scratch = scratch
        self.sb = make_sandbox_path(scratch)
        self.work = os.path.join(scratch, f"c09-{os.getpid()}")
        os.makedirs(self.work, exist_ok=True)
        self.big = os.path.join(scratch, f"c09-big-{os.getpid()}")
        with open(self.big, "wb") as fh:
            fh.write(b"0123456789abcdef\n" * 40000)
        self.XSH, self.ex, self.ctx = make_session([self.sb], env={"PWD": self.work, "THREAD_SUBPROCS": True, "XONSH_SUBPROC_RAISE_ERROR": False, "RAISE_SUBPROC_ERROR": False, "XONSH_INTERACTIVE": bool(self.pty)})
        XSH = self.XSH

        def atag(args, stdin=None, stdout=None, stderr=None):
            o = "<O%s>\n" % args[0]
            if len(args) > 1 and args[1] == "in" and stdin is not None:
                d = stdin.read()
                o += "<I>%s</I>\n" % (d.decode() if isinstance(d, bytes) else d)
            stdout.write(o)
            stderr.write("<E%s>\n" % args[0])
            return 0

        def afail(args):
            return int(args[0])

        def aexc(args, stdin=None):
            raise ValueError("boom")

        def aexit(args):
            raise SystemExit(int(args[0]))

        def ahead(args, stdin=None, stdout=None):
            stdout.write(stdin.readline())
            return 0

        def abig(args, stdout=None):
            for _ in range(2000):
                stdout.write("x" * 1000 + "\n")
            return 0

        def asleep(args):
            time.sleep(min(float(args[0]), 1.5))  # a Python thread cannot be interrupted: it ends on its own within the barrier
            return 0

        def urin(args, stdin=None, stdout=None):
            stdout.write(str(len(stdin.read())))
            return 0

        def anest(args, stdout=None):
            v = XSH.subproc_captured_stdout(["tagger", "7"])
            stdout.write(str(v))
            return 0

        def anestfail(args, stdout=None):
            v = XSH.subproc_captured_stdout(["nonexistent_cmd_xyz"])
            stdout.write(str(v))
            return 0

        al = XSH.aliases
        al["atag"], al["afail"], al["aexc"], al["aexit"], al["ahead"], al["abig"], al["asleep"] = atag, afail, aexc, aexit, ahead, abig, asleep
        al["utag"] = unthreadable(lambda args, stdin=None, stdout=None, stderr=None: atag(args, stdin, stdout, stderr))
        al["uexit"] = unthreadable(lambda args: aexit(args))
        al["urin"] = unthreadable(urin)
        al["anest"], al["anestfail"] = anest, anestfail
        self.gate_started, self.gate_release = threading.Event(), threading.Event()

        def agate(args, stdin=None, stdout=None, stderr=None):
            # still busy when the caller has moved on: ends only when the harness says so
            self.gate_started.set()
            self.gate_release.wait(20)
            if stdin is not None and args and args[0] == "in":
                stdin.read()
            print("<G-print>")
            stdout.write("<G>\n")
            stderr.write("<GE>\n")
            return 0

        al["agate"] = agate
        os.chdir(self.work)
        with open(os.path.join(self.work, "inp"), "w") as fh:
            fh.write("<IN>\n")
        with open(os.path.join(self.work, "noexec"), "w") as fh:
            fh.write("#!/bin/sh\necho hi\n")
        os.chmod(os.path.join(self.work, "noexec"), 0o644)
        self.null1 = os.open(os.path.join(scratch, f"c09-T1-{os.getpid()}"), os.O_RDWR | os.O_CREAT | os.O_APPEND, 0o600)
        self.null2 = os.open(os.path.join(scratch, f"c09-T2-{os.getpid()}"), os.O_RDWR | os.O_CREAT | os.O_APPEND, 0o600)
        self.real1, self.real2 = os.dup(1), os.dup(2)
        self.ignored_threads = set()
        self.ignored_children = set()
        self.baseline_children = set()

    # ---- sampler ---------------------------------------------------------------------------------
    def children(self):
        out = {}
        try:
            for tid in os.listdir("/proc/self/task"):
                try:
                    with open(f"/proc/self/task/{tid}/children") as fh:
                        pids = fh.read().split()
                except OSError:
                    continue
                for pid in pids:
                    try:
                        with open(f"/proc/{pid}/stat") as st:
                            f = st.read().rsplit(")", 1)
                        out[int(pid)] = (f[0].split("(", 1)[1], f[1].split()[0])
                    except OSError:
                        pass
        except OSError:
            pass
        return out

    def sample(self):
        fds = {}
        for fd in os.listdir("/proc/self/fd"):
            try:
                fds[int(fd)] = os.readlink(f"/proc/self/fd/{fd}")
            except OSError:
                pass  # the listing's own fd
        ch = {pid: v for pid, v in self.children().items() if pid not in self.ignored_children}
        th = sorted((type(t).__name__, t.name.rstrip("0123456789-() ")) for t in threading.enumerate() if t is not threading.main_thread() and t.is_alive() and t.ident not in self.ignored_threads)
        from xonsh.procs import jobs

        unfinished = 0
        for j in list(jobs.get_jobs().values()):
            try:
                if j.get("obj") is not None and j["obj"].poll() is None and not j.get("bg"):
                    unfinished += 1
            except Exception:
                unfinished += 1
        env = self.XSH.env
        try:
            det = dict(env.detype())
        except Exception as e:  # noqa
            det = {"<detype failed>": type(e).__name__}
        for k in ("OLDPWD", "PWD", "_", "LAST_RETURN_CODE", "__ALIAS_STACK", "__ALIAS_NAME", "VERIF_ARGV_OUT"):
            det.pop(k, None)
        term = {}
        if self.pty:
            import termios

            try:
                term["terminal_owner"] = "shell" if os.tcgetpgrp(2) == os.getpgrp() else "another-process-group"
            except OSError as e:
                term["terminal_owner"] = "error:" + type(e).__name__
            try:
                a = termios.tcgetattr(0)
                term["termios"] = [a[0], a[1], a[2], a[3], a[4], a[5], [c.hex() if isinstance(c, bytes) else c for c in a[6]]]
            except termios.error as e:
                term["termios"] = "error:" + str(e)
        return {
            **term,
            "nfds": len(fds),
            "fd_targets": sorted(v if not v.startswith(("pipe:", "socket:", "anon_inode:")) else v.split(":")[0] for v in fds.values()),
            "children": sorted((n, "zombie" if s == "Z" else "alive") for n, s in ch.values()),
            "child_pids": sorted(ch),
            "threads": th,
            "cwd": os.getcwd(),
            "std": [(n, id(getattr(sys, n)), bool(getattr(getattr(sys, n), "closed", False))) for n in ("stdin", "stdout", "stderr")],
            "env": det,
            "unfinished_foreground_jobs": unfinished,
            "sigmask": sorted(signal.pthread_sigmask(signal.SIG_BLOCK, [])),
        }

    def helper_threads(self):
        return [t for t in threading.enumerate() if t is not threading.main_thread() and t.is_alive() and t.ident not in self.ignored_threads and not t.name.startswith("verif")]

    def quiescent_sample(self, limit=6.0):
        """quiescence barrier: first give helper threads and exiting children the windows the code itself uses (joins, 0.1 s
        closer polls, lazily reaped exits), then require two equal consecutive samples"""
        end = time.time() + limit
        while time.time() < end and (self.helper_threads() or any(st != "Z" and pid not in self.baseline_children for pid, (n, st) in self.children().items())):
            time.sleep(0.02)
        prev = self.sample()
        while time.time() < end + 1.0:
            time.sleep(0.05)
            cur = self.sample()
            if cur == prev:
                return cur
            prev = cur
        return prev

    def sigint_probe(self):
        """the effect, not the handler object: a SIGINT must surface as KeyboardInterrupt in the main thread"""
        try:
            os.kill(os.getpid(), signal.SIGINT)
            for _ in range(50):
                time.sleep(0.005)
            return False
        except KeyboardInterrupt:
            return True
        except BaseException as e:  # noqa  a stale handler of a finished command blew up instead
            return "raises-" + type(e).__name__

    def liveness_probe(self):
        self.ctx.pop("probe", None)
        try:
            with harness.alarm(15):
                self.ex.exec("probe = $(exitn 0 probe)\n", glbs=self.ctx, locs=None, mode="exec", filename="<probe>")
            return "ok"
        except harness.CaseTimeout:
            return "wedged"
        except BaseException as e:  # noqa
            return "raised:" + type(e).__name__

    # ---- one command -----------------------------------------------------------------------------
    def take_terminal_back(self):
        """attribution: after a reported TERMINAL-NOT-RETURNED the harness does what the shell should have done"""
        old = signal.pthread_sigmask(signal.SIG_BLOCK, [signal.SIGTTOU, signal.SIGTTIN, signal.SIGTSTP])
        try:
            os.tcsetpgrp(2, os.getpgrp())
        except OSError:
            pass
        finally:
            signal.pthread_sigmask(signal.SIG_SETMASK, old)

    def run_cmd(self, src, interrupt=False, rec=None):
        self.ctx.pop("r", None)
        timer = None
        if interrupt and self.pty:
            def type_ctrl_c():
                # the terminal driver turns ^C into SIGINT for the foreground process group - whoever that is right now
                os.write(self.master_fd, b"\x03")
                if rec is not None:
                    rec.count("pty_ctrl_c_typed")

            timer = threading.Timer(0.25, type_ctrl_c)
            timer.name = "verif-interrupt"
            timer.start()
        elif interrupt:
            def ctrl_c():
                # what a terminal does: every process of the foreground job and the shell get SIGINT
                for pid in self.children():
                    if pid not in self.baseline_children:
                        try:
                            os.kill(pid, signal.SIGINT)
                        except OSError:
                            pass
                os.kill(os.getpid(), signal.SIGINT)

            timer = threading.Timer(0.25, ctrl_c)
            timer.name = "verif-interrupt"
            timer.start()
        out = "ok"
        try:
            with harness.alarm(30):
                try:
                    self.ex.exec(src + "\n", glbs=self.ctx, locs=None, mode="exec", filename="<c09>")
                    r = self.ctx.get("r")
                    if r is not None and hasattr(r, "end"):
                        r.end()
                except KeyboardInterrupt:
                    out = "KeyboardInterrupt"
                    r = self.ctx.get("r")
        except harness.CaseTimeout:
            out = "HANG"
        except KeyboardInterrupt:
            out = "KeyboardInterrupt"
        except BaseException as e:  # noqa
            out = type(e).__name__
        if timer is not None:
            timer.join()
            # the interrupt may arrive after a fast command has finished: absorb it here, not in the next command
            try:
                for _ in range(10):
                    time.sleep(0.005)
            except KeyboardInterrupt:
                pass
        return out

    def cleanup_between_items(self):
        """attribution: whatever the previous item left must not be charged to the next one"""
        from vlib.session import reset_jobs

        reset_jobs()
        for pid, (name, st) in self.children().items():
            try:
                os.kill(pid, signal.SIGKILL)
            except OSError:
                pass
            try:
                os.waitpid(pid, 0)
            except OSError:
                self.ignored_children.add(pid)
        for t in threading.enumerate():
            if t is not threading.main_thread() and t.is_alive() and not isinstance(t, threading._DummyThread):
                t.join(0.5)
                if t.is_alive():
                    self.ignored_threads.add(t.ident)
        for n, fd, mode in (("stdout", 1, "w"), ("stderr", 2, "w"), ("stdin", 0, "r")):
            if getattr(getattr(sys, n), "closed", False):
                setattr(sys, n, open(fd, mode, closefd=False))
        try:
            os.chdir(self.work)
        except OSError:
            pass
        signal.signal(signal.SIGINT, signal.default_int_handler)
        for f in os.listdir(self.work):
            if f not in ("inp", "noexec"):
                try:
                    os.unlink(os.path.join(self.work, f))
                except OSError:
                    pass

    def run_suspend_case(self, case, rec):
        """pty only: Ctrl-Z typed while a foreground job owns the terminal.  The job stops, the shell must get the terminal
        back and keep running; `fg` hands the terminal over again and, when the job has finished, everything is as before."""
        from xonsh.procs import jobs

        label, cmd, form = case["label"], case["cmd"], case["form"]
        src = render(cmd, form)
        rec.case(nontrivial=repr((label, form, "pty")))
        rec.setadd("shapes_pty_only", label)
        self.cleanup_between_items()
        self.baseline_children = set(self.children())
        pre = self.quiescent_sample(limit=1.0)

        def viol(kind, **kw):
            rec.violation(f"{kind}/{label}/{form}", case, dict(kw, src=src, pty=True))

        def owner():
            try:
                return "shell" if os.tcgetpgrp(2) == os.getpgrp() else "another-process-group"
            except OSError as e:
                return "error:" + type(e).__name__

        def type_ctrl_z():
            # logical trigger, not a wall-clock guess: type ^Z once the job owns the terminal (then the tty sends it SIGTSTP)
            end = time.time() + 10
            while time.time() < end:
                try:
                    if os.tcgetpgrp(2) != os.getpgrp():
                        break
                except OSError:
                    pass
                time.sleep(0.01)
            time.sleep(0.15)
            os.write(self.master_fd, b"\x1a")
            rec.count("pty_ctrl_z_typed")

        timer = threading.Thread(target=type_ctrl_z, name="verif-suspend")
        timer.start()
        t0 = time.time()
        out = "ok"
        try:
            with harness.alarm(20):
                self.ex.exec(src + "\n", glbs=self.ctx, locs=None, mode="exec", filename="<c09>")
        except harness.CaseTimeout:
            out = "HANG"
        except BaseException as e:  # noqa
            out = type(e).__name__
        timer.join()
        took = time.time() - t0
        rec.count("pty_terminal_owner_checks")
        if out == "HANG":
            viol("COMMAND-NEVER-RETURNED-AFTER-CTRL-Z")
            self.take_terminal_back()
            return
        stopped = [pid for pid, (n, st) in self.children().items() if pid not in self.baseline_children and st == "T"]
        if not stopped:
            # the job finished before / without being stopped (e.g. ^Z arrived while the shell still owned the terminal): nothing to judge
            rec.count("pty_suspend_not_effective")
            if owner() != "shell":
                viol("TERMINAL-NOT-RETURNED")
                self.take_terminal_back()
            return
        rec.count("pty_jobs_suspended")
        if owner() != "shell":
            viol("TERMINAL-NOT-RETURNED-AFTER-CTRL-Z", outcome=out)
            self.take_terminal_back()
        listed = [(n, j.get("status")) for n, j in jobs.get_jobs().items()]
        if not any(st in ("stopped", "suspended") for _, st in listed):
            viol("SUSPENDED-JOB-NOT-IN-JOB-TABLE", jobs=listed)
            return
        # bring it back: it owns the terminal again, runs to its end, the shell takes the terminal back
        out2 = "ok"
        try:
            with harness.alarm(20):
                self.ex.exec("fg\n", glbs=self.ctx, locs=None, mode="exec", filename="<c09>")
        except harness.CaseTimeout:
            out2 = "HANG"
        except BaseException as e:  # noqa
            out2 = type(e).__name__
        rec.count("pty_terminal_owner_checks")
        rec.count("pty_fg_resumed")
        if out2 == "HANG":
            viol("FG-NEVER-RETURNED")
            self.take_terminal_back()
            return
        if owner() != "shell":
            viol("TERMINAL-NOT-RETURNED-AFTER-FG", outcome=out2)
            self.take_terminal_back()
        s1 = self.quiescent_sample()
        left = [pid for pid in self.children() if pid not in self.baseline_children]
        if left:
            viol("CHILD-LEFT-AFTER-FG", count=len(left), outcome=out2)
        if s1["nfds"] != pre["nfds"]:
            viol("FD-LEAK-AFTER-SUSPEND-FG", before=pre["nfds"], after=s1["nfds"])
        if s1["unfinished_foreground_jobs"] > pre["unfinished_foreground_jobs"] or jobs.get_jobs():
            jobs._clear_dead_jobs()
            if jobs.get_jobs():
                viol("JOB-LEFT-IN-TABLE-AFTER-FG", jobs=[(n, j.get("status")) for n, j in jobs.get_jobs().items()])
        if s1.get("termios") != pre.get("termios"):
            viol("TERMINAL-MODES-CHANGED-AFTER-SUSPEND-FG")
        rec.count("conservation_checks")

    # ---- commands that outlive a scope of the caller ------------------------------------------------
    SCOPE_CMDS = ["agate", "agate | cat", "tagger 1 | agate in", "agate | agate in", "agate e>o | cat"]
    SCOPE_LAUNCH = ["r = !(%s)", "%s &"]
    SCOPE_KINDS = ["redirect_stdout+stderr", "redirect_stdout", "shell-Tee", "user-assignment"]

    def run_scope_case(self, case, rec):
        """A command that does not block its caller (`r = !(alias)`, `alias &`) is started while sys.stdout / sys.stderr
        are temporarily replaced by a scope of the caller (contextlib.redirect_*, the Tee the interactive shell puts around
        every input line, a plain assignment that is undone); the scope ends while the alias thread is still running, then
        the command finishes.  Finishing must leave sys.std* as they were the moment before it finished."""
        import contextlib
        import io

        from xonsh.procs.proxies import ProcProxyThread

        cmd, launch, kind = case["cmd"], case["launch"], case["scope"]
        src = launch % cmd
        rec.case(nontrivial=repr(("scope", cmd, launch, kind)))
        self.cleanup_between_items()
        self.gate_started.clear()
        self.gate_release.clear()
        sys.stdout.flush()
        sys.stderr.flush()
        os.dup2(self.null1, 1)
        os.dup2(self.null2, 2)
        pre = (sys.stdout, sys.stderr, sys.stdin)
        tee = None
        started = False
        out = "ok"
        try:
            self.ctx.pop("r", None)
            with contextlib.ExitStack() as st:
                if kind.startswith("redirect_stdout"):
                    st.enter_context(contextlib.redirect_stdout(io.StringIO()))
                    if kind.endswith("stderr"):
                        st.enter_context(contextlib.redirect_stderr(io.StringIO()))
                elif kind == "shell-Tee":
                    from xonsh.shells.base_shell import Tee

                    tee = Tee(encoding="utf-8", errors="replace")
                    st.callback(tee.close)
                else:
                    sys.stdout, sys.stderr = io.StringIO(), io.StringIO()
                    st.callback(lambda: (setattr(sys, "stdout", pre[0]), setattr(sys, "stderr", pre[1])))
                try:
                    with harness.alarm(30):
                        self.ex.exec(src + "\n", glbs=self.ctx, locs=None, mode="exec", filename="<c09-scope>")
                        started = self.gate_started.wait(15)
                except harness.CaseTimeout:
                    out = "HANG"
                except BaseException as e:  # noqa
                    out = type(e).__name__
            after_scope = (sys.stdout, sys.stderr, sys.stdin)
            self.gate_release.set()
            try:
                with harness.alarm(30):
                    r = self.ctx.get("r")
                    if r is not None and hasattr(r, "end"):
                        r.end()
                    end = time.time() + 20
                    while time.time() < end and any(isinstance(t, ProcProxyThread) and t.is_alive() for t in threading.enumerate()):
                        time.sleep(0.01)
            except harness.CaseTimeout:
                out = "HANG"
            except BaseException as e:  # noqa
                out = out if out != "ok" else type(e).__name__
            alive = [t.name for t in threading.enumerate() if isinstance(t, ProcProxyThread) and t.is_alive()]
            final = (sys.stdout, sys.stderr, sys.stdin)
        finally:
            self.gate_release.set()
            sys.stdout, sys.stderr, sys.stdin = pre
            os.dup2(self.real1, 1)
            os.dup2(self.real2, 2)
        rec.count("commands_run")
        rec.count("scope_outcome_" + out)
        info = {"src": src, "scope": kind, "outcome": out}
        if not started or out != "ok" or alias_left(alive):
            # the schedule wanted was not produced (alias never ran / never ended): nothing to judge
            rec.count("scope_cases_not_judged")
            rec.count("scope_not_judged:" + ("alias-never-started" if not started else out if out != "ok" else "alias-thread-still-alive") + ":" + src)
            return
        if after_scope[0] is not pre[0] or (kind != "redirect_stdout" and after_scope[1] is not pre[1]):
            rec.count("scope_cases_not_judged")  # the scope itself did not put the streams back: harness problem, not xonsh's
            rec.count("scope_not_judged:scope-did-not-restore:" + kind + ":" + launch % "X" + ":" + type(after_scope[0]).__name__ + "/" + type(after_scope[1]).__name__)
            return
        rec.count("scope_lifetime_checks")
        rec.setadd("scope_schedules", repr((cmd, launch, kind)))
        # a stream the scope did not cover is still xonsh's dispatcher while the alias runs; once the command has finished
        # every stream must be the object it was before the command was started
        for nm, a, b in zip(("stdout", "stderr", "stdin"), pre, final):
            if a is not b:
                rec.violation(f"STD-STREAM-CHANGED/sys.{nm}-replaced-by-a-finishing-command/started-inside-an-ended-scope", case,
                              dict(info, now=f"{type(b).__module__}.{type(b).__name__}", closed=bool(getattr(b, "closed", False))))
            elif getattr(b, "closed", False):
                rec.violation(f"STD-STREAM-CHANGED/sys.{nm}-closed-by-a-finishing-command/started-inside-an-ended-scope", case, info)

    def run_case(self, case, rec):
        if case.get("pty") and not self.pty:
            return self._pty_cases([case], rec, 300)  # replay of a pty witness
        if not hasattr(self, "XSH"):
            self._setup()
        if case.get("scope"):
            return self.run_scope_case(case, rec)
        if case["label"].startswith("suspend/"):
            return self.run_suspend_case(case, rec)
        label, cmd, form, reps = case["label"], case["cmd"].replace("BIG", self.big), case["form"], case["reps"]
        src = render(cmd, form)
        interrupt = label.startswith("interrupt/")
        inj = None
        if case.get("hold"):
            # directed schedule: hold whichever thread reaches the first statement of the named method
            import importlib

            from vlib.sched import Injector, _code_of

            mod, qual, secs = case["hold"]
            obj = importlib.import_module(mod)
            for part in qual.split("."):
                obj = getattr(obj, part)
            c = _code_of(obj)
            inj = Injector(0, p=0.0).target(obj)
            inj.forced[(c.co_name, min(ln for _, _, ln in c.co_lines() if ln is not None and ln > c.co_firstlineno))] = secs
            inj.start()
        rec.case(nontrivial=repr((label, form, reps)))
        rec.setadd("shapes", label)
        self.cleanup_between_items()
        self.baseline_children = set(self.children())
        sys.stdout.flush()
        sys.stderr.flush()
        if not self.pty:
            os.ftruncate(self.null1, 0)
            os.ftruncate(self.null2, 0)
            os.dup2(self.null1, 1)
            os.dup2(self.null2, 2)
        outcomes = []
        not_returned = 0
        background = label.startswith("background/")

        def one():
            outcomes.append(self.run_cmd(src, interrupt, rec))
            if self.pty:
                # the moment a foreground command has returned the prompt would read the terminal: the shell must own it
                # again (a background job must never have got it)
                rec.count("pty_terminal_owner_checks")
                try:
                    owner = os.tcgetpgrp(2)
                except OSError:
                    owner = -1
                if owner != os.getpgrp():
                    nonlocal not_returned
                    not_returned += 1
                    self.take_terminal_back()

        try:
            pre = self.quiescent_sample(limit=1.0)
            int0 = self.sigint_probe()
            for _ in range(2):
                one()
            s0 = self.quiescent_sample()
            for _ in range(reps):
                one()
                if outcomes[-1] == "HANG":
                    break
            s1 = self.quiescent_sample()
            int1 = self.sigint_probe()
            live = self.liveness_probe()
            for stream in (sys.stdout, sys.stderr):
                try:
                    stream.flush()
                except ValueError:
                    pass
        finally:
            if inj is not None:
                rec.count("directed_holds_taken", inj.stats()["delays_injected"])
                inj.stop()
            if not self.pty:
                os.dup2(self.real1, 1)
                os.dup2(self.real2, 2)
        rec.count("commands_run", len(outcomes))
        rec.count("conservation_checks")
        rec.count("outcome_" + outcomes[-1])
        info = {"src": src, "reps": reps, "outcomes": sorted(set(outcomes))}
        if self.pty:
            info["pty"] = True
        else:
            info["term2_tail"] = os.pread(self.null2, 400, max(os.fstat(self.null2).st_size - 400, 0)).decode("utf-8", "replace")

        ALIASES = {"atag", "afail", "aexc", "aexit", "ahead", "abig", "asleep", "utag", "uexit", "urin", "anest", "anestfail"}
        nalias = sum(1 for st in cmd.split("|") if st.split()[0] in ALIASES)
        structural = f"alias-stages-{min(nalias, 2)}{'+' if nalias >= 2 else ''}"
        kindof = {"bare": "hiddenobject", "![]": "hiddenobject", "$[]": "uncaptured", "$()": "stdout", "@$()": "stdout", "!()": "object"}[form]

        def viol(kind, race=False, **kw):
            """deterministic leaks are keyed by (outcome class, form); schedule-dependent damage by the structure
            of the pipeline and the capture kind, because which shape happens to lose the race varies from run to run"""
            d = dict(info)
            d.update(kw)
            suffix = {"alias": "/" + structural, "capture": "/" + kindof, "both": f"/{structural}/{kindof}", "none": ""}.get(race, "")
            rec.violation(f"{kind}{suffix}" if race else f"{kind}/{label}/{form}", case, d)

        if self.pty:
            if not_returned:
                viol("TERMINAL-NOT-RETURNED", commands_after_which_another_group_owned_the_terminal=not_returned)
            if s1.get("terminal_owner") != "shell":
                viol("TERMINAL-NOT-RETURNED/at-quiescence", race="capture", owner=s1.get("terminal_owner"))
                self.take_terminal_back()
            if s1.get("termios") != pre.get("termios"):
                a, b = pre.get("termios"), s1.get("termios")
                only_vsusp = False
                try:
                    import termios as _t

                    only_vsusp = a[:6] == b[:6] and [i for i in range(len(a[6])) if a[6][i] != b[6][i]] == [_t.VSUSP]
                except Exception:  # noqa
                    pass
                if only_vsusp:
                    # schedule-dependent (which command loses the race varies): one key
                    viol("TERMINAL-MODES-CHANGED/suspend-character-left-" + ("disabled" if b[6][_t.VSUSP] in ("00", 0) else "changed"), race="none", before=a[6][_t.VSUSP], after=b[6][_t.VSUSP])
                else:
                    viol("TERMINAL-MODES-CHANGED", before=a, after=b)
                try:
                    import termios

                    old = signal.pthread_sigmask(signal.SIG_BLOCK, [signal.SIGTTOU])
                    a = pre["termios"]
                    termios.tcsetattr(0, termios.TCSANOW, a[:6] + [[bytes.fromhex(c) if isinstance(c, str) else c for c in a[6]]])
                    signal.pthread_sigmask(signal.SIG_SETMASK, old)
                except Exception:  # noqa
                    pass
        if "HANG" in outcomes:
            viol("COMMAND-NEVER-RETURNED", race="alias")
            return
        if background:
            rec.count("background_fds_and_children_not_judged")  # no prompt loop in the worker to reap finished background jobs
        elif s1["nfds"] != s0["nfds"] or s1["fd_targets"] != s0["fd_targets"]:
            viol("FD-LEAK", before=s0["nfds"], after=s1["nfds"], per_repetition=round((s1["nfds"] - s0["nfds"]) / reps, 2),
                 new_targets=sorted(set(s1["fd_targets"]) - set(s0["fd_targets"]))[:6] or [t for t in s1["fd_targets"] if s1["fd_targets"].count(t) > s0["fd_targets"].count(t)][:6])
        extra = sorted(set(s1["child_pids"]) - set(s0["child_pids"]))
        if extra and not background:
            time.sleep(1.0)
            ch = self.children()
            extra = [p for p in extra if p in ch]
        if extra and not background:
            states = sorted({("zombie" if ch[p][1] == "Z" else "running") for p in extra if p in ch})
            names = sorted({ch[p][0] for p in extra if p in ch})
            viol("CHILD-LEFT", count=len(extra), names=names, states=states)
        new = [t for t in s1["threads"] if s1["threads"].count(t) > s0["threads"].count(t)]
        if new:
            viol("THREAD-LEFT/" + new[0][0], new=new[:5], before=len(s0["threads"]), after=len(s1["threads"]))
        # state that has no legitimate warm-up effect is compared with the sample taken before the first execution
        if s1["cwd"] != pre["cwd"]:
            viol("CWD-CHANGED", before=pre["cwd"], after=s1["cwd"])
        for a, b in zip(pre["std"], s1["std"]):
            if a != b:
                viol(f"STD-STREAM-CHANGED/sys.{a[0]}" + ("-closed" if b[2] else "-replaced"), race="alias")
        if s1["env"] != pre["env"]:
            ks = sorted(k for k in set(pre["env"]) | set(s1["env"]) if pre["env"].get(k) != s1["env"].get(k))
            viol("ENV-CHANGED/" + "+".join(ks[:3]), race="none", keys=ks[:8])
        if s1["unfinished_foreground_jobs"] > pre["unfinished_foreground_jobs"]:
            viol("UNFINISHED-JOB-LEFT-IN-TABLE", race="both", before=pre["unfinished_foreground_jobs"], after=s1["unfinished_foreground_jobs"])
        if s1["sigmask"] != pre["sigmask"]:
            viol("SIGNAL-MASK-CHANGED", before=pre["sigmask"], after=s1["sigmask"])
        if int0 is True and int1 is not True:
            viol(("SIGINT-NO-LONGER-INTERRUPTS/" if int1 is False else f"SIGINT-{int1}/") + ("after-ctrl-c" if interrupt else "no-ctrl-c"), race="capture")
        elif int1 is True:
            rec.count("sigint_probes_ok")
        if live != "ok":
            viol("SESSION-" + live.upper().replace(":", "-"), race="both")
        else:
            rec.count("liveness_probes_ok")

    # ---- pty layer --------------------------------------------------------------------------------
    PTY_SKIP = ("nested/", "alias-o2e/", "alias-e2o/", "unthreaded-alias-stdin-file", "redirect-conflict/")

    def run_pty_shard(self, sh, rec):
        reps = 3 if sh["tier"] == "quick" else 25
        items = [(label, cmd, form) for label, cmd, forms in SHAPES for form in forms if not label.startswith(self.PTY_SKIP)]
        items += [("suspend/sleeping-process", "sleep 2", f) for f in ("bare", "![]", "$[]")] + [("suspend/pipeline", "sleep 2 | catrc 0", f) for f in ("bare", "![]")]
        rng = random.Random(f"{sh['seed']}/C09/pty")
        rng.shuffle(items)
        mine = items[sh["index"] :: sh["npty"]]
        if sh["tier"] == "quick":
            mine = mine[:34]
        cases = [{"label": label, "cmd": cmd, "form": form, "reps": reps if not label.startswith(("interrupt/", "suspend/")) else min(reps, 3), "pty": True} for label, cmd, form in mine]
        if sh["index"] == 0:
            # directed schedule: the reader thread of a captured command restores the terminal's suspend character late,
            # after the next captured command has already started
            cases.insert(0, {"label": "ok/process", "cmd": "exitn 0 t", "form": "$()", "reps": 3, "pty": True, "hold": ["xonsh.procs.posix", "PopenThread._restore_suspend_keybind", 0.05]})
        self._pty_cases(cases, rec, sh.get("timeout", 600) - 30)

    def _pty_cases(self, cases, rec, timeout):
        """fork a child that is the session leader of a fresh pty, run the cases there with its own recorder, merge"""
        from vlib import ptyrun

        side = rec.out_path + ".pty"
        errfile = side + ".err"

        def child(master_fd):
            self.pty, self.master_fd = True, master_fd
            crec = harness.Rec(side, rec.shard)
            try:
                self._setup()
                import xonsh.procs.jobs as xj

                xj.ignore_sigtstp()  # what the interactive shell does at start-up
                orig_give = xj.give_terminal_to

                def give(pgid):
                    ok = orig_give(pgid)
                    if ok and pgid is not None and pgid != os.getpgrp():
                        crec.count("pty_terminal_handed_to_job")
                    return ok

                xj.give_terminal_to = give
                for i, case in enumerate(cases):
                    if i < 2:
                        crec.sample({"src": render(case["cmd"], case["form"]), "reps": case["reps"], "pty": True}, "pty")
                    crec.begin(case)
                    self.run_case(case, crec)
            finally:
                crec.finish()

        status, out = ptyrun.run_in_pty(child, timeout=timeout, errfile=errfile)
        merged = rec.merge_file(side)
        if status != "exit:0" or not merged:
            err = ""
            try:
                with open(errfile) as f:
                    err = f.read()[-600:]
            except OSError:
                pass
            cur = None
            try:
                import json

                with open(side + ".cur") as f:
                    cur = json.load(f)
            except (OSError, ValueError):
                pass
            rec.inconclusive(f"pty session child ended with {status} (current case {cur}); terminal tail {out[-300:]!r}; {err}")

    def run_shard(self, sh, rec):
        if sh.get("kind") == "pty":
            return self.run_pty_shard(sh, rec)
        self._setup()
        reps = 5 if sh["tier"] == "quick" else 60
        items = [(label, cmd, form) for label, cmd, forms in SHAPES for form in forms]
        rng = random.Random(f"{sh['seed']}/C09")
        rng.shuffle(items)
        mine = items[sh["index"] :: 16]
        for i, (label, cmd, form) in enumerate(harness.budgeted(mine, rec)):
            case = {"label": label, "cmd": cmd, "form": form, "reps": reps if not label.startswith("interrupt/") else min(reps, 8)}
            # a few long runs: leaks that only hurt after many commands
            if sh["tier"] == "quick" and i % 6 == 0 and not label.startswith(("interrupt/", "early-exit/")):
                case["reps"] = 40
            if i < 2:
                rec.sample({"src": render(cmd, form), "reps": case["reps"]}, label.split("/")[0])
            self.run_case(case, rec)
        scope = [(c, l, k) for c in self.SCOPE_CMDS for l in self.SCOPE_LAUNCH for k in self.SCOPE_KINDS]
        rng.shuffle(scope)
        for c, l, k in harness.budgeted(scope[sh["index"] :: 16] * (1 if sh["tier"] == "quick" else 6), rec):
            self.run_case({"label": "scope/" + k, "cmd": c, "launch": l, "scope": k}, rec)


def alias_left(alive):
    return bool(alive)


CHECK = C09()

if __name__ == "__main__":
    harness.main(CHECK)
