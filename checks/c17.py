"""C17 - `xonsh format` never changes what a program means, and is idempotent.

Sources are assembled from blocks (Python statements in sloppy spacing, command lines over the realistic
word alphabet, macros, multi-line strings, f-strings, comments, blank-line runs, continuations,
indentation styles, CRLF, no final newline).  Oracle: xonsh's own parser on input and output
(location-free tree equality, context-free and context-aware), COMMENT token strings unchanged,
format(format(s)) == format(s); input the formatter cannot tokenise must be rejected by the CLI with the
file left byte-for-byte unchanged.
"""

import ast
import builtins as _b
import os
import random
import re

from vlib import harness
from vlib.astnorm import firstdiff, norm

SAFE_WORDS = ["a", "-x", "--long", "-n1", "a/b.c", "./x", "../y", "12", "1.5", "x_y", "a.b", "*.py", "~/z", "\u00fcn\u00ef", "-I/usr/include", "+x", "%d", "$HOME", "$HOME/x", "@(val)", "'s p'", '"d q"', "r'\\raw'", "f'{val}'", "x-y"]
RISK_WORDS = {
    "colon-word": ["a:b", "host:/p", "http://h/p?q=1", "$PWD:/w", "b:c"],
    "comma-word": ["a,b", "x,y,z", "1,2"],
    "brace-word": ["{a,b}", "f{1,2}.txt"],
    "operator-word": ["x==y", "a!=b", "a<=b", "a->b", "k+=v", "a>=b"],
    "equals-word": ["k=v", "--k=v", "a=b=c"],
}
NEUTRAL = {"colon-word": "ab", "comma-word": "ab", "brace-word": "ab", "operator-word": "xy", "equals-word": "kv"}
RISKS = list(RISK_WORDS) + ["string-trailing-blank", "block-macro-blank-run", "alias-macro", "call-macro", "crlf", "tabs-in-string", "fstring-nested-spec", "tab-before-comment", "line-boundary-char"]

PY_STMTS = [
    "x=1", "y = x+1", "z=[1,2 ,3]", "d={'a':1,'b' :2}", "def f(a,b=2,*c,**d):\n    return a+b", "class C(object):\n    x=1\n    def m(self):return self.x",
    "if x==1:\n    y=2\nelif x>2:\n    y=3\nelse:\n    y=4", "for i in range(3):\n    print(i,end='')", "while x<3:x+=1", "try:\n    x=1/0\nexcept ZeroDivisionError as e:\n    pass\nfinally:\n    pass",
    "with open('f') as fh,open('g') as gh:\n    pass", "lam=lambda a,b:a*b", "t=(1,)", "s=x[1:2,::3]", "r=x if y else z", "import os,sys", "from a.b import (c,\n    d)", "assert x,'m'",
    "x = y if not z else-1", "a=b=c=0", "x=-1", "y=x**-2", "f(*a,**k)", "f(a=1,b=2)", "x=a @ b", "v:int=3", "def g()->int:pass", "x=[i for i in range(3)if i]", "global gg", "del x,y",
    "x = 1 if a<b else 2", "print(a>b,a>>b,a<<b,a//b)", "x = {**d,'k':1}", "async def h():\n    await g()", "match x:\n    case 1:\n        pass\n    case _:\n        pass", "x = not a", "y = a is not b",
    "s = 'a' 'b'", "z = a[-1]", "w = a [1]", "q = f (x)", "return_ = 1", "x = ( 1 + 2 )", "y = [ 1, 2 ]", "z = { 1 : 2 }", "k = a . b", "x = a if b else(c)",
]


class Gen:
    def __init__(self, rng, risk):
        self.r, self.risk = rng, risk

    def word(self):
        if self.risk in RISK_WORDS and self.r.random() < 0.3:
            w = self.r.choice(RISK_WORDS[self.risk])
            return w, NEUTRAL[self.risk]
        w = self.r.choice(SAFE_WORDS)
        return w, w

    def command(self):
        n = self.r.randint(0, 4)
        ws = [self.word() for _ in range(n)]
        cmd = "cmd%d" % self.r.randint(0, 5)
        sp = lambda: self.r.choice([" ", " ", "  ", "   "])
        a = cmd + "".join(sp() + w[0] for w in ws)
        b = cmd + "".join(" " + w[1] for w in ws)
        k = self.r.random()
        if k < 0.15:
            a, b = a + " | cmd1 -x", b + " | cmd1 -x"
        elif k < 0.25:
            a, b = a + " > out.txt", b + " > out.txt"
        elif k < 0.32:
            a, b = "![" + a + "]", "![" + b + "]"
        elif k < 0.40:
            a, b = "r = $(" + a + ")", "r = $(" + b + ")"
        elif k < 0.46:
            a, b = a + " && cmd2 ok", b + " && cmd2 ok"
        return a, b

    def python(self):
        s = self.r.choice(PY_STMTS)
        return s, s

    def string_block(self):
        body = self.r.choice(["line one", "a  b", "x = 1", "  indented", "# not a comment", "echo a:b"])
        q = self.r.choice(["'''", '"""'])
        pre = self.r.choice(["", "r", "f", "b" if False else ""])
        if self.risk == "string-trailing-blank":
            a = f"s = {pre}{q}{body}   \nsecond \t\nthird{q}"
            b = f"s = {pre}{q}{body}\nsecond\nthird{q}"
            return a, b
        if self.risk == "tabs-in-string":
            a = f"s = {pre}{q}{body}\n\tsecond\tx\nthird{q}"
            return a, a.replace("\t", " ")
        a = f"s = {pre}{q}{body}\nsecond\n\n\nthird{q}"
        return a, a

    def macro(self):
        if self.risk == "alias-macro":
            t = self.r.choice(["x = 1;  y=2", "a  b   c", "for i in x :  pass", "'q'  \"d\"", "a:b , c"])
            a = f"cmd0! {t}"
            return a, "cmd0 ok"
        if self.risk == "call-macro":
            t = self.r.choice(["x  +  y", "a,b", "1 :2", "'s'  'p'", "SELECT  max(id)   AS   top   FROM   t", "f(a,  b)   +   c", "{a:1}   x  y", "[1,2]   y  :z", "a (b  (c)  d)  e   f"])
            a = f"r = mac!({t})"
            return a, "r = 1"
        if self.risk == "block-macro-blank-run":
            a = self.r.choice(["with! ctxm:\n    raw  block   text\n    second   line", "with! ctxm:\n    raw  block  text", "with! ctxm:\n    x = 1\n\n\n    y  =  2"])
            return a, "with ctxm:\n    pass"
        return None

    def block(self):
        k = self.r.random()
        if self.risk in ("alias-macro", "call-macro", "block-macro-blank-run") and k < 0.4:
            return self.macro()
        if self.risk in ("string-trailing-blank", "tabs-in-string") and k < 0.4:
            return self.string_block()
        if k < 0.40:
            return self.command()
        if k < 0.80:
            return self.python()
        if k < 0.88:
            return self.string_block()
        if k < 0.94:
            c = self.r.choice(["# a comment", "#no space", "#  two spaces ", "# c: with a:b , c==d", "#!shebang-like"])
            return c, c
        if self.risk == "fstring-nested-spec":
            return self.r.choice(["m = f'{val:{10}}'", "m = f'{val:{w}.{p}}'", "print(f'{x!r:>{y}}')"]), "m = f'{val}'"
        fs = self.r.choice(["m = f'{{literal}} {val} {{{val}}}'", "m = f\"{val!r:>10} {'q'}\"", "m = f'{val:>10}'"])
        return fs, fs

    def source(self):
        n = self.r.randint(1, 6)
        parts_a, parts_b = [], []
        indent_style = self.r.choice(["    ", "    ", "  ", "\t", "        "])
        forced = []
        if self.risk == "line-boundary-char":
            # the character comes first; what follows are the constructs whose text a formatter copies from the source by
            # line number: f-string segments, raw macro arguments, continuation lines inside brackets
            ch = self.r.choice(["\x0c", "\x0b", "\x1c", "\x1e", "\x85", "\u2028"])
            c = self.r.choice([f"s = 'page1{ch}page2'", f"# note {ch} more", f'd = """doc{ch}\nline"""'])
            forced.append((c, c.replace(ch, "-")))
            for t in self.r.sample(["m = f'hello {{x}} {val}!'", "r = mac!(a   b    c)", "t = (s,\n     r)", "cmd0! raw   text  here", "values = compute(\n    a,\n    b)"], 2):
                forced.append((t, t))
            n = max(n, len(forced))
        for i in range(n):
            blk = forced[i] if i < len(forced) else self.block()
            if blk is None:
                blk = self.python()
            a, b = blk
            if self.r.random() < 0.25 and not a.startswith(("with!", "def ", "class ", "if ", "for ", "while ", "try", "with ", "match ", "async ")) and "\n" not in a:
                hdr = self.r.choice(["if cond:", "for i in xs:", "def fn():", "while cond:", "with ctxm:", "try:"])
                tail = "\nexcept Exception:\n" + indent_style + "pass" if hdr == "try:" else ""
                a = hdr + "\n" + indent_style + a + tail
                b = hdr + "\n" + indent_style + b + tail
            if self.r.random() < 0.2 and "\n" not in a:
                c = self.r.choice(["  # trailing", " #x", "   # three"])
                if self.risk == "tab-before-comment":
                    a, b = a + "\t# tab before", b + "  # tab before"
                else:
                    a, b = a + c, b + c
            if self.r.random() < 0.1 and " " in a and "\n" not in a and "#" not in a and "!" not in a and self.risk is None:
                i = a.index(" ")
                a = a[:i] + " \\\n  " + a[i + 1:]
                b = a
            parts_a.append(a)
            parts_b.append(b)
            gap = self.r.choice(["\n", "\n", "\n\n", "\n\n\n\n", "\n   \n", "\n\n# between\n"])
            parts_a.append(gap)
            parts_b.append(gap)
        a, b = "".join(parts_a), "".join(parts_b)
        if self.r.random() < 0.15:
            a, b = a.rstrip("\n"), b.rstrip("\n")
        if self.risk == "crlf":
            a = a.replace("\n", "\r\n")
        return a, b


class C17:
    id = "C17"
    module = "checks.c17"
    level = "exploration"
    tables = True
    rule = (
        "cases = sources of 1-6 blocks from {Python statements in sloppy spacing, command lines over a realistic word alphabet in bare/![]/$()/pipe/redirect/chain form, alias/call/block macros, "
        "multi-line strings, nested f-strings, comments} optionally inside if/for/def/while/with/try suites with 2/4/8-space or tab indents, trailing comments, blank-line runs, backslash continuations, "
        "no final newline, CRLF; plus corpus statements of the stdlib and un-tokenisable inputs for the CLI; distinct_nontrivial = distinct source texts that the formatter changed"
    )
    assumptions = [
        "sources the xonsh parser itself rejects are dropped (the property compares xonsh trees of files the formatter accepts)",
        "the tree comparison uses Execer.parse with a fixed set of bound names, locations dropped; comment comparison is on the COMMENT token strings of xonsh's own tokenizer after lstrip (the documented cleanup)",
        "each source carries at most one construct class that a listed finding trips over; a deviation is attributed to it only when the neutralised twin formats cleanly",
    ]

    def shards(self, tier, seed):
        per = 450 if tier == "quick" else 9000
        return [dict(kind="mixed", index=i, n=per, corpus=(250 if tier == "quick" else 6000), timeout=420 if tier == "quick" else 3000) for i in range(16)]

    def floors(self, c, tier):
        r = []
        if c.get("sources_judged", 0) < 5000:
            r.append("fewer than 5000 sources judged")
        if c.get("formatter_changed_text", 0) < 1000:
            r.append("the formatter changed too few inputs for the oracle to see anything")
        if c.get("cli_rejections_checked", 0) < 20:
            r.append("CLI rejection of un-tokenisable input not exercised")
        if c.get("subproc_lines", 0) < 1000:
            r.append("too few subprocess lines")
        return r

    def _setup(self):
        from vlib.session import make_session

        self.XSH, self.ex, self.ctx = make_session([])
        from xonsh.formatter.core import FormatError, format_source

        self.fmt, self.FormatError = format_source, FormatError
        self.CTX = set(dir(_b)) | {"xs", "cond", "val", "ctxm", "w", "p", "x", "y", "z", "a", "b", "c", "d", "f", "g", "i", "k", "e", "s", "m", "r", "t", "v", "w", "q", "fh", "gh", "lam", "os", "sys", "gg", "mac", "fn", "h", "C", "self"}
        self.extra_names = set()
        self.work = os.path.join(os.environ["VERIF_SCRATCH"], f"c17-{os.getpid()}")
        os.makedirs(self.work, exist_ok=True)

    def xparse(self, s):
        ctx = set(self.CTX) | self.extra_names
        try:
            with harness.alarm(20):
                # the context-free tree exists only for sources whose every line is Python-shaped or explicitly wrapped; bare
                # command lines are judged on the tree the execer builds (wrap-and-retry included)
                try:
                    raw = norm(self.ex.parser.parse(s if s.endswith("\n") else s + "\n"))
                except SyntaxError:
                    if getattr(self, "python_only", False):
                        raise  # a corpus statement is Python: if xonsh cannot read it as such (C01's subject) it is not judged here
                    raw = None
                return "ok", (raw, norm(self.ex.parse(s, ctx=ctx)))
        except SyntaxError as e:
            return "SyntaxError", str(e)[:80]
        except harness.CaseTimeout:
            return "HANG", None
        except BaseException as e:  # noqa
            return "CRASH", type(e).__name__

    def comments(self, s):
        from xonsh.parsers import tokenize as xt
        import io

        out = []
        try:
            for tok in xt.tokenize(io.BytesIO(s.encode("utf-8")).readline):
                if tok.type == xt.COMMENT:
                    out.append(tok.string.strip())  # leading blank: documented cleanup; trailing blanks of a line are not comment text
        except Exception:
            return None
        return out

    def judge(self, s, rec=None):
        """-> ('ok'|'skip', None) | (kind, detail)"""
        try:
            with harness.alarm(30):
                o = self.fmt(s)
        except self.FormatError:
            return ("skip", "FormatError")
        except harness.CaseTimeout:
            return ("HANG/format_source", None)
        except BaseException as e:  # noqa
            return (f"CRASH/format_source/{type(e).__name__}", {"msg": str(e)[:100]})
        pi = self.xparse(s)
        if pi[0] != "ok":
            return ("skip", "input-not-parsable")
        if rec is not None:
            rec.count("sources_judged")
            if o != s:
                rec.count("formatter_changed_text")
        po = self.xparse(o)
        if po[0] != "ok":
            return ("BROKEN-OUTPUT", {"output": o[:400], "error": po[1]})
        if pi[1] != po[1]:
            d = firstdiff(pi[1][1], po[1][1]) or firstdiff(pi[1][0], po[1][0])
            path = d[0] if d else ""
            where = "subprocess-argument" if "subproc_" in str(pi[1][1]) and ("Call.args" in path or "List.elts" in path) else "string-literal" if path.endswith("Constant.value") else "other"
            return (f"MEANING-CHANGED/{where}", {"output": o[:400], "path": path[-120:], "what": d[1] if d else None})
        ci, co = self.comments(s), self.comments(o)
        if ci is not None and co is not None and ci != co:
            return ("COMMENTS-CHANGED", {"input": ci[:5], "output": co[:5]})
        try:
            o2 = self.fmt(o)
        except BaseException as e:  # noqa
            return (f"NOT-IDEMPOTENT/second-pass-raises-{type(e).__name__}", {"output": o[:300]})
        if o2 != o:
            return ("NOT-IDEMPOTENT", {"first": o[:300], "second": o2[:300]})
        return ("ok", None)

    def run_case(self, case, rec):
        if not hasattr(self, "XSH"):
            self._setup()
        if case["kind"] == "cli":
            return self.run_cli(case, rec)
        s = case["src"]
        self.extra_names = set()
        self.python_only = bool(case.get("corpus"))
        if case.get("corpus"):
            # corpus statements are Python: every name they mention is bound, so no line is read as a command
            try:
                self.extra_names = {n.id for n in ast.walk(ast.parse(s)) if isinstance(n, ast.Name)} | {n.arg for n in ast.walk(ast.parse(s)) if isinstance(n, ast.arg)}
            except SyntaxError:
                pass
        rec.count("subproc_lines", s.count("cmd"))
        v = self.judge(s, rec)
        if v[0] == "skip":
            rec.count("skipped_" + v[1])
            return
        try:
            changed = self.fmt(s) != s
        except Exception:
            changed = False
        rec.case(nontrivial=s if changed else None)
        if v[0] == "ok":
            rec.count("ok")
            return
        risk = case.get("risk")
        if risk and case.get("neutral") is not None:
            v2 = self.judge(case["neutral"])
            if v2[0] in ("ok",):
                rec.violation(f"{v[0]}/{risk}", case, v[1])
                return
        if v[0] == "MEANING-CHANGED/other" and "FormattedValue.format_spec" in str((v[1] or {}).get("path")) and re.search(r"\{[^{}]*:\{", s):
            # a corpus statement (no neutral twin) that contains the construct of a listed finding
            rec.violation("MEANING-CHANGED/other/fstring-nested-spec", case, v[1])
            return
        if not risk and v[0].startswith("MEANING-CHANGED/") and re.search(r"[ \t]+\r?\n", s):
            # a corpus statement (no neutral twin): does the deviation vanish when no line ends in a blank?  then it is the listed
            # stripping of trailing blanks inside multi-line string literals
            v3 = self.judge(re.sub(r"[ \t]+(\r?\n)", r"\1", s))
            if v3[0] == "ok":
                rec.violation(v[0] + "/string-trailing-blank", case, v[1])
                return
        if v[0] == "MEANING-CHANGED/other" and str((v[1] or {}).get("path", "")).endswith("JoinedStr.values") and re.search(r"(?i)\bf[r]?['\"][^\n]*\{[ \t]+\{", s):
            rec.violation("MEANING-CHANGED/other/fstring-field-starting-with-a-brace", case, v[1])
            return
        if v[0] == "MEANING-CHANGED/other" and str((v[1] or {}).get("path", "")).endswith("JoinedStr.values") and re.search(r"\{[^{}]*(\s=\s*|=\s+)[}!:]", s):
            rec.violation("MEANING-CHANGED/other/fstring-self-documenting-whitespace", case, v[1])
            return
        if v[0].startswith("NOT-IDEMPOTENT") and re.search(r"\\\r?\n[ \t]*#", s):
            rec.violation("NOT-IDEMPOTENT/comment-line-after-backslash-continuation", case, v[1])
            return
        rec.violation(f"{v[0]}/unattributed" + ("" if not risk else f"-with-{risk}"), case, v[1])

    def run_cli(self, case, rec):
        from xonsh.formatter import cli

        p = os.path.join(self.work, "f.xsh")
        data = case["src"].encode("utf-8")
        with open(p, "wb") as fh:
            fh.write(data)
        import contextlib
        import io

        err = io.StringIO()
        try:
            with contextlib.redirect_stderr(err), contextlib.redirect_stdout(io.StringIO()):
                rc = cli.main([p])
        except SystemExit as e:
            rc = e.code
        except BaseException as e:  # noqa
            rec.violation(f"CLI/CRASH/{type(e).__name__}", case, {"msg": str(e)[:100]})
            return
        after = open(p, "rb").read()
        rec.case(nontrivial=case["src"])
        try:
            self.fmt(case["src"])
            accepted = True
        except BaseException:  # noqa
            accepted = False
        if not accepted:
            rec.count("cli_rejections_checked")
            if after != data:
                rec.violation("CLI/rejected-input-was-rewritten", case, {"rc": rc})
            elif rc == 0:
                rec.violation("CLI/untokenisable-input-not-reported", case, {"rc": rc, "stderr": err.getvalue()[:100]})
        else:
            rec.count("cli_accepted")
            if after != self.fmt(case["src"]).encode("utf-8"):
                rec.violation("CLI/written-bytes-differ-from-format_source", case, {"rc": rc})

    def run_shard(self, sh, rec):
        self._setup()
        rng = random.Random(f"{sh['seed']}/C17/{sh['index']}")
        # directed: the property's own example and the pilot's classes
        if sh["index"] == 0:
            for s, n, risk in [("x = '''a  \nb'''\n", "x = '''a\nb'''\n", "string-trailing-blank"), ("scp a b:c\n", "scp a bc\n", "colon-word"), ("echo a,b\n", "echo ab\n", "comma-word"), ("echo x==y\n", "echo xy\n", "operator-word"), ("with! ctxm:\n    raw  block  text\n", "with! ctxm:\n    raw block text\n", "block-macro-blank-run"), ("m = f'X{x  =}Y'\n", None, None), ("m = f'expr={ {k: v for k, v in [(1, 2)]} }'\n", None, None),
                               # raw macro text holding a `#` that is not a comment; a command whose first argument is an f-string
                               ("cmd0! issue#42   is   open\n", None, None), ("cmd0! a#b\n", None, None), ("r = mac!(title,\n    width=80 # columns\n)\n", None, None), ("r = mac!(a#b   c)\n", None, None),
                               ("cmd0 f\"build {val} done\" --urgency=low\n", None, None), ("cmd0 f'{val}' -o x -k v\n", None, None), ("cmd0 rf'{val}\\d' --flag=1 \\\n    --other=2\n", None, None), ("cmd0 F'{val}' k=v\n", None, None),
                               ("s = 'page1\u2028page2'\n\nwith ctxm:\n        cmd0 | cmd1 -x\n", "s = 'page1-page2'\n\nwith ctxm:\n        cmd0 | cmd1 -x\n", "line-boundary-char")]:
                self.run_case({"kind": "src", "src": s, "neutral": n, "risk": risk}, rec)
        for i in harness.budgeted(range(sh["n"]), rec):
            risk = rng.choice([None] * 6 + RISKS)
            g = Gen(rng, risk)
            a, b = g.source()
            case = {"kind": "src", "src": a, "neutral": b if risk else None, "risk": risk}
            if i < 2:
                rec.sample(case, "assembled")
            self.run_case(case, rec)
        # corpus statements (pure Python) in their original and in tightened spacing
        from checks.c01 import corpus_files, perturbations, statements_of

        files = corpus_files()
        random.Random(f"{sh['seed']}/C17/files").shuffle(files)
        n = 0
        for fn in files[sh["index"]::16]:
            if n >= sh["corpus"]:
                break
            _, stmts = statements_of(fn, maxlen=1500)
            rng.shuffle(stmts)
            for st in stmts[:25]:
                n += 1
                self.run_case({"kind": "src", "src": st, "risk": None, "corpus": True}, rec)
                for name, t in perturbations(st, rng):
                    if name in ("tight-all", "wide-one", "indent-tab", "indent-2", "comment", "blank-line", "no-final-nl"):
                        try:
                            ast.parse(t)
                        except SyntaxError:
                            continue
                        self.run_case({"kind": "src", "src": t, "risk": None, "via": name, "corpus": True}, rec)
                        break
        # CLI: inputs the formatter may not be able to tokenise
        for s in ["x = '''unterminated\n", "if x:\n        a\n    b\n", "x = (1,\n", "echo 'open\n", "def f(:\n", "x = $(\n", "\x00\n", "y = \"\"\"never closed\nmore\n", "for i in x:\npass\n", "x = [1, 2\n"] + [rng.choice(PY_STMTS) + "\n" for _ in range(5)]:
            self.run_case({"kind": "cli", "src": s}, rec)


CHECK = C17()

if __name__ == "__main__":
    harness.main(CHECK)
