"""C04 - arguments reach the command exactly as written.

Hostile strings x delivery forms (@(), literals of every kind, f-strings, macro, @$()) x position x
path (threaded alias, unthreadable alias, real child, real child at the end of a pipe, inside $()).
Oracle: the expected argv is produced by the generator (CPython evaluates literals), never by xonsh
helpers; both delivery paths must also agree with each other.
"""

import ast
import os
import random

from vlib import harness

ALPHA = list(" \t\n'\"\\*?[]{}$~#;&|<>!@()=,:%-+./^`") + list("abfxy01") + ["\u00fc", "\U0001F600", "\u0301", "\u00a0", "\u2028", "\x85", "\x0c"]
WORDY = ["-x", "--k=v", "2>", ">", ">>", "|", "&&", "and", "or", "not", "if", "e>o", "a>p", "<", "&", "None", "True", "$(ls)", "@(1)", "![x]", "${'a'}", "*", "**", "?", "[a-z]", "{a,b}", "~", "~/x", "~root", "-", "--", "#c", "a#b", "\\", "\\\\", "a\\", "'", '"', "'''", '"""', "a b", " ", "", "\n", "a\nb", "$", "$HOME", "${HOME}", "$NOPE_UNDEFINED", "%d", "=", "a=b", "é", "x;y", "`id`", "!", "!!", "a!b"]


def rstr(rng):
    if rng.random() < 0.45:
        return rng.choice(WORDY)
    n = rng.choice([1, 1, 2, 3, 5, 8, 13])
    return "".join(rng.choice(ALPHA) for _ in range(n))


def lit_forms(v):
    """(kind, literal text) whose CPython value is v."""
    out = [("repr", repr(v))]
    if "'" not in v and "\\" not in v and "\n" not in v:
        out.append(("raw-sq", "r'" + v + "'"))
    if '"' not in v and "\\" not in v and "\n" not in v:
        out.append(("raw-dq", 'r"' + v + '"'))
    if "'''" not in v and "\\" not in v and not v.endswith("'"):
        out.append(("triple-raw", "r'''" + v + "'''"))
    # upper-case and mixed prefixes mean the same as their lower-case spellings
    if "'" not in v and "\\" not in v and "\n" not in v:
        out.append(("raw-sq-upper", "R'" + v + "'"))
    if '"""' not in v and "\\" not in v and not v.endswith('"'):
        out.append(("triple-raw-upper", 'R"""' + v + '"""'))
    out.append(("repr-upper-u", "U" + repr(v)) if repr(v)[0] in "'\"" else ("repr", repr(v)))
    d = '"' + v.replace("\\", "\\\\").replace('"', '\\"').replace("\n", "\\n").replace("\t", "\\t") + '"'
    out.append(("dq-escaped", d))
    if '"""' not in v and "\\" not in v and not v.endswith('"'):
        out.append(("triple-dq", '"""' + v + '"""'))
    return out


class C04:
    id = "C04"
    module = "checks.c04"
    level = "exploration"
    tables = True
    rule = (
        "cases = (hostile argument string, delivery form in {@(v), @([v,w]), @(generator), @(non-str), glued pre@(v)post, repr/raw/triple/escaped literals incl. upper-case prefixes, bare words of backslashes / symbols / non-ASCII characters, f-string, triple-quoted f-string with newline/quote/escape segments, macro, @$()}, "
        "position first/middle/last, delivery path in {threaded alias, unthreadable alias, real child, real child after a pipe, alias inside $(), the same commands reached through a list alias, an alias of an alias and a string alias}); "
        "distinct_nontrivial = distinct (string, form, position, path) with a string containing at least one shell/glob/quote metacharacter"
    )
    assumptions = [
        "NUL is excluded (quantifier); lone surrogates are only delivered through @() (they cannot be written in a UTF-8 source)",
        "non-raw literals are judged verbatim only when the value contains neither $ nor ~ (documented expansion is judged in its own small class against os.path.expanduser and a 10-line $NAME substituter)",
        "glued pre@(v)post forms use values free of glob/expansion characters (the outer-product path globs and expands by documented design)",
        "CPython's ast.literal_eval defines the value of every literal",
    ]

    def shards(self, tier, seed):
        per = 330 if tier == "quick" else 5000
        return [dict(kind="args", index=i, n=per, real=(40 if tier == "quick" else 500), timeout=420 if tier == "quick" else 3000) for i in range(16)]

    def floors(self, c, tier):
        r = []
        if c.get("deliveries_judged", 0) < 20000:
            r.append("fewer than 20000 deliveries judged")
        for k in ("path_real_child", "path_real_child_after_pipe", "path_unthreadable_alias", "path_alias_in_captured_subproc", "form_macro", "form_@$()"):
            if c.get(k, 0) < 30:
                r.append(f"{k} under-exercised ({c.get(k, 0)})")
        return r

    def _setup(self):
        from vlib.session import Recorder, make_sandbox_path, make_session

        self.sb = make_sandbox_path(os.environ["VERIF_SCRATCH"])
        self.work = os.path.join(os.environ["VERIF_SCRATCH"], f"c04-{os.getpid()}")
        os.makedirs(self.work, exist_ok=True)
        os.chdir(self.work)
        for n in ("f1", "f2", "a b", "x.py"):
            open(n, "w").close()
        self.dump = os.path.join(self.work, "argv.jsonl")
        self.XSH, self.ex, self.ctx = make_session([self.sb], env={"VERIF_ARGV_OUT": self.dump, "PWD": self.work, "XONSH_SUBPROC_RAISE_ERROR": False, "DEFINED_VAR": "dv al*", "THREAD_SUBPROCS": True})
        self.R = Recorder()
        al = self.XSH.aliases
        al["rec"] = self.R.alias("rec")
        al["urec"] = self.R.alias("urec", unthreadable=True)
        al["aok"] = lambda args, stdin=None: "ok\n"
        # the same commands reached through list / string aliases (what `ls`, `grep` ... are in a default session):
        # the user's arguments must arrive exactly as they do when the command is named directly
        al["lrec"] = ["rec"]
        al["llrec"] = ["lrec"]
        al["srec"] = "rec"
        al["lreal"] = ["argv_dump"]

        def producer(args, stdin=None):
            return self.ctx.get("_producer_out", "")

        al["producer"] = producer

    def run(self, src, **kw):
        from vlib.session import read_argv_dump, settle

        self.R.clear()
        try:
            os.remove(self.dump)
        except OSError:
            pass
        self.ctx.update(kw)
        try:
            with harness.alarm(20):
                self.ex.exec(src, glbs=self.ctx, locs=self.ctx, mode="exec")
                settle(3)
        except harness.CaseTimeout:
            return "HANG"
        except SyntaxError as x:
            return "SyntaxError: " + str(x)[:60]
        except BaseException as x:  # noqa
            return "EXC " + type(x).__name__ + ": " + str(x)[:60]
        got = [list(e["argv"]) for e in self.R.snapshot()]
        got += [r["argv"][1:] for r in read_argv_dump(self.dump)]
        return got

    def judge(self, rec, form, path, src, got, exp, v, pos):
        rec.count("deliveries_judged")
        rec.count("form_" + form.split(":")[0])
        rec.count("path_" + path)
        meta = any(c in v for c in " \t\n'\"\\*?[]{}$~#;&|<>!@()=,:%`")
        rec.case(nontrivial=(v, form, pos, path) if meta else None)
        if got == [exp]:
            rec.count("ok")
            return True
        feats = "".join(sorted(set(c for c in v if c in "$~*?[]{}\\\n\t'\"!#` ;&|<>()@=")))
        if isinstance(got, str):
            outcome = got.split(":")[0].replace(" ", "-")
        elif len(got) != 1:
            outcome = f"launched-{len(got)}-commands"
        elif len(got[0]) != len(exp):
            outcome = "argument-count-differs"
        else:
            outcome = "argument-value-differs"
        mech = f"{form}/{path}/{outcome}/chars={feats!r}"
        named = self.named(form, path, outcome, v, got, exp)
        rec.violation(named or mech, {"src": src, "v": v, "form": form, "path": path, "pos": pos}, {"got": got if isinstance(got, str) else got[:3], "expected": [exp]})
        return False

    def named(self, form, path, outcome, v, got, exp):
        if (form.startswith("lit:") or form == "fstring") and any(c in v for c in "\u2028\u2029\x85\x0b\x0c\x1c\x1d\x1e"):
            return "LITERAL/unicode-line-boundary-character-breaks-or-alters-the-literal"
        if form == "fstring-triple" and "\\\n" in v:
            return "FSTRING/escaped-backslash-before-a-newline-in-a-triple-quoted-f-string"
        if form == "macro" and not isinstance(got, str) and len(got) == 1 and v.rstrip().endswith(";") and got[0] == [v.rstrip()[:-1].rstrip()]:
            return "MACRO/trailing-semicolon-is-dropped-from-the-raw-text"
        if form == "macro" and outcome == "SyntaxError" and v.rstrip().endswith(("&&", "||")):
            return "MACRO/text-ending-in-a-chain-operator-is-rejected"
        return None

    def run_case(self, case, rec):
        if not hasattr(self, "XSH"):
            self._setup()
        v, pos, path = case["v"], case["pos"], case["path"]
        pre, post = {"first": ("", " z"), "mid": ("a ", " z"), "last": ("a ", "")}[pos]
        wrap = lambda e: ([] if not pre else ["a"]) + e + ([] if not post else ["z"])
        cmd = {"threaded_alias": "rec", "unthreadable_alias": "urec", "real_child": "argv_dump", "real_child_after_pipe": "aok | argv_dump", "alias_in_captured_subproc": "rec",
               "list_alias_to_callable": "lrec", "alias_of_alias": "llrec", "string_alias_to_callable": "srec", "list_alias_to_real_child": "lreal"}[path]

        def line(body):
            s = f"{cmd} {pre}{body}{post}"
            if path == "alias_in_captured_subproc":
                return f"_cap = $({s})\n"
            return s + "\n"

        enc_ok = True
        try:
            v.encode("utf-8")
        except UnicodeEncodeError:
            enc_ok = False
        forms = case.get("forms")
        # ---- @() forms: verbatim, always
        if not forms or "@(v)" in forms:
            src = line("@(v)")
            self.judge(rec, "@(v)", path, src, self.run(src, v=v), wrap([v]), v, pos)
        if not forms or "@([v,w])" in forms:
            src = line("@([v, w])")
            self.judge(rec, "@([v,w])", path, src, self.run(src, v=v, w=v[::-1]), wrap([v, v[::-1]]), v, pos)
        if not forms or "@(generator)" in forms:
            src = line("@(x for x in [v, 'k', v])")
            self.judge(rec, "@(generator)", path, src, self.run(src, v=v), wrap([v, "k", v]), v, pos)
        if (not forms or "@(non-str)" in forms) and case.get("nonstr"):
            import pathlib

            obj, exp = {"int": (12, "12"), "float": (1.5, "1.5"), "path": (pathlib.PurePosixPath("/p q/*"), "/p q/*"), "none": (None, "None")}[case["nonstr"]]
            src = line("@(obj)")
            self.judge(rec, "@(non-str)", path, src, self.run(src, obj=obj), wrap([exp]), repr(obj), pos)
        if (not forms or "glued" in forms) and enc_ok and not any(c in v for c in "*?[]{}$~\\ \t\n'\"#;&|<>!@()`,=") and v:
            src = line("p@(v)q")
            self.judge(rec, "glued", path, src, self.run(src, v=v), wrap(["p" + v + "q"]), v, pos)
        if not enc_ok:
            return
        # ---- literals
        for kind, lit in lit_forms(v):
            if forms and "lit:" + kind not in forms:
                continue
            try:
                if ast.literal_eval(lit) != v:
                    continue
            except Exception:
                continue
            raw = kind.startswith("raw") or kind.startswith("triple-raw")
            if not raw and ("$" in v or "~" in v):
                continue
            src = line(lit)
            self.judge(rec, "lit:" + kind, path, src, self.run(src), wrap([v]), v, pos)
        if (not forms or "fstring" in forms) and not ("$" in v or "~" in v):
            src = line("f'{v}'")
            self.judge(rec, "fstring", path, src, self.run(src, v=v), wrap([v]), v, pos)
            if "'" not in v and "\\" not in v and "{" not in v and "}" not in v and "\n" not in v:
                src = line("f'" + v + "{w}'")
                self.judge(rec, "fstring", path, src, self.run(src, w="W"), wrap([v + "W"]), v, pos)
        if (not forms or "fstring-triple" in forms) and (forms or hash((v, pos)) % 3 == 0) and not ("$" in v or "~" in v) and not any(c in v for c in "\u2028\u2029\x85\x0b\x0c\x1c\x1d\x1e\r"):
            # triple-quoted f-strings: literal segments with real newlines, quote characters and backslash escapes around a field
            for q in ('"""', "'''"):
                esc = v.replace("\\", "\\\\").replace("{", "{{").replace("}", "}}").replace(q[0], "\\" + q[0]).replace("\t", "\\t")
                for lit in ("f" + q + esc + "{w}" + q, "f" + q + "{w}" + esc + q, "f" + q + "l1\n" + esc + "{w}\\t" + q):
                    try:
                        want = eval(lit, {"w": "W"})  # CPython defines the value of the literal
                    except Exception:
                        continue
                    src = line(lit)
                    self.judge(rec, "fstring-triple", path, src, self.run(src, w="W"), wrap([want]), v, pos)

    def run_special(self, rng, rec):
        """macro, @$() and documented-expansion classes (threaded alias + real child)."""
        # macro: text after `!` arrives as the literal source text (one argument, stripped)
        for _ in range(12):
            words = [rng.choice(["a", "$HOME", "*", "'q'", '"d"', "x  y", "@(1)", "$(ls)", "-x", "~", "|", ">", "&&", "a#h", "\\x", "{a,b}", "é", "and", ";", "||"]) for _ in range(rng.randint(1, 4))]
            text = " ".join(words)
            for cmdname, path in (("rec", "threaded_alias"), ("argv_dump", "real_child")):
                src = f"{cmdname}! {text}\n"
                self.judge(rec, "macro", path, src, self.run(src), [text.strip()], text, "only")
        # bare words: each white-space separated word is one argument, whatever ordinary characters it is made of
        for _ in range(30):
            ws = []
            for _w in range(rng.randint(1, 3)):
                w = rng.choice(["a", "b1", "x"]) + "".join(rng.choice(["a", "Z", "9", "-", ".", "/", ":", "+", "%", "\\", "\u20ac", "\U0001F600", "#", "\xe9", "\xdf", "_", "\u2713", "\xb0", "^"]) for _c in range(rng.randint(1, 5))) + rng.choice(["c", "7", "q"])
                ws.append(w)
            for cmdname, path in (("rec", "threaded_alias"), ("argv_dump", "real_child")):
                src = f"{cmdname} " + " ".join(ws) + "\n"
                self.judge(rec, "bare-words", path, src, self.run(src), ws, " ".join(ws), "only")
        # @$(): whitespace split of the producer's output, no further globbing / expansion
        for out in ["* $HOME ~ a\\ b\n", "f* x.py\n", "a  b\tc\nd\n", "$DEFINED_VAR ${HOME} ~/x\n", "'q' \"d\"\n", "{a,b} [f]1 ?1\n"]:
            exp = out.split()
            for cmdname, path in (("rec", "threaded_alias"), ("argv_dump", "real_child")):
                src = f"{cmdname} @$(producer) end\n"
                self.judge(rec, "@$()", path, src, self.run(src, _producer_out=out), exp + ["end"], out, "first")
        # documented expansion of non-raw literals and bare words
        home = self.XSH.env["HOME"]
        for lit, exp in [("'$DEFINED_VAR'", "dv al*"), ("\"$DEFINED_VAR/x\"", "dv al*/x"), ("'$NOPE_UNDEFINED'", "$NOPE_UNDEFINED"), ("'~/x'", os.path.join(home, "x")), ("'~'", home),
                         ("r'$DEFINED_VAR'", "$DEFINED_VAR"), ("r'~/x'", "~/x"), ("R'$DEFINED_VAR'", "$DEFINED_VAR"), ('R"~/x"', "~/x"), ("R'--p=~/x:~/y'", "--p=~/x:~/y"), ("$DEFINED_VAR", "dv al*"), ("~/x", os.path.join(home, "x")), ("$DEFINED_VAR/y", "dv al*/y")]:
            for cmdname, path in (("rec", "threaded_alias"), ("argv_dump", "real_child")):
                src = f"{cmdname} {lit}\n"
                self.judge(rec, "documented-expansion", path, src, self.run(src), [exp], lit, "only")

    def run_shard(self, sh, rec):
        self._setup()
        rng = random.Random(f"{sh['seed']}/C04/{sh['index']}")
        self.run_special(rng, rec)
        real = sh["real"]
        for i in harness.budgeted(range(sh["n"]), rec):
            v = rstr(rng)
            if "\0" in v:
                continue
            if rng.random() < 0.03:
                v = v + "\udcff"
            r = rng.random()
            if real > 0 and r < 0.25:
                path = rng.choice(["real_child", "real_child_after_pipe"])
                real -= 1
            elif r < 0.45:
                path = "threaded_alias"
            elif r < 0.58:
                path = rng.choice(["list_alias_to_callable", "alias_of_alias", "string_alias_to_callable", "list_alias_to_real_child"])
                if path == "list_alias_to_real_child":
                    if real <= 0:
                        path = "list_alias_to_callable"
                    real -= 1
            elif r < 0.80:
                path = "unthreadable_alias"
            else:
                path = "alias_in_captured_subproc"
            case = {"v": v, "pos": rng.choice(["first", "mid", "last"]), "path": path, "nonstr": rng.choice([None, None, "int", "float", "path", "none"])}
            if i < 2:
                rec.sample(case, "args")
            self.run_case(case, rec)


CHECK = C04()

if __name__ == "__main__":
    harness.main(CHECK)
