"""C01 - every valid Python program parses to CPython's tree (differential monitor).

Oracle: CPython's own ast.parse on the same text.  Workload: every statement of
the interpreter's stdlib / site-packages (cut out with get_source_segment),
CPython-validated surface perturbations of them, a random-AST generator
rendered with ast.unparse, and a directed list.  See DESIGN.md §C01.
"""

import ast
import os
import random
import re
import sys
import textwrap
import warnings

from vlib import harness
from vlib.astnorm import firstdiff, last_field, norm
from vlib.reduce import reduce_text, reduce_tree, shape

warnings.filterwarnings("ignore")

CASE_ALARM = 10.0


# --------------------------------------------------------------------------- corpus
def corpus_files():
    roots = [os.path.dirname(ast.__file__)]
    sp = os.path.join(sys.prefix, "lib", f"python{sys.version_info[0]}.{sys.version_info[1]}", "site-packages")
    if os.path.isdir(sp):
        roots.append(sp)
    out = []
    for root in roots:
        for dp, dn, fn in os.walk(root):
            dn[:] = sorted(d for d in dn if d != "__pycache__")
            for f in sorted(fn):
                if f.endswith(".py"):
                    out.append(os.path.join(dp, f))
    return out


def statements_of(path, maxlen=3000):
    try:
        with open(path, "rb") as f:
            raw = f.read()
        with warnings.catch_warnings():
            warnings.simplefilter("ignore")
            ast.parse(raw)  # CPython must accept the file as it is on disk (coding cookie included)
            src = raw.decode("utf-8")
            tree = ast.parse(src)
    except Exception:
        return None, []
    out = []
    for node in ast.walk(tree):
        if isinstance(node, ast.stmt):
            seg = ast.get_source_segment(src, node, padded=True)
            if seg and len(seg) < maxlen:
                out.append(textwrap.dedent(seg) + "\n")
    return src, out


# --------------------------------------------------------------------------- oracle
def cparse(s, mode):
    with warnings.catch_warnings():
        warnings.simplefilter("ignore")
        return ast.parse(s, mode=mode)


def compile_outcome(tree, mode):
    try:
        with warnings.catch_warnings():
            warnings.simplefilter("ignore")
            compile(tree, "<c01>", mode)
        return "ok"
    except SyntaxError as e:
        return "SyntaxError:" + str(e.msg)[:40]
    except Exception as e:  # TypeError/ValueError from a malformed tree
        return type(e).__name__


class Judge:
    def __init__(self):
        from xonsh.parser import Parser

        self.Parser = Parser
        self.p = Parser()

    def xparse(self, s, mode):
        return self.p.parse(s, mode=mode)

    def outcome(self, s, mode, ctree=None):
        """-> ('OK',None) | (class, detail).  s is CPython-valid in ``mode``."""
        if ctree is None:
            ctree = cparse(s, mode)
        e = norm(ctree)
        try:
            try:
                with harness.alarm(CASE_ALARM):
                    t = self.xparse(s, mode)
            except harness.CaseTimeout:
                # the wall-clock alarm is only a watchdog (a loaded machine can stall any process for seconds): the verdict
                # needs the same input to exceed a budget ten times as large on a fresh parser
                self.p = self.Parser()
                self.transient_timeouts = getattr(self, "transient_timeouts", 0) + 1
                with harness.alarm(10 * CASE_ALARM):
                    t = self.xparse(s, mode)
        except SyntaxError as x:
            return "REJECT", str(x)[:100]
        except harness.CaseTimeout:
            self.p = self.Parser()
            return "HANG", f"> {10 * CASE_ALARM}s"
        except RecursionError:
            return "RECURSION", None
        except Exception as x:
            self.p = self.Parser()
            return "CRASH", f"{type(x).__name__}: {str(x)[:100]}"
        if t is None:
            if isinstance(ctree, ast.Module) and not ctree.body:
                # a program without statements (blank lines / comments only): xonsh's parser hands back None, which
                # Execer treats as the empty program - the same meaning as CPython's Module(body=[])
                return "OK", None
            return "DIFF", ("", "xonsh returned None")
        d = firstdiff(e, norm(t))
        if d is not None:
            return "DIFF", d
        co = compile_outcome(t, mode)
        if co != "ok":
            ce = compile_outcome(ctree, mode)
            if ce != co and ce == "ok":
                return "COMPILE", co
        return "OK", None


# --------------------------------------------------------------------------- minimise + classify
def _fkey(cls, detail):
    """What must stay the same while a witness is being reduced."""
    if cls == "DIFF":
        path, desc = detail
        kind = desc.split(" ")[0]
        if kind in ("node", "type"):
            kind = desc
        return (cls, last_field(path), kind)
    if cls in ("CRASH", "COMPILE"):
        return (cls, str(detail).split(":")[0])
    return (cls,)


def surface_flags(text, n):
    flags = []
    core = text.strip()
    if re.search(r"[\w\)\]\}'\"](>>=?|>=?|<=?|<<=?)", core) or re.search(r"(>>|>|<|<<)[\w\(\[\{'\"-]", core):
        flags.append("tight-angle")
    if re.search(r"\\\n", text):
        flags.append("backslash-nl")
    if re.search(r"[^\x00-\x7f]", text):
        flags.append("non-ascii")
    if "\t" in text:
        flags.append("tab")
    if ";" in text:
        flags.append("semicolon")
    if "#" in text:
        flags.append("hash")
    if not text.endswith("\n"):
        flags.append("no-final-nl")
    if text.startswith("\n"):
        flags.append("leading-nl")
    strs = [x for x in ast.walk(n) if isinstance(x, (ast.JoinedStr,)) or (isinstance(x, ast.Constant) and isinstance(x.value, (str, bytes)))] if isinstance(n, ast.AST) else []
    if strs:
        for m in re.finditer(r"(?<![A-Za-z0-9_])([A-Za-z]{0,2})('''|\"\"\"|'|\")", core):
            flags.append("strprefix=" + "".join(sorted(m.group(1).lower())) + ("3" if len(m.group(2)) == 3 else ""))
            break
        if "\\N{" in core:
            flags.append("named-escape")
        if re.search(r"\\\n", core):
            flags.append("str-backslash-nl")
        for x in strs:
            if isinstance(x, ast.JoinedStr):
                for sub in ast.walk(x):
                    if isinstance(sub, ast.FormattedValue):
                        if sub.format_spec is not None and any(isinstance(y, ast.FormattedValue) for y in ast.walk(sub.format_spec)):
                            flags.append("nested-spec")
                if re.search(r"\{[^{}]*=\s*[}!:]", core):
                    flags.append("self-doc")
    return sorted(set(flags))


def witness_root(text, mode="exec"):
    t = cparse(text, mode)
    if isinstance(t, ast.Expression):
        return t.body
    body = t.body
    if len(body) == 1:
        n = body[0]
        return n.value if isinstance(n, ast.Expr) else n
    return t


def classify(judge, src, mode, cls, detail, budget=300):
    """-> (mechanism, reduced witness text).  Reduction preserves the failure key."""
    key = _fkey(cls, detail)
    small = src
    if cls not in ("HANG",) and mode == "exec":
        def still(c):
            try:
                ct = cparse(c, "exec")
            except Exception:
                return False
            if compile_outcome(ct, "exec") != "ok":
                return False
            o, d = judge.outcome(c, "exec", ct)
            return o == cls and _fkey(o, d) == key
        # the parser names a line: start from the innermost statement around it that still fails the same way
        m = re.search(r"line (\d+)\)", str(detail)) if cls == "REJECT" and len(src) > 1500 else None
        if m:
            try:
                ln = int(m.group(1))
                chain = [n for n in ast.walk(cparse(src, "exec")) if isinstance(n, ast.stmt) and n.lineno <= ln <= (n.end_lineno or n.lineno)]
                chain.sort(key=lambda n: (n.end_lineno - n.lineno, -n.col_offset))
                for n in chain[:8]:
                    cand = ast.get_source_segment(src, n, padded=True)
                    if cand:
                        import textwrap

                        cand = textwrap.dedent(cand) + "\n"
                        if len(cand) < len(small) and still(cand):
                            small = cand
                            break
            except Exception:
                pass
        src0, src = src, small
        small, used = reduce_tree(src, still, budget=budget)
        if small is None:
            # surface-dependent: ast.unparse's rendering of the same tree is fine
            small, _ = reduce_text(src, still, budget=budget)
            key = key + ("surface",)
    final_detail = detail
    if small != locals().get("src0", src):
        try:
            final_detail = judge.outcome(small, mode)[1]
        except Exception:
            pass
    try:
        root = witness_root(small, mode)
        sh = shape(root)
        fl = surface_flags(small, root)
    except Exception:
        sh, fl = "unparsed", []
    named = named_mechanism(cls, key, small, mode, final_detail)
    if named:
        return named, small
    mech = "/".join(str(k) for k in key) + "@" + sh
    if mode != "exec":
        mech += "[mode=" + mode + "]"
    if fl:
        mech += "[" + ",".join(fl) + "]"
    return mech, small


def _dotted_deco(n):
    if isinstance(n, ast.Call):
        n = n.func
    while isinstance(n, ast.Attribute):
        n = n.value
    return isinstance(n, ast.Name)


def named_mechanism(cls, key, small, mode, detail=None):
    """Curated, narrow predicates for defects already triaged (known_findings.json).

    Each looks at the *reduced* witness only: its outcome class, the location of the first
    difference, the node kinds left after reduction and (for surface-dependent failures) the
    spelling - never identifiers, literal values, seeds or hashes."""
    try:
        tree = cparse(small, mode)
        root = witness_root(small, mode)
    except Exception:
        return None
    nodes = list(ast.walk(tree))
    kinds = {type(n).__name__ for n in nodes}
    text = small.strip()
    surface = key[-1] == "surface"
    k1 = key[1] if len(key) > 1 else ""
    k2 = key[2] if len(key) > 2 else ""
    if cls == "DIFF" and k1 == "AnnAssign.simple" and isinstance(root, ast.AnnAssign) and (not isinstance(root.target, ast.Name) or text.startswith("(")):
        return "DIFF/AnnAssign.simple/non-name-or-parenthesised-target"
    if cls == "REJECT" and isinstance(root, ast.Subscript) and isinstance(root.slice, ast.Tuple) and any(isinstance(e, ast.Starred) for e in root.slice.elts) and kinds <= {"Module", "Expr", "Subscript", "Tuple", "Starred", "Name", "Constant", "Load"}:
        return "REJECT/Subscript/starred-index"
    if cls == "REJECT" and isinstance(root, ast.Set) and any(isinstance(e, ast.Starred) for e in root.elts) and kinds <= {"Module", "Expr", "Set", "Starred", "Name", "Constant", "Load"}:
        return "REJECT/Set/starred-element"
    if cls == "DIFF" and k1 == "Set.elts" and isinstance(root, ast.Set) and isinstance(root.elts[0], (ast.Set, ast.Dict, ast.SetComp, ast.DictComp)):
        return "DIFF/Set.elts/first-element-is-brace-display"
    if cls == "DIFF" and k1 == "MatchSequence.patterns" and isinstance(root, ast.Match) and (k2 == "len" or k2.startswith("node MatchSequence/")):
        if any(isinstance(n, ast.MatchSequence) and any(isinstance(c, ast.MatchSequence) for c in n.patterns) for n in nodes):
            return "DIFF/MatchSequence.patterns/nested-sequence-pattern"
    if surface and re.search(r"\b(and|or)[^\s\w]", text) and any(isinstance(n, ast.BoolOp) for n in nodes):
        # `x or[]`, `x and(y)`, `x or-1`, `x or'a'`: the keyword is glued to the token that follows it
        if cls == "REJECT" and kinds <= {"Module", "Expr", "BoolOp", "And", "Or", "UnaryOp", "USub", "UAdd", "Invert", "Not", "Name", "Constant", "List", "Tuple", "Dict", "Set", "Load", "Assign", "Store", "JoinedStr"}:
            return "REJECT/surface/and-or-keyword-glued-to-the-next-token"
        if cls == "DIFF" and k1 == "Module.body" and isinstance(root, ast.TypeAlias):
            return "DIFF/surface/and-or-keyword-glued-to-the-next-token/type-statement-split-in-two"
    if cls == "REJECT" and surface and str(detail).startswith("code: :=") and kinds <= {"Module", "Expr", "Subscript", "NamedExpr", "Tuple", "Name", "Constant", "Load", "Store"} and any(isinstance(n, ast.Subscript) and (isinstance(n.slice, ast.NamedExpr) or (isinstance(n.slice, ast.Tuple) and any(isinstance(e, ast.NamedExpr) for e in n.slice.elts))) for n in nodes):
        return "REJECT/NamedExpr/unparenthesised-walrus-in-subscript"
    if cls == "REJECT" and surface and str(detail).startswith("code: :=") and isinstance(root, ast.Match) and any(isinstance(x, ast.NamedExpr) for x in ast.walk(root.subject)) and re.match(r"match\s+[^(\n]*:=", text):
        return "REJECT/NamedExpr/unparenthesised-walrus-in-match-subject"
    if cls == "REJECT" and surface and isinstance(root, ast.JoinedStr) and re.search(r"(?i)\b(rf|fr)('|\")", text) and re.search(r"\\['\"]", text):
        return "REJECT/JoinedStr/raw-f-string-containing-a-backslash-quote"
    # ---- mechanisms first seen on the wider corpus of the thorough tier
    if "JoinedStr" in kinds:
        fsegs = [ast.get_source_segment(small, n) or "" for n in nodes if isinstance(n, ast.JoinedStr)]
        dpath = str(detail[0]) if isinstance(detail, (list, tuple)) and detail else ""
        if any("\\N{" in g for g in fsegs) and (cls == "REJECT" or (cls == "DIFF" and k1 == "JoinedStr.values")):
            return cls + "/JoinedStr/named-unicode-escape-in-an-f-string"
        if cls == "DIFF" and k1 == "JoinedStr.values" and "format_spec" in dpath and any("\\" in g for g in fsegs):
            return "DIFF/JoinedStr/backslash-escape-inside-a-format-spec-not-decoded"
        if cls == "DIFF" and k1 == "JoinedStr.values" and "format_spec" not in dpath and "\f" in small and any(re.search(r"\{[^{}]*[^=!<>{}]=\s*(![rsa])?(:[^{}]*)?\}", g) for g in fsegs):
            return "DIFF/JoinedStr/self-documenting-field-on-a-line-starting-with-a-form-feed-loses-its-label"
        if cls == "REJECT" and str(detail).startswith("code: :") and any(isinstance(n, ast.FormattedValue) and n.format_spec is not None and any(isinstance(m, ast.FormattedValue) and m.format_spec is not None and not m.format_spec.values for m in ast.walk(n.format_spec)) for n in nodes):
            return "REJECT/JoinedStr/empty-format-spec-inside-a-nested-format-spec"
        if cls == "REJECT" and str(detail).startswith("code: yield") and any(isinstance(n, ast.FormattedValue) and any(isinstance(m, (ast.Yield, ast.YieldFrom)) for m in ast.walk(n.value)) for n in nodes):
            return "REJECT/JoinedStr/yield-inside-a-replacement-field"
    if cls == "REJECT" and re.match(r"code: (or|and|if)\b", str(detail)) and any(isinstance(n, ast.Call) and any(isinstance(a, ast.Starred) and isinstance(a.value, (ast.BoolOp, ast.IfExp)) for a in n.args) for n in nodes):
        return "REJECT/Call/starred-argument-with-unparenthesised-boolean-or-conditional-expression"
    if cls == "REJECT" and str(detail).startswith("code: *") and any(isinstance(n, (ast.For, ast.AsyncFor)) and isinstance(n.iter, ast.Tuple) and any(isinstance(e, ast.Starred) for e in n.iter.elts) for n in nodes):
        return "REJECT/For/starred-element-in-unparenthesised-iterable-tuple"
    if cls == "REJECT" and "can't delete ()" in str(detail) and any(isinstance(n, ast.Delete) and any(isinstance(t, (ast.Tuple, ast.List)) and not t.elts for t in n.targets) for n in nodes):
        return "REJECT/Delete/empty-tuple-or-list-target"
    if cls == "REJECT" and surface and str(detail).startswith("code: ") and re.search(r"(?<![\w.])(e|err|o|out|a|all|\d)>(p|e|o|err|out|\d)[\w.]", text) and any(isinstance(n, ast.Compare) for n in nodes):
        return "REJECT/surface/redirect-like-comparison-followed-by-more-name-characters"
    if cls == "DIFF" and k1 == "With.items" and re.search(r"\bwith\s*\(", text):
        return "DIFF/With.items/parenthesised-items"
    if cls == "REJECT" and "JoinedStr" in kinds:
        segs =[ast.get_source_segment(small, n) or "" for n in nodes if isinstance(n, ast.JoinedStr) and n.lineno != n.end_lineno]
        segs = [g for g in segs if not re.match(r"(?i)[rfbu]*('''|\"\"\")", g)]
        if segs and "EOL while scanning f-string" in str(detail) and any("\\\n" in g for g in segs):
            return "REJECT/JoinedStr/backslash-newline-inside-the-text-of-a-single-quoted-f-string"
        if segs and all("\\\n" not in g for g in segs):
            return "REJECT/JoinedStr/newline-inside-a-replacement-field-of-a-single-quoted-f-string"
    if cls == "REJECT" and any(ord(c) > 127 for c in text) and kinds <= {"Module", "Expr", "Name", "Load", "Store", "Assign", "Constant", "Attribute"}:
        names = [n.id for n in nodes if isinstance(n, ast.Name)] + [n.attr for n in nodes if isinstance(n, ast.Attribute)]
        if any(not re.fullmatch(r"\w+", nm) for nm in names):
            # legal by CPython's XID_Start/XID_Continue rule, outside the tokenizer's \w+ name pattern (combining marks, Other_ID_Start)
            return "REJECT/Name/identifier-character-outside-the-tokenizer-name-pattern"
    if cls == "DIFF" and k1 == "Name.id" and surface and any(ord(c) > 127 for c in small):
        import unicodedata

        if unicodedata.normalize("NFKC", small) != small:
            return "DIFF/Name.id/identifier-not-NFKC-normalised"
    if cls == "REJECT" and surface and isinstance(root, (ast.Compare, ast.AugAssign, ast.BinOp)) and re.search(r"[\w\)\]\}'\"](>=|>>=)", text):
        return "REJECT/surface/redirect-like-operator-glued-to-left-operand"
    if cls == "DIFF" and k2.startswith("node List/ListComp") and any(isinstance(n, ast.List) and len(n.elts) == 1 and isinstance(n.elts[0], ast.GeneratorExp) for n in nodes):
        return "DIFF/List.elts/parenthesised-generator-as-the-only-element-becomes-a-ListComp"
    if cls == "DIFF" and k1 == "Subscript.slice" and k2.startswith("node Tuple/") and isinstance(root, ast.Subscript) and isinstance(root.slice, ast.Tuple) and len(root.slice.elts) == 1:
        return "DIFF/Subscript.slice/one-element-tuple-index"
    if cls == "DIFF" and k1 in ("For.target", "AsyncFor.target", "comprehension.target") and k2.startswith("node Tuple/"):
        tg = [n.target for n in nodes if isinstance(n, (ast.For, ast.AsyncFor, ast.comprehension))]
        if any(isinstance(t, ast.Tuple) and len(t.elts) == 1 for t in tg):
            return "DIFF/loop-target/one-element-tuple-target"
    if cls == "COMPILE" and k1 == "ValueError" and any(isinstance(n, ast.TypeVar) and n.bound is not None for n in nodes):
        return "COMPILE/TypeVar/bound-gives-invalid-end-position"
    withs = [n for n in nodes if isinstance(n, (ast.With, ast.AsyncWith))]
    if surface and len(withs) == 1 and re.search(r"\bwith\s*\(", text) and (cls == "REJECT" or (cls == "DIFF" and k1 == "With.items")) and kinds <= {"Module", "With", "AsyncWith", "AsyncFunctionDef", "FunctionDef", "arguments", "withitem", "Name", "Constant", "Pass", "Load", "Store", "Expr"}:
        return cls + "/With.items/parenthesised-items"
    if cls == "REJECT" and re.match(r"match\b\s*[^\s\w:]", text) and not isinstance(root, ast.Match):
        return "REJECT/soft-keyword/match-as-leading-name"
    if cls == "REJECT" and any(isinstance(n, ast.FormattedValue) and n.format_spec is not None and any(isinstance(m, ast.FormattedValue) and m.conversion != -1 for m in ast.walk(n.format_spec)) for n in nodes) and isinstance(root, ast.JoinedStr):
        return "REJECT/JoinedStr/conversion-inside-nested-format-spec"
    if cls == "DIFF" and k1 == "<root>" and k2 == "node Module/Expression" and isinstance(root, ast.Tuple) and not text.startswith("("):
        return "DIFF/root/bare-tuple-statement-parsed-as-Expression"
    if cls == "DIFF" and k1 == "arguments.defaults" and k2 == "len":
        ar = [n for n in nodes if isinstance(n, ast.arguments)]
        if any(a.posonlyargs and len(a.defaults) > len(a.args) for a in ar):
            return "DIFF/arguments.defaults/positional-only-default-dropped"
    if cls == "REJECT" and surface and isinstance(root, ast.Assign) and isinstance(root.value, ast.Tuple) and any(isinstance(e, ast.Starred) for e in root.value.elts) and "(" not in text:
        return "REJECT/Assign/unparenthesised-starred-tuple-value"
    if cls == "REJECT" and surface and re.search(r"\b(and|or|not|in|is|if|else)[-+~]", text) and isinstance(root, (ast.BoolOp, ast.UnaryOp, ast.Compare, ast.IfExp)):
        return "REJECT/surface/unary-operator-glued-to-keyword"
    if cls == "REJECT" and isinstance(root, (ast.FunctionDef, ast.AsyncFunctionDef, ast.Lambda)) and (isinstance(root, ast.Lambda) or not root.decorator_list or str(detail).startswith("code: :")):
        a = root.args
        if (a.kwarg is not None and a.kwarg.annotation is not None) or (a.vararg is not None and a.vararg.annotation is not None):
            if a.vararg is not None or a.kwarg is not None:
                return "REJECT/arguments/annotated-star-arg-after-star-arg"
    decorated = [n for n in nodes if isinstance(n, (ast.FunctionDef, ast.AsyncFunctionDef, ast.ClassDef)) and n.decorator_list]
    if cls in ("REJECT", "DIFF") and decorated and (k1 == "Module.body" if cls == "DIFF" else (len(decorated) == 1 or str(detail).startswith("code: @"))):
        if any(not _dotted_deco(d) for n in decorated for d in n.decorator_list) or re.search(r"^\s*@\s*\(", small, re.M):
            return cls + "/decorator/relaxed-decorator-expression"
    if cls == "REJECT" and any(isinstance(n, ast.TypeAlias) for n in nodes) and not isinstance(root, ast.TypeAlias) and not any(isinstance(n, ast.TypeVar) and n.bound is not None for n in nodes):
        inner = [n for n in nodes if isinstance(n, (ast.stmt,)) and not isinstance(n, (ast.TypeAlias, ast.Pass, ast.Expr))]
        if len(inner) == 1:
            return "REJECT/TypeAlias/type-statement-inside-a-block"
    if cls == "REJECT" and isinstance(root, ast.Assign) and any(isinstance(t, (ast.Tuple, ast.List)) and not t.elts for t in root.targets):
        return "REJECT/Assign/empty-tuple-or-list-target"
    if cls == "REJECT" and isinstance(root, ast.Assign) and len(root.targets) > 1 and any(isinstance(x, ast.Starred) for t in root.targets for x in ast.walk(t)):
        return "REJECT/Assign/starred-target-in-chained-assignment"
    return None


# --------------------------------------------------------------------------- perturbations
_TIGHT = re.compile(r" ?(>=|<=|==|!=|>>=|<<=|>>|<<|->|:=|\*\*|//|>|<|\+|-|\*|/|%|&|\||\^|=|,|:) ?")
_INDENT = re.compile(r"^((?:    )+)", re.M)


def perturbations(s, rng):
    """Yield (name, text); the caller keeps a text only if CPython maps it to the same tree."""
    yield "tight-all", _TIGHT.sub(lambda m: m.group(1), s)
    ms = list(_TIGHT.finditer(s))
    if ms:
        m = rng.choice(ms)
        yield "tight-one", s[: m.start()] + m.group(1) + s[m.end():]
        m = rng.choice(ms)
        yield "wide-one", s[: m.start()] + "  " + m.group(1) + "  " + s[m.end():]
    if "\n    " in s:
        yield "indent-tab", _INDENT.sub(lambda m: "\t" * (len(m.group(1)) // 4), s)
        yield "indent-2", _INDENT.sub(lambda m: "  " * (len(m.group(1)) // 4), s)
        yield "indent-8", _INDENT.sub(lambda m: "        " * (len(m.group(1)) // 4), s)
        yield "indent-1", _INDENT.sub(lambda m: " " * (len(m.group(1)) // 4), s)
    sp = [m.start() for m in re.finditer(r"(?<=\S) (?=\S)", s)]
    if sp:
        i = rng.choice(sp)
        yield "backslash-nl", s[:i] + " \\\n  " + s[i + 1:]
        # the continued text starts in column 0 (an operator or keyword as the first character of a physical line)
        i = rng.choice(sp)
        yield "backslash-nl-col0", s[:i] + " \\\n" + s[i + 1:]
        kw = [j for j in sp if s[j + 1:].startswith(("and ", "or ", "not ", "in ", "is ", "if ", "else ", "for ", "lambda", "await ", "+", "-", "*", "/", "<", ">", "=", "|", "&", "^", "%", "@", ".", ","))]
        if kw:
            i = rng.choice(kw)
            yield "backslash-nl-col0-operator-first", s[:i] + " \\\n" + s[i + 1:]
        inside = [j for j in sp if sum(s.count(c, 0, j) for c in "([{") > sum(s.count(c, 0, j) for c in ")]}")]
        if inside:
            i = rng.choice(inside)
            yield "bracket-nl-col0", s[:i] + "\n" + s[i + 1:]
            kwi = [j for j in inside if j in kw]
            if kwi:
                i = rng.choice(kwi)
                yield "bracket-nl-col0-operator-first", s[:i] + "\n" + s[i + 1:]
    lines = s.split("\n")
    if len(lines) > 1:
        i = rng.randrange(len(lines) - 1)
        if lines[i].strip() and not lines[i].rstrip().endswith("\\"):
            l2 = list(lines)
            l2[i] = l2[i] + "  # c01 " + rng.choice(["x", "'q\"", "#", "\\", "$(a)", "![b]"])
            yield "comment", "\n".join(l2)
        l3 = list(lines)
        l3.insert(i + 1, rng.choice(["", "   ", "\t", "# only a comment", "        # indented comment"]))
        yield "blank-line", "\n".join(l3)
    # a form feed in the leading white space of a code line resets the indentation column (CPython's tokenizer): page breaks
    # before a def / between methods, or in front of an indented line
    code_lines = [j for j, l in enumerate(lines) if l.strip() and not l.lstrip().startswith("#")]
    if code_lines:
        j = rng.choice(code_lines)
        l4 = list(lines)
        l4[j] = "\f" + l4[j]
        yield "formfeed-indent", "\n".join(l4)
    # redundant parentheses around one sub-expression
    try:
        tree = cparse(s, "exec")
        exprs = [n for n in ast.walk(tree) if isinstance(n, ast.expr) and not isinstance(n, (ast.Starred, ast.Slice)) and n.lineno == n.end_lineno]
        if exprs:
            n = rng.choice(exprs)
            ls = s.split("\n")
            line = ls[n.lineno - 1]
            b = line.encode("utf-8")
            line2 = (b[: n.col_offset] + b"(" + b[n.col_offset: n.end_col_offset] + b")" + b[n.end_col_offset:]).decode("utf-8")
            ls[n.lineno - 1] = line2
            yield "parens", "\n".join(ls)
        # trailing comma inside a call / collection display
        seqs = [n for n in ast.walk(tree) if isinstance(n, (ast.Call, ast.List, ast.Dict, ast.Set, ast.Subscript)) and n.lineno == n.end_lineno]
        if seqs:
            n = rng.choice(seqs)
            ls = s.split("\n")
            b = ls[n.lineno - 1].encode("utf-8")
            e = n.end_col_offset - 1
            ls[n.lineno - 1] = (b[:e] + b"," + b[e:]).decode("utf-8")
            yield "trailing-comma", "\n".join(ls)
    except Exception:
        pass
    if "\n" not in s.rstrip("\n"):
        yield "semicolon", s.rstrip("\n") + "; pass\n"
        yield "semicolon-end", s.rstrip("\n") + ";\n"
        yield "no-final-nl", s.rstrip("\n")
        yield "lead-blank-lines", "\n\n" + s
        yield "in-suite", "if x:\n\t" + s
        yield "in-def-oneline", "def f(): " + s if not s.lstrip().startswith(("def ", "class ", "@", "if ", "for ", "while ", "with ", "try", "async ", "match ")) else s


# --------------------------------------------------------------------------- directed inputs
_PREF = ["", "r", "R", "b", "B", "br", "Rb", "bR", "rb", "u", "U", "f", "F", "fr", "rf", "Rf", "fR"]
_QUOT = ["'", '"', "'''", '"""']


def directed_cases():
    out = [
        # the six examples quoted in the property text
        "self.x: int = 1\n", "(x): int = 1\n", "x: int = 1\n", "x: int\n", "a.b: int\n", "a[0]: int = 2\n",
        "for i, in xs:\n    pass\n", "for i, j in xs: pass\n", "for (i,) in xs: pass\n", "for [i] in xs: pass\n",
        "1>=1\n", "a>=1\n", "a>b\n", "2>1\n", "a<b\n", "a>>b\n", "a>>=b\n", "e>o\n", "x = a>b\n", "f(a>=b)\n", "o>e\n", "a<=b\n", "err>out\n", "1>2>3\n",
        "{a, *b}\n", "{*a}\n", "{*a, *b}\n", "[a, *b]\n", "(a, *b)\n", "{**a, 'k': 1}\n",
        # witnesses of findings first seen by the thorough tier
        "(x or[])\n", "x and(y)\n", "x or-1\n", "type x=x and-x\n", "(x[x:=0])\n", "x[(y:=0)]\n", "match x := x,:\n    case y as v,:\n        pass\n",
        "x = f'a \\\nb'\n", "(f'{x\n- x}')\n", "(f'\\N{AMPERSAND}')\n", "(f'\\N{GREEK CAPITAL LETTER DELTA}')\n", "f'{x:\\n}'\n", "\fx = f\"Passed {x=}\"\n", "def fn(y):\n    f'{yield}'\n", "x(*x or x)\n", "x(*x if x else x, default=x)\n", "for x in x, *x:\n    x\n", "del ()\n", "(x is not e>print.ls)\n", "a>pp\n", "2>1.5\n", "f'{x:{x:}}'\n", "@d\ndef f(self: A, *args: A, **kw: A) -> A:\n    pass\n", "(rf'a\\'b')\n", "\u05e2\u05b4\u05d1 = 1\n", "y = [(x for o in x)]\n", "match x:\n    case x([[{}]]):\n        0\n",
        "def f(a, *args: T, **kw: T): pass\n", "def f(*args: T): pass\n", "def f(**kw: T): pass\n", "def f(*, a: T = 1): pass\n",
        "def f(a, /, b, *, c): pass\n", "def f(a=1, /, b=2, *c, d, e=3, **f) -> int: pass\n", "lambda a, /, b=1, *c, d, **e: 0\n",
        "with (a as b, c as d): pass\n", "with (a as b): pass\n", "with (a, b): pass\n", "with (a, b) as c: pass\n", "with a as b, c as d: pass\n",
        "with (\n  a as b,\n  c as d,\n): pass\n", "async def f():\n    async with (a as b, c as d): pass\n",
        "print >> f, x\n", "x[1,]\n", "x[1:2, ::3]\n", "x[a:b:c]\n", "x[*a]\n", "x[*a, b]\n", "x[()]\n",
        "from . import a\n", "from .. import a\n", "from .a import b\n", "from ...a.b import (c as d, e)\n", "from .... import x\n", "import a.b.c as d, e\n",
        "a = b = c\n", "a, b = b, a\n", "a, *b = c\n", "*a, = c\n", "[a, b] = c\n", "(a, b), c = d\n", "a.b, c[d] = e\n",
        "del a, b[0], c.d\n", "del (a, b)\n", "del [a, b]\n",
        "x = yield\n", "def f():\n    x = yield y\n    yield from z\n    await w\n",
        "a if b else c\n", "lambda: (yield)\n", "(x := 1)\n", "[y := f(x), y**2]\n", "f(x := 1)\n", "{(k := 1): 2}\n",
        "[x for x in y if z if w for a in b]\n", "{x: y for x, y in z}\n", "{x async for x in y}\n", "(x for x, in y)\n",
        "not a\n", "not not a\n", "a and b or c and not d\n", "a if b else c if d else e\n", "-x ** -y\n", "~x\n", "+x\n", "a @ b\n", "a @= b\n", "a //= b\n", "a **= b\n", "a >>= b\n", "a <<= b\n", "a ^= b\n", "a |= b\n", "a &= b\n", "a %= b\n",
        "a < b <= c == d != e > f >= g is h is not i in j not in k\n",
        "a is not b\n", "a not in b\n", "x = *a, b\n", "return\n" if False else "def f(): return *a, b\n",
        "try:\n    pass\nexcept* E as e:\n    pass\n", "try:\n    a\nexcept* E:\n    b\nelse:\n    c\n", "try:\n    a\nexcept* E:\n    b\nelse:\n    c\nfinally:\n    d\n", "x = (a\nand b)\n", "y = [a\nor b, c\nif d else e]\n", "z = a \\\nor b\n", "try:\n    pass\nexcept (A, B) as e:\n    pass\nelse:\n    pass\nfinally:\n    pass\n", "try:\n    pass\nexcept:\n    pass\n",
        "match x:\n    case 1 | 2: pass\n    case [a, *b]: pass\n    case {'k': v, **r}: pass\n    case C(a, b=c): pass\n    case (1, 2) as t if t: pass\n    case None: pass\n    case -1: pass\n    case 1+2j: pass\n    case a.b: pass\n    case _: pass\n",
        "match = 1\n", "case = 2\n", "type = 3\n", "match(x)\n", "match[x]\n", "print(match, case)\n", "type X = int\n", "type X[T] = list[T]\n", "type X[T: int, *Ts, **P] = T\n",
        "def f[T](x: T) -> T: pass\n", "class C[T](B): pass\n", "class C[T: (int, str)]: pass\n", "def f[*Ts, **P](): pass\n",
        "@a\n@b.c(d)\ndef f(): pass\n", "@a\nclass C(B, metaclass=M, **kw): pass\n", "@(yield)\ndef f(): pass\n" if False else "@x[0].y\ndef f(): pass\n",
        "async def f():\n    async for x in y: pass\n    else: pass\n    await z\n    return [x async for x in y]\n",
        "global a, b\n", "def f():\n    nonlocal_ = 1\n    def g():\n        nonlocal nonlocal_\n",
        "assert a, b\n", "assert a\n", "raise\n", "raise A\n", "raise A from B\n", "pass; pass\n", "x = 1; y = 2;\n",
        "while a:\n    break\nelse:\n    continue_ = 1\n", "for a in b:\n    continue\nelse:\n    pass\n",
        "if a:\n    pass\nelif b:\n    pass\nelif c:\n    pass\nelse:\n    pass\n",
        "f(a, *b, c, *d, e=1, **f, g=2, **h)\n", "f(a for a in b)\n", "f(*a)(**b)\n", "f(a)(b)[c].d\n", "class C: x: int = 1; y = 2\n",
        "0\n", "0x1F\n", "0o17\n", "0b101\n", "1_000\n", "1e10\n", "1.5e-3j\n", ".5\n", "5.\n", "1j\n", "0_0\n", "0xdead_beef\n", "1E5\n", "1_0.0_1e+1_0\n",
        "...\n", "x[...]\n", "None\n", "True\n", "False\n", "__debug__\n",
        "'a' 'b'\n", "'a' \"b\" '''c'''\n", "'a' f'{b}' 'c'\n", "b'a' b'b'\n", "('a'\n 'b')\n", "x = ('a'\n     f'{b}'\n     r'\\c')\n",
        "f'{a}'\n", "f'{a!r}'\n", "f'{a!s:>10}'\n", "f'{a:{b}}'\n", "f'{a:{b}.{c}}'\n", "f'{a=}'\n", "f'{a = }'\n", "f'{a=!r:^10}'\n", "f'{{}}'\n", "f'{{{a}}}'\n", "f'{a}{b}'\n",
        "f'{a[\"k\"]}'\n", "f\"{a['k']}\"\n", "f'{a:%Y-%m-%d}'\n", "f'{a:{b!r}}'\n", "f'{1 + 1 =  :>5}'\n", "f'{f\"{x}\"}'\n", "f'{x!a}'\n", "f'''{\na\n}'''\n", "f'{lambda_}'\n", "f'{(lambda: 1)()}'\n",
        "f'{x:{y:{z}}}'\n" if False else "f'{x:{y}}'\n", "f'\\N{DASH}{x}'\n", "'\\N{DASH}'\n", "f'{x}\\n'\n", "rf'{x}\\n'\n", "f'{x:\\n}'\n" if False else "f'{x:>{w}}'\n", "f'{a if b else c}'\n", "f'{a,}'\n", "f'{*a,}'\n", "f'{a:=5}'\n", "f'{(a:=5)}'\n", "f'{a!r}' 'b' f'{c}'\n",
        "f'{yield_}'\n", "def g():\n    return f'{(yield)}'\n", "async def g():\n    return f'{await x}'\n",
        "x = '''a\nb'''\n", "x = '''a\\\nb'''\n", "x = 'a\\\nb'\n", "x = \"\"\"a 'b' \"c\" d\"\"\"\n", "'\\x00\\u1234\\U0001F600\\101\\n\\t\\\\'\n", "b'\\x00\\xff\\101'\n", "r'\\'\n" if False else "r'\\d'\n", "'\\\\'\n", "'it''s'\n", "'''it's'''\n",
        "x = 1 if y else 2 \\\n    if z else 3\n", "x = (1,\n     2,\n     )\n", "x = [\n  1,\n\n  2,  # c\n]\n", "if (a and\n    b):\n    pass\n", "def f(\n    a,\n    b=1,\n):\n    pass\n",
        "x = {\n    'a': 1,\n    **b,\n}\n", "f(\n    *a,\n    **b,\n)\n", "x = a \\\n    + b\n", "x = a if b \\\n  else c\n", "assert x, \\\n  'm'\n",
        "if a: b\n", "if a: b; c\n", "while a: b\n", "for a in b: c\n", "class A: pass\n", "def f(): pass\n", "with a: b\n", "try: a\nfinally: b\n", "if a: pass\nelse: pass\n",
        "if a:\n\tb\n\tif c:\n\t\td\n", "if a:\n  b\n  if c:\n      d\n  e\n", "if a:\n        b\n", "class A:\n\n    x = 1\n\n    # c\n\n    y = 2\n",
        "\n\nx = 1\n", "x = 1\n\n\n", "# c\nx = 1\n", "x = 1  # c\n", "x = 1 # c\n# d\n", "#!/usr/bin/env python\n# -*- coding: utf-8 -*-\nx = 1\n",
        "x = 1;\n", "x = \\\n1\n", "\\\nx = 1\n" if False else "x = 1\n", "x = (yield)\n" if False else "def f():\n    x = (yield)\n",
        "a = lambda: 1\n", "a = lambda *a, **k: (a, k)\n", "lambda x=lambda y: y: x\n", "lambda: lambda: 0\n", "sorted(x, key=lambda i: -i)\n", "lambda a,b: a<=b\n", "lambda a, b: a <= b\n", "f(lambda: 0, 1)\n", "{lambda: 0: 1}\n" if False else "x = {1: lambda: 0}\n",
        "a[b:c]\n", "a[:]\n", "a[::]\n", "a[b:]\n", "a[:c]\n", "a[::d]\n", "a[b, c:d]\n", "a[b][c]\n", "a[-1]\n", "a[b:c, d:e] = f\n", "a[b] += 1\n", "a.b.c = d\n", "a().b\n", "(a).b\n", "1 .real\n", "1..real\n", "1.0.real\n",
        "x: (yield)\n" if False else "x: 'T'\n", "x: int = (yield)\n" if False else "x: list[int] = []\n", "class C:\n    a: int\n    b: str = ''\n    (c): int\n    d.e: int\n",
        "𝒳 = 1\n", "ǅ = 1\n", "x = 'é'\n", "é = 1\n", "名前 = '値'\n", "ﬁ = 1\n", "x = 'a\\u200bb'\n",
        "a = 1 if True else 2; b = 3\n", "x = [i for i in range(3) if i if i]\n", "x = i_ = 1\n", "exec_ = print_ = 1\n", "print(1, file=f)\n", "print >>f\n", "exec('x')\n",
        "@$x\ndef f(): pass\n" if False else "x = not y\n", "in_ = is_ = 1\n", "a = b if c else d\n", "nonlocal_ = 1\n", "a = 1 if b else 2 if c else 3\n",
        "async def f():\n    await a\n    x = await b + await c\n    async with a as b, c: pass\n    [await x for x in y]\n    return await z\n",
        "await_ = async_ = 1\n", "def await_(): pass\n", "x = a.async_\n", "def f(): return\n", "def f():\n    return 1, 2\n", "def f():\n    return (yield 1)\n",
        "x = a or b and c\n", "x = (a or b) and c\n", "x = a | b ^ c & d << e + f * g ** h\n", "x = a ** -b ** c\n", "x = not a == b\n", "x = a < b == c\n", "x = - - a\n", "x = a - -b\n", "x = a--b\n", "x = a+-b\n", "x = a*-b\n", "x = a**-b\n", "x = a//b/c%d\n", "x=a-b\n", "x = a -b\n", "x = a- b\n", "ls -l\n", "a -b -c\n", "a --b\n", "a | b\n", "a and b\n", "a or b\n", "a < b > c\n", "a >> b\n", "a.b -c\n", "a; b\n", "a ,b\n", "a = b,\n",
    ]
    for p in _PREF:
        for q in _QUOT:
            body = "a{x}b" if "f" in p.lower() else "a\\\\b" if "r" not in p.lower() else "a\\b"
            if "b" in p.lower():
                body = "a\\\\b" if "r" not in p.lower() else "a\\b"
            out.append(f"x = {p}{q}{body}{q}\n")
            out.append(f"{p}{q}{q}\n")
            if len(q) == 3:
                out.append(f"x = {p}{q}l1\nl2 {q[0]} {q[0] * 2}x\n{q}\n")
    return sorted(set(out))


# --------------------------------------------------------------------------- generator (random ASTs)
# Constructs behind defects already listed in known_findings.json are not generated at random (each
# keeps its directed witness in directed_cases()); otherwise nearly every random program trips over
# one of them and reduction "slips" into the commonest defect.  Remove a flag when its defect is fixed.
AVOID = {
    "starred-index", "set-star", "set-first-brace", "annassign-nonname", "posonly-default", "star-arg-annotation",
    "typevar-bound", "nested-type-alias", "relaxed-decorator", "one-tuple-target", "chained-star-assign", "match-name",
}


class Gen:
    """Seeded bottom-up random ASTs over the 3.12 ASDL, rendered by ast.unparse."""

    NAMES = ["a", "b", "c", "x", "y", "f", "g", "self", "cls", "case", "type", "_", "e", "o", "err", "out", "ls", "echo", "print", "id"]

    def __init__(self, rng):
        self.r = rng

    def name(self):
        return self.r.choice(self.NAMES)

    def const(self):
        r = self.r
        return ast.Constant(r.choice([0, 1, 2, 10**20, 1.5, 2e100, 3j, "s", "", "a b", "q'\"", "\\", "\n", "{x}", "é", b"b", b"\xff", True, False, None, ...]))

    def expr(self, d=0, ctx=None):
        r = self.r
        L = ast.Load()
        if d > 3 or r.random() < 0.25:
            return r.choice([lambda: ast.Name(self.name(), L), self.const, lambda: ast.Attribute(ast.Name(self.name(), L), self.name(), L)])()
        k = r.randrange(24)
        e = lambda: self.expr(d + 1)
        if k == 0:
            return ast.BinOp(e(), r.choice([ast.Add, ast.Sub, ast.Mult, ast.MatMult, ast.Div, ast.Mod, ast.Pow, ast.LShift, ast.RShift, ast.BitOr, ast.BitXor, ast.BitAnd, ast.FloorDiv])(), e())
        if k == 1:
            return ast.BoolOp(r.choice([ast.And, ast.Or])(), [e() for _ in range(r.randint(2, 4))])
        if k == 2:
            return ast.UnaryOp(r.choice([ast.Not, ast.USub, ast.UAdd, ast.Invert])(), e())
        if k == 3:
            n = r.randint(1, 3)
            return ast.Compare(e(), [r.choice([ast.Eq, ast.NotEq, ast.Lt, ast.LtE, ast.Gt, ast.GtE, ast.Is, ast.IsNot, ast.In, ast.NotIn])() for _ in range(n)], [e() for _ in range(n)])
        if k == 4:
            args = [e() for _ in range(r.randint(0, 3))]
            if r.random() < 0.3:
                args.append(ast.Starred(e(), L))
            kws = [ast.keyword(r.choice(["k", "end", "sep", None]), e()) for _ in range(r.randint(0, 2))]
            return ast.Call(e(), args, kws)
        if k == 5:
            return ast.IfExp(e(), e(), e())
        if k == 6:
            return ast.Lambda(self.arguments(d, annotations=False), e())
        if k == 7:
            return ast.Dict([r.choice([e, lambda: None])() for _ in range(2)], [e(), e()])
        if k == 8:
            elts = [e() for _ in range(r.randint(1, 3))]
            if r.random() < 0.3 and "set-star" not in AVOID:
                elts.insert(r.randrange(len(elts) + 1), ast.Starred(e(), L))
            if "set-first-brace" in AVOID and isinstance(elts[0], (ast.Set, ast.Dict, ast.SetComp, ast.DictComp)):
                elts[0] = ast.Name("x", L)
            return ast.Set(elts)
        if k == 9:
            elts = [e() for _ in range(r.randint(0, 3))]
            if r.random() < 0.3:
                elts.insert(r.randrange(len(elts) + 1), ast.Starred(e(), L))
            return r.choice([ast.List, ast.Tuple])(elts, L)
        if k == 10:
            return r.choice([ast.ListComp, ast.SetComp, ast.GeneratorExp])(e(), self.comps(d))
        if k == 11:
            return ast.DictComp(e(), e(), self.comps(d))
        if k == 12:
            return ast.Subscript(e(), self.slice(d), L)
        if k == 13:
            return ast.Attribute(e(), self.name(), L)
        if k == 14:
            return ast.NamedExpr(ast.Name(self.name(), ast.Store()), e())
        if k == 15:
            return self.fstring(d)
        if k == 16:
            return ast.Starred(e(), L) if False else ast.Tuple([e(), ast.Starred(e(), L)], L)
        if k == 17:
            return ast.Await(e()) if r.random() < 0.2 else ast.Yield(r.choice([e, lambda: None])())
        if k == 18:
            return ast.YieldFrom(e())
        if k == 19:
            return ast.JoinedStr([ast.Constant("p"), ast.FormattedValue(e(), r.choice([-1, 114, 115, 97]), r.choice([None, ast.JoinedStr([ast.Constant(">5")]), ast.JoinedStr([ast.FormattedValue(ast.Name("w", L), -1, None)])]))])
        return self.const()

    def fstring(self, d):
        r = self.r
        vals = []
        for _ in range(r.randint(1, 3)):
            if r.random() < 0.5:
                vals.append(ast.Constant(r.choice(["t", " ", "{", "}", "'", '"', "\\", "\n", "%", "é"])))
            else:
                vals.append(ast.FormattedValue(self.expr(d + 2), r.choice([-1, -1, 114, 115, 97]), None))
        return ast.JoinedStr(vals)

    def slice(self, d):
        r = self.r
        e = lambda: self.expr(d + 1)
        o = lambda: r.choice([e, lambda: None])()
        k = r.randrange(4)
        if k == 0:
            return e()
        if k == 1:
            return ast.Slice(o(), o(), o())
        if k == 2:
            return ast.Tuple([ast.Slice(o(), o(), o()), e()], ast.Load())
        if "starred-index" in AVOID:
            return ast.Tuple([e(), e()], ast.Load())
        return ast.Tuple([e(), ast.Starred(e(), ast.Load())], ast.Load())

    def comps(self, d):
        r = self.r
        return [ast.comprehension(self.target(d + 1), self.expr(d + 1), [self.expr(d + 2) for _ in range(r.randint(0, 2))], int(r.random() < 0.1)) for _ in range(r.randint(1, 2))]

    def target(self, d=0, simple=False):
        r = self.r
        S = ast.Store()
        k = r.randrange(6 if not simple else 3)
        if k == 0 or d > 2:
            return ast.Name(self.name(), S)
        if k == 1:
            return ast.Attribute(self.expr(d + 2), self.name(), S)
        if k == 2:
            return ast.Subscript(self.expr(d + 2), self.slice(d + 1), S)
        if k == 3:
            return r.choice([ast.Tuple, ast.List])([self.target(d + 1) for _ in range(r.randint(2 if "one-tuple-target" in AVOID else 1, 3))], S)
        if k == 4:
            elts = [self.target(d + 1) for _ in range(r.randint(1 if "one-tuple-target" in AVOID else 0, 2))]
            elts.insert(r.randrange(len(elts) + 1), ast.Starred(self.target(d + 1, simple=True), S))
            return ast.Tuple(elts, S)
        return ast.Name(self.name(), S)

    def arguments(self, d, annotations=True):
        r = self.r
        ann = (lambda: r.choice([None, ast.Name("T", ast.Load()), self.expr(d + 2)])) if annotations else (lambda: None)
        used = set()

        def arg():
            for _ in range(20):
                n = self.name() + r.choice(["", "1", "2"])
                if n not in used:
                    used.add(n)
                    return ast.arg(n, ann())
            n = f"z{len(used)}"
            used.add(n)
            return ast.arg(n, ann())

        pos = [arg() for _ in range(r.randint(0, 2))]
        args = [arg() for _ in range(r.randint(0, 3))]
        nd = r.randint(0, len(args) if "posonly-default" in AVOID else len(pos) + len(args))
        plain_ann = ann
        if "star-arg-annotation" in AVOID:
            ann = lambda: None
        va = arg() if r.random() < 0.4 else None
        ann = plain_ann
        kwo = [arg() for _ in range(r.randint(0, 2))]
        kwd = [r.choice([None, self.expr(d + 2)]) for _ in kwo]
        if "star-arg-annotation" in AVOID:
            ann = lambda: None
        kwa = arg() if r.random() < 0.4 else None
        return ast.arguments(posonlyargs=pos, args=args, vararg=va, kwonlyargs=kwo, kw_defaults=kwd, kwarg=kwa, defaults=[self.expr(d + 2) for _ in range(nd)])

    def deco(self):
        r = self.r
        if "relaxed-decorator" not in AVOID:
            return self.expr(1)
        n = ast.Name(r.choice(["a", "b", "deco"]), ast.Load())
        for _ in range(r.randint(0, 2)):
            n = ast.Attribute(n, self.name(), ast.Load())
        if r.random() < 0.5:
            n = ast.Call(n, [self.expr(2) for _ in range(r.randint(0, 2))], [])
        return n

    def body(self, d):
        return [self.stmt(d + 1) for _ in range(self.r.randint(1, 2))]

    def pattern(self, d=0):
        r = self.r
        k = r.randrange(9) if d < 3 else r.randrange(3)
        if k == 0:
            return ast.MatchValue(r.choice([ast.Constant(1), ast.Constant("s"), ast.UnaryOp(ast.USub(), ast.Constant(2)), ast.Attribute(ast.Name("a", ast.Load()), "b", ast.Load()), ast.BinOp(ast.Constant(1), ast.Add(), ast.Constant(2j))]))
        if k == 1:
            return ast.MatchSingleton(r.choice([None, True, False]))
        if k == 2:
            return ast.MatchAs(None, r.choice([None, "v", "w"]))
        if k == 3:
            pats = [self.pattern(d + 1) for _ in range(r.randint(0, 3))]
            if r.random() < 0.4:
                pats.insert(r.randrange(len(pats) + 1), ast.MatchStar(r.choice([None, "rest"])))
            return ast.MatchSequence(pats)
        if k == 4:
            n = r.randint(0, 2)
            return ast.MatchMapping([ast.Constant(f"k{i}") for i in range(n)], [self.pattern(d + 1) for _ in range(n)], r.choice([None, "rest"]))
        if k == 5:
            n = r.randint(0, 2)
            return ast.MatchClass(ast.Name("C", ast.Load()), [self.pattern(d + 1) for _ in range(r.randint(0, 2))], [f"k{i}" for i in range(n)], [self.pattern(d + 1) for _ in range(n)])
        if k == 6:
            return ast.MatchOr([self.pattern(d + 1) for _ in range(r.randint(2, 3))])
        if k == 7:
            p = self.pattern(d + 1)
            return ast.MatchAs(p, "nm")
        return ast.MatchAs(None, None)

    def type_params(self):
        r = self.r
        out = []
        if r.random() < 0.25:
            out.append(ast.TypeVar("T", None if "typevar-bound" in AVOID else r.choice([None, ast.Name("int", ast.Load()), ast.Tuple([ast.Name("int", ast.Load()), ast.Name("str", ast.Load())], ast.Load())])))
            if r.random() < 0.4:
                out.append(ast.TypeVarTuple("Ts"))
            if r.random() < 0.4:
                out.append(ast.ParamSpec("P"))
        return out

    def stmt(self, d=0):
        r = self.r
        e = lambda: self.expr(1)
        L = ast.Load()
        k = r.randrange(26 if d < 2 else 12)
        if k == 0:
            return ast.Expr(e())
        if k == 1:
            ts = [self.target() for _ in range(r.randint(1, 2))]
            if "chained-star-assign" in AVOID and len(ts) > 1 and any(isinstance(x, ast.Starred) for t in ts for x in ast.walk(t)):
                ts = ts[:1]
            return ast.Assign(ts, e())
        if k == 2:
            return ast.AugAssign(self.target(simple=True), r.choice([ast.Add, ast.Sub, ast.Mult, ast.MatMult, ast.Div, ast.Mod, ast.Pow, ast.LShift, ast.RShift, ast.BitOr, ast.BitXor, ast.BitAnd, ast.FloorDiv])(), e())
        if k == 3:
            t = self.target(simple=True)
            if "annassign-nonname" in AVOID:
                t = ast.Name(self.name(), ast.Store())
                return ast.AnnAssign(t, e(), r.choice([None, e()]), 1)
            return ast.AnnAssign(t, e(), r.choice([None, e()]), int(isinstance(t, ast.Name) and r.random() < 0.8))
        if k == 4:
            return ast.Return(r.choice([None, e()]))
        if k == 5:
            return ast.Delete([self.target(simple=r.random() < 0.7) for _ in range(r.randint(1, 2))])
        if k == 6:
            return ast.Raise(*r.choice([(None, None), (e(), None), (e(), e())]))
        if k == 7:
            return ast.Assert(e(), r.choice([None, e()]))
        if k == 8:
            return r.choice([ast.Pass(), ast.Break(), ast.Continue(), ast.Global(["g1", "g2"][: r.randint(1, 2)]), ast.Nonlocal(["n1"])])
        if k == 9:
            return ast.Import([ast.alias(r.choice(["m", "m.n", "m.n.o"]), r.choice([None, "al"])) for _ in range(r.randint(1, 2))])
        if k == 10:
            lvl = r.randint(0, 4)
            mod = r.choice(["m", "m.n", None]) if lvl else r.choice(["m", "m.n"])
            names = [ast.alias("*", None)] if r.random() < 0.15 else [ast.alias(r.choice(["p", "q"]), r.choice([None, "al"])) for _ in range(r.randint(1, 3))]
            return ast.ImportFrom(mod, names, lvl)
        if k == 11:
            return ast.Expr(self.fstring(0))
        if k == 12:
            return ast.If(e(), self.body(d), r.choice([[], self.body(d), [ast.If(e(), self.body(d), self.body(d))]]))
        if k == 13:
            return r.choice([ast.For, ast.AsyncFor])(self.target(), e(), self.body(d), r.choice([[], self.body(d)]), None)
        if k == 14:
            return ast.While(e(), self.body(d), r.choice([[], self.body(d)]))
        if k == 15:
            items = [ast.withitem(e(), r.choice([None, self.target()])) for _ in range(r.randint(1, 3))]
            return r.choice([ast.With, ast.AsyncWith])(items, self.body(d), None)
        if k == 16:
            hs = [ast.ExceptHandler(r.choice([None, e()]) if i == 2 else e(), None, self.body(d)) for i in range(r.randint(0, 3))]
            for h in hs:
                if h.type is not None and r.random() < 0.5:
                    h.name = "exc"
            hs.sort(key=lambda h: h.type is None)
            if sum(h.type is None for h in hs) > 1:
                hs = [h for h in hs if h.type is not None][:2]
            fin = self.body(d) if (not hs or r.random() < 0.4) else []
            orelse = self.body(d) if hs and r.random() < 0.3 else []
            if hs and all(h.type is not None for h in hs) and r.random() < 0.3:
                return ast.TryStar(self.body(d), hs, orelse, fin)
            return ast.Try(self.body(d), hs, orelse, fin)
        if k in (17, 18):
            decos = [self.deco() for _ in range(r.randint(0, 2))]
            cls = r.choice([ast.FunctionDef, ast.AsyncFunctionDef])
            return cls(self.name() + "_fn", self.arguments(1), self.body(d), decos, r.choice([None, e()]), None, self.type_params())
        if k == 19:
            bases = [e() for _ in range(r.randint(0, 2))]
            kws = [ast.keyword(r.choice(["metaclass", None]), e())] if r.random() < 0.3 else []
            return ast.ClassDef("Cls", bases, kws, self.body(d), [self.deco() for _ in range(r.randint(0, 1))], self.type_params())
        if k == 20:
            cases = [ast.match_case(self.pattern(), r.choice([None, e()]), self.body(d)) for _ in range(r.randint(1, 3))]
            return ast.Match(e(), cases)
        if k == 21 and (d == 0 or "nested-type-alias" not in AVOID):
            return ast.TypeAlias(ast.Name("Alias", ast.Store()), self.type_params(), e())
        if k == 22:
            return ast.Assign([ast.Name(self.name(), ast.Store())], ast.Lambda(self.arguments(1, annotations=False), e()))
        if k == 23:
            return ast.Expr(ast.Call(ast.Name(self.name(), L), [ast.GeneratorExp(e(), self.comps(1))], []))
        if k == 24:
            return ast.Expr(ast.Compare(e(), [r.choice([ast.Gt, ast.GtE, ast.Lt, ast.LtE])()], [e()]))
        return ast.Expr(e())

    def program(self):
        n = self.r.choice([1, 1, 1, 2, 3])
        return ast.Module([self.stmt() for _ in range(n)], [])


def gen_sources(rng, n):
    g = Gen(rng)
    out = 0
    tries = 0
    while out < n and tries < n * 6:
        tries += 1
        try:
            m = g.program()
            ast.fix_missing_locations(m)
            with warnings.catch_warnings():
                warnings.simplefilter("ignore")
                s = ast.unparse(m) + "\n"
                t = cparse(s, "exec")
            if firstdiff(norm(m), norm(t)) is not None:
                continue  # unparse did not round-trip in CPython itself: not judgeable
        except Exception:
            continue
        out += 1
        yield s


# --------------------------------------------------------------------------- the check
class C01:
    id = "C01"
    module = "checks.c01"
    level = "exploration"
    tables = True
    rule = (
        "cases = CPython-valid source texts in exec/eval/single mode: statements cut out of the running interpreter's stdlib and "
        "site-packages with ast.get_source_segment (seed-rotated window in quick, everything in thorough), surface perturbations of "
        "them kept only when CPython maps them to the same tree, random ASTs over the 3.12 ASDL rendered by ast.unparse, and a directed "
        "list; distinct_nontrivial = distinct (mode, text) pairs whose CPython tree has at least 4 nodes"
    )
    assumptions = [
        "CPython's ast.parse of the running interpreter (3.12) is the reference; equality is on the location-free normal form (vlib/astnorm.py): Constant.kind and type_comment ignored, adjacent string constants inside JoinedStr merged",
        "parser tables are regenerated from the working tree's grammar before parsing (never the stale checked-out table)",
        "texts are fed to Parser.parse the way Execer.parse feeds them: a final newline is appended in exec/single mode when missing",
        "a program counts as valid Python when CPython both parses and compiles it",
        "only programs produced by the corpus, perturbation rules, generator and directed list are judged",
    ]

    def shards(self, tier, seed):
        n = 16
        if tier == "quick":
            per = dict(stmts=1100, perturb=500, gen=200)
        else:
            per = dict(stmts=10**9, perturb=6000, gen=6000)
        out = [dict(kind="mixed", index=i, n=n, **per, timeout=(420 if tier == "quick" else 3000)) for i in range(n)]
        return out

    def floors(self, c, tier):
        r = []
        if c.get("judged", 0) < 5000:
            r.append(f"only {c.get('judged', 0)} programs judged")
        for k in ("corpus_judged", "perturb_judged", "gen_judged", "directed_judged"):
            if c.get(k, 0) == 0:
                r.append(f"workload class {k} never reached the oracle")
        return r

    # -- one case
    def run_case(self, case, rec, judge=None):
        judge = judge or Judge()
        src, mode = case["src"], case.get("mode", "exec")
        if mode != "eval" and not src.endswith("\n"):
            src += "\n"  # exactly what Execer.parse does before handing text to the parser
        try:
            ctree = cparse(src, mode)
        except Exception:
            rec.count("skipped_cpython_rejects")
            return
        if compile_outcome(ctree, mode) != "ok":
            rec.count("skipped_cpython_compile_rejects")
            return
        nn = sum(1 for _ in ast.walk(ctree))
        rec.case(nontrivial=(mode, src) if nn >= 4 else None)
        rec.count("judged")
        rec.count(case.get("cls", "corpus") + "_judged")
        rec.count("mode_" + mode)
        cls, detail = judge.outcome(src, mode, ctree)
        if cls == "OK":
            rec.count("ok")
            return
        if cls == "RECURSION":
            rec.count("recursion_limit_skipped")
            return
        if case.get("via", "") and str(case.get("via")).startswith("file:"):
            # a whole file: attribute the failure to its statements when one of them shows it alone
            rec.count("whole_file_failed")
            try:
                key = _fkey(cls, detail)
                for st in cparse(src, "exec").body:
                    seg = ast.get_source_segment(src, st, padded=True)
                    if not seg:
                        continue
                    seg = textwrap.dedent(seg) + "\n"
                    c2, d2 = judge.outcome(seg, "exec")
                    if c2 == cls and _fkey(c2, d2) == key:
                        src, detail, case = seg, d2, dict(case, src=seg)
                        break
                else:
                    rec.violation("FILE-ONLY/" + "/".join(map(str, key)), {"src": src[:20000], "mode": mode, "cls": "corpus", "via": case["via"]}, {"outcome": cls, "detail": detail})
                    return
            except Exception:
                pass
        if mode != "exec":
            # the same text is also judged in exec mode; classify there when the failure is not mode-specific
            try:
                s2 = src if src.endswith("\n") else src + "\n"
                c2, d2 = judge.outcome(s2, "exec")
                if c2 == cls and _fkey(c2, d2)[:1] == _fkey(cls, detail)[:1]:
                    src, mode, detail = s2, "exec", d2
            except Exception:
                pass
        mech, small = classify(judge, src, mode, cls, detail)
        rec.violation(mech, {"src": src, "mode": mode, "cls": case.get("cls", "corpus"), "via": case.get("via")}, {"outcome": cls, "detail": detail, "minimal": small})

    def run_shard(self, sh, rec):
        judge = Judge()
        seed, idx, n = sh["seed"], sh["index"], sh["n"]
        rng = random.Random(f"{seed}/C01/{idx}")
        if idx == 0:
            for s in directed_cases():
                self.run_case({"src": s, "mode": "exec", "cls": "directed"}, rec, judge)
                if "\n" not in s.rstrip("\n"):
                    self.run_case({"src": s, "mode": "single", "cls": "directed"}, rec, judge)
                    try:
                        cparse(s.strip(), "eval")
                        self.run_case({"src": s.strip(), "mode": "eval", "cls": "directed"}, rec, judge)
                    except SyntaxError:
                        pass
        files = corpus_files()
        random.Random(f"{seed}/C01/files").shuffle(files)
        files = files[idx::n]
        seen = set()
        budget = sh["stmts"]
        pert_budget = sh["perturb"]
        pool = []
        whole = 0
        for fn in harness.budgeted(files, rec):
            if budget <= 0:
                break
            src, stmts = statements_of(fn)
            if src is None:
                continue
            if len(src) < 60000 and whole < (3 if sh["tier"] == "quick" else 10**9):
                whole += 1
                rec.count("whole_files")
                self.run_case({"src": src, "mode": "exec", "cls": "corpus", "via": "file:" + fn}, rec, judge)
            rng.shuffle(stmts)
            for s in stmts:
                if s in seen:
                    continue
                seen.add(s)
                budget -= 1
                if budget < 0:
                    break
                self.run_case({"src": s, "mode": "exec", "cls": "corpus"}, rec, judge)
                if len(pool) < 4000 or rng.random() < 0.1:
                    pool.append(s)
                one = "\n" not in s.rstrip("\n")
                if one and rng.random() < 0.5:
                    self.run_case({"src": s, "mode": "single", "cls": "corpus"}, rec, judge)
                    try:
                        cparse(s.strip(), "eval")
                        self.run_case({"src": s.strip(), "mode": "eval", "cls": "corpus"}, rec, judge)
                    except SyntaxError:
                        pass
                if len(rec.samples.get("corpus", [])) < 2 and len(s) < 200:
                    rec.sample({"src": s, "mode": "exec"}, "corpus")
        # perturbations
        rng.shuffle(pool)
        done = 0
        for s in pool:
            if done >= pert_budget:
                break
            try:
                base = norm(cparse(s, "exec"))
            except Exception:
                continue
            for name, t in perturbations(s, rng):
                if t == s or t in seen:
                    continue
                try:
                    if firstdiff(base, norm(cparse(t, "exec"))) is not None and name not in ("semicolon", "in-suite", "in-def-oneline"):
                        rec.count("perturbation_rejected_by_cpython_oracle")
                        continue
                except Exception:
                    rec.count("perturbation_rejected_by_cpython_oracle")
                    continue
                seen.add(t)
                done += 1
                rec.count("perturb_" + name)
                self.run_case({"src": t, "mode": "exec", "cls": "perturb", "via": name}, rec, judge)
                if len(rec.samples.get("perturb", [])) < 2 and len(t) < 200:
                    rec.sample({"src": t, "via": name}, "perturb")
        # generator
        for s in harness.budgeted(gen_sources(rng, sh["gen"]), rec):
            if s in seen:
                continue
            seen.add(s)
            self.run_case({"src": s, "mode": "exec", "cls": "gen"}, rec, judge)
            if len(rec.samples.get("gen", [])) < 2 and len(s) < 300:
                rec.sample({"src": s}, "gen")
            if rng.random() < 0.3:
                for name, t in perturbations(s, rng):
                    if name not in ("tight-all", "tight-one", "parens", "trailing-comma", "backslash-nl"):
                        continue
                    try:
                        if firstdiff(norm(cparse(s, "exec")), norm(cparse(t, "exec"))) is not None:
                            continue
                    except Exception:
                        continue
                    if t not in seen:
                        seen.add(t)
                        rec.count("perturb_" + name)
                        self.run_case({"src": t, "mode": "exec", "cls": "perturb", "via": "gen+" + name}, rec, judge)


CHECK = C01()

if __name__ == "__main__":
    harness.main(CHECK)
