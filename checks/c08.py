"""C08 - command lookup equals a POSIX $PATH search and never goes stale.

Random directory layouts (symlinked / missing / duplicate / relative / empty $PATH entries,
non-executable shadows, directories, FIFOs and broken links named like commands, same-named files in
cwd) and histories of create / delete / rename / chmod / replace-by-directory / $PATH edits / cd; after
every operation each name is looked up through every view xonsh offers (locate_executable,
CommandsCache.locate_binary, `name in commands_cache`, all_commands, and - sampled - the file a
spawned bare name actually executes) and compared with a 10-line POSIX reference, cross-checked
against shutil.which.
"""

import os
import random
import shutil
import stat

from vlib import harness

NAMES = ["alpha", "beta", "gamma", "tool", "x.y"]
SCRIPT = "#!/bin/sh\nprintf '%s' \"$0\"\n"


def posix_lookup(name, path_entries, cwd):
    """First $PATH entry ('' = '.') whose entry/name is, after symlink resolution, a regular file with an execute bit."""
    seen = set()
    for e in path_entries:
        d = os.path.join(cwd, e if e else ".")
        rd = os.path.realpath(d)
        if rd in seen or not os.path.isdir(rd):
            continue
        seen.add(rd)
        p = os.path.join(rd, name)
        try:
            st = os.stat(p)
        except OSError:
            continue
        if stat.S_ISREG(st.st_mode) and os.access(p, os.X_OK):
            return p
    return None


class C08:
    id = "C08"
    module = "checks.c08"
    level = "exploration"
    tables = True
    rule = (
        "cases = histories of 25 operations over {create executable / non-executable file, delete, rename, chmod +x/-x, replace file by directory, make FIFO / broken symlink / symlink to an executable, "
        "$PATH append / insert(0) / remove / reorder / reassign / swap scope, cd} on a layout of 2-6 directories (some symlinked, missing, duplicated, relative, empty entries, `..` behind a symlinked component with and without a decoy); after every operation "
        "all five names are looked up through every view in a random order, each answer judged before the next question; each (operation, name, view) comparison is an evaluation; distinct_nontrivial = distinct (layout signature, operation kind, name state) triples where the "
        "name exists in at least two $PATH directories or changed state in this step"
    )
    assumptions = [
        "directory mtimes are advanced explicitly (os.utime, by 4 ms to 10 s) after create/delete/rename so that the file system's timestamp granularity never decides a verdict; chmod legitimately leaves the directory mtime alone",
        "$XONSH_COMMANDS_CACHE_READ_DIR_ONCE stays at its Linux default (empty): its never-refresh behaviour is documented and opt-in",
        "results are compared by os.path.realpath; when the POSIX model and shutil.which disagree (FIFOs and other non-regular executables) the query is counted as inconclusive, not judged",
        "the worker runs with CAP_DAC_OVERRIDE dropped so that execute bits apply to root as well",
    ]

    def shards(self, tier, seed):
        per = 130 if tier == "quick" else 1500
        return [dict(kind="hist", index=i, n=per, steps=(25 if tier == "quick" else 60), timeout=420 if tier == "quick" else 3000) for i in range(16)]

    def floors(self, c, tier):
        r = []
        if c.get("lookups_compared", 0) < 20000:
            r.append("fewer than 20000 lookups compared")
        if c.get("spawned_bare_names", 0) < 100:
            r.append("fewer than 100 spawned lookups")
        if c.get("op_chmod", 0) < 100 or c.get("op_path_edit", 0) < 100:
            r.append("chmod / $PATH edit operations under-exercised")
        if c.get("name_in_several_dirs_steps", 0) < 500:
            r.append("shadowing layouts under-exercised")
        return r

    def _setup(self):
        from checks.c16 import drop_dac_caps
        from vlib.session import make_session

        self.caps = drop_dac_caps()
        self.XSH, self.ex, self.ctx = make_session([], env={"XONSH_SUBPROC_RAISE_ERROR": False, "THREAD_SUBPROCS": False, "XONSH_CAPTURE_ALWAYS": False})
        import xonsh.procs.executables as E

        self.E = E
        self.base = os.path.join(os.environ["VERIF_SCRATCH"], f"c08-{os.getpid()}")
        self.clock = 1_000_000_000

    def touch_dir(self, d):
        # the directory's timestamp moves on by as little as a few milliseconds or as much as ten seconds
        self.ticks = getattr(self, "ticks", 0) + 1
        self.clock += (10, 0.5, 3, 0.004, 1.0, 10, 0.05, 2)[self.ticks % 8]
        try:
            os.utime(d, (self.clock, self.clock))
        except OSError:
            pass

    def mkfile(self, p, exe):
        with open(p, "w") as f:
            f.write(SCRIPT)
        os.chmod(p, 0o755 if exe else 0o644)
        self.touch_dir(os.path.dirname(p))

    def rm(self, p):
        try:
            if os.path.isdir(p) and not os.path.islink(p):
                shutil.rmtree(p)
            else:
                os.remove(p)
        except OSError:
            pass
        self.touch_dir(os.path.dirname(p))

    def run_case(self, case, rec):
        if not hasattr(self, "XSH"):
            self._setup()
        from xonsh.commands_cache import CommandsCache

        XSH, E = self.XSH, self.E
        rng = random.Random(case["rseed"])
        root = self.base
        shutil.rmtree(root, ignore_errors=True)
        ndirs = rng.randint(2, 6)
        dirs = [os.path.join(root, f"d{i}") for i in range(ndirs)]
        for d in dirs:
            os.makedirs(d)
        work = os.path.join(root, "work")
        os.makedirs(os.path.join(work, "bin"))
        os.makedirs(os.path.join(work, "sub"))
        links = []
        if rng.random() < 0.5:
            l = os.path.join(root, "link0")
            os.symlink(rng.choice(dirs), l)
            links.append(l)
        dotdot = []
        if rng.random() < 0.6:
            # `..` behind a symlinked component: the directory execvp searches is the PHYSICAL parent's child, which a purely
            # lexical normalisation of the entry misses (a decoy directory sits at the lexical place in half of the layouts)
            deep = os.path.join(root, "deep", "inner")
            os.makedirs(deep)
            phys = os.path.join(root, "deep", "sib")
            os.makedirs(phys)
            dirs.append(phys)
            if rng.random() < 0.5:
                decoy = os.path.join(root, "sib")
                os.makedirs(decoy)
                dirs.append(decoy)
            os.symlink(deep, os.path.join(root, "jump"))
            dotdot.append(os.path.join(root, "jump", "..", "sib"))
        pool = dirs + links + dotdot + dotdot + [os.path.join(root, "missing"), "bin", ".", "", os.path.join(work, "bin")]
        path = [rng.choice(pool) for _ in range(rng.randint(1, 6))]
        if dotdot and rng.random() < 0.5:
            path.insert(rng.randrange(len(path) + 1), dotdot[0])
        for d in dirs + [os.path.join(work, "bin"), work]:
            for n in NAMES:
                k = rng.random()
                p = os.path.join(d, n)
                if k < 0.25:
                    self.mkfile(p, True)
                elif k < 0.38:
                    self.mkfile(p, False)
                elif k < 0.43:
                    os.mkdir(p)
                elif k < 0.46:
                    os.mkfifo(p, 0o755)
                elif k < 0.49:
                    os.symlink(os.path.join(root, "nowhere"), p)
                elif k < 0.54:
                    tgt = os.path.join(rng.choice(dirs), rng.choice(NAMES))
                    if tgt != p:
                        os.symlink(tgt, p)
        os.chdir(work)
        env = XSH.env
        env["PWD"] = work
        env["PATH"] = list(path)
        cc = CommandsCache(env, XSH.aliases)
        XSH.commands_cache = cc
        trace = []
        good_paths = None
        chmod_since_good = False
        chmod_dirs = set()  # directories in which a mode changed since the cache last re-listed them
        latent_path_edit = True  # $PATH / cwd changed since the merged map was last certainly rebuilt
        for step in range(case["steps"] + 1):
            op = "initial"
            changed = None
            if step:
                r = rng.random()
                d = rng.choice(dirs + [os.path.join(work, "bin"), work])
                n = rng.choice(NAMES)
                p = os.path.join(d, n)
                changed = n
                if r < 0.14:
                    op = "create-exe"
                    self.rm(p)
                    self.mkfile(p, True)
                elif r < 0.22:
                    op = "create-nonexe"
                    self.rm(p)
                    self.mkfile(p, False)
                elif r < 0.32:
                    op = "delete"
                    self.rm(p)
                elif r < 0.40:
                    op = "rename"
                    n2 = rng.choice(NAMES)
                    q = os.path.join(d, n2)
                    if os.path.lexists(p) and not os.path.lexists(q):
                        os.rename(p, q)
                        self.touch_dir(d)
                    changed = None
                elif r < 0.56:
                    op = "chmod"
                    rec.count("op_chmod")
                    if os.path.isfile(p) and not os.path.islink(p):
                        os.chmod(p, 0o644 if os.access(p, os.X_OK) else 0o755)
                elif r < 0.61:
                    op = "replace-by-dir"
                    self.rm(p)
                    os.mkdir(p)
                    self.touch_dir(d)
                elif r < 0.64:
                    op = "symlink-to-exe"
                    self.rm(p)
                    os.symlink(os.path.join(rng.choice(dirs), rng.choice(NAMES)), p)
                    self.touch_dir(d)
                elif r < 0.90:
                    rec.count("op_path_edit")
                    k = rng.random()
                    changed = None
                    if k < 0.25:
                        op = "path-append"
                        env["PATH"].append(rng.choice(pool))
                    elif k < 0.5:
                        op = "path-insert0"
                        env["PATH"].insert(0, rng.choice(pool))
                    elif k < 0.65 and len(env["PATH"]) > 1:
                        op = "path-remove"
                        del env["PATH"][rng.randrange(len(env["PATH"]))]
                    elif k < 0.8:
                        op = "path-reassign"
                        env["PATH"] = [rng.choice(pool) for _ in range(rng.randint(1, 5))]
                    else:
                        op = "path-reorder"
                        pl = list(env["PATH"])
                        rng.shuffle(pl)
                        env["PATH"] = pl
                else:
                    op = "cd"
                    changed = None
                    nd = rng.choice([work, os.path.join(work, "sub"), root, rng.choice(dirs)])
                    os.chdir(nd)
                    env["PWD"] = nd
            trace.append(op)
            if op == "chmod":
                chmod_since_good = True
                chmod_dirs.add(os.path.realpath(d))
            elif op.startswith("path-") or op == "cd":
                latent_path_edit = True
            step_cache_ok = True
            step_had_stale = False
            rec.count("op_" + op)
            # a directory this cache object has never listed is on $PATH now: by its own rule the cache lists it at the next
            # question and rebuilds the merged map, so nothing answered in this step can be excused by the $PATH edit
            must_rebuild = any(dd not in cc._paths_cache and os.path.isdir(dd) for dd in E.get_paths(env))
            if must_rebuild:
                rec.count("steps_with_a_never_listed_directory_on_PATH")
            cwd = os.getcwd()
            entries = [str(x) for x in env["PATH"]]
            allc = None
            swap_extra = None
            if step and rng.random() < 0.1:
                swap_extra = rng.choice(pool)
            for n in NAMES:
                exp = posix_lookup(n, entries, cwd)
                w = shutil.which(n, path=os.pathsep.join(entries))
                if (w is None) != (exp is None) or (w and os.path.realpath(w) != os.path.realpath(exp)):
                    rec.count("inconclusive_reference_sources_disagree")
                    continue
                ndirs_with = sum(1 for e in {os.path.realpath(os.path.join(cwd, x or ".")) for x in entries} if os.path.lexists(os.path.join(e, n)))
                if ndirs_with >= 2:
                    rec.count("name_in_several_dirs_steps")
                rec.case(nontrivial=(tuple(sorted(entries)), op, n, exp is not None, ndirs_with) if (ndirs_with >= 2 or changed == n) else None)
                # the views are asked in a random order: whichever is asked first after a change must be right on its own,
                # not because an earlier question happened to refresh the cache; each answer is judged before the next
                # question is asked, so the attribution below sees the cache as it was when it answered
                order = ["locate_executable", "locate_binary", "name-in-commands_cache", "all_commands"]
                rng.shuffle(order)
                rec.count("first_view_" + order[0])
                for view in order:
                    try:
                        if view == "locate_executable":
                            got = E.locate_executable(n)
                        elif view == "locate_binary":
                            got = cc.locate_binary(n, ignore_alias=True)
                        elif view == "name-in-commands_cache":
                            got = n in cc
                        else:
                            got = n in set(cc.all_commands)
                    except BaseException as x:  # noqa
                        rec.violation(f"EXCEPTION/{type(x).__name__}", {"rseed": case["rseed"], "steps": case["steps"], "at_step": step}, {"op": op, "name": n, "msg": str(x)[:100]})
                        return
                    rec.count("lookups_compared")
                    if isinstance(got, bool):
                        ok = got == (exp is not None)
                    else:
                        ok = (got is None) == (exp is None) and (got is None or os.path.realpath(got) == os.path.realpath(exp))
                    gs = got
                    if ok:
                        continue
                    state = "stale-positive" if (exp is None) else ("stale-negative" if not got else "wrong-file")
                    recent = [t for t in trace[-6:]]
                    if view != "locate_executable":
                        step_cache_ok = False
                        # is it staleness?  a brand-new CommandsCache on the same env must give the right answer
                        fresh = CommandsCache(env, XSH.aliases)
                        fv = fresh.locate_binary(n, ignore_alias=True)
                        fresh_ok = (fv is None) == (exp is None) and (fv is None or os.path.realpath(fv) == os.path.realpath(exp))
                        if fresh_ok:
                            # attribution only (never the verdict): what does the cache hold per directory, and what happened
                            # since it last answered everything correctly?
                            from xonsh.commands_cache import executables_in

                            now_paths = E.get_paths(env)
                            listing_stale = False
                            unexplained = False
                            for dd in now_paths:
                                ent = cc._paths_cache.get(dd)
                                try:
                                    cur = set(executables_in(dd))
                                    if ent is None:
                                        if not latent_path_edit:
                                            unexplained = True  # a directory that was on $PATH all along and is not listed
                                    elif set(ent.cmds) != cur:
                                        if ent.mtime == os.path.getmtime(dd):
                                            # executability changed without touching the directory (chmod, or the target of a
                                            # symlink appeared / vanished / changed mode): invisible to a cache keyed on the mtime
                                            listing_stale = True
                                        else:
                                            unexplained = True  # the mtime moved on and the directory was still not re-listed
                                except OSError:
                                    pass
                            if unexplained:
                                cause = f"unattributed/{view}/{state}-after-{op}"
                            elif listing_stale:
                                cause = "mode-change-does-not-change-the-directory-mtime"
                            elif latent_path_edit and not must_rebuild:
                                cause = "merged-map-not-rebuilt-when-only-PATH-changed"
                            else:
                                cause = f"unattributed/{view}/{state}-after-{op}"
                            rec.violation(f"STALE/commands_cache/{cause}", {"rseed": case["rseed"], "steps": case["steps"], "at_step": step}, {"view": view, "name": n, "expected": exp, "got": gs, "PATH": entries, "cwd": cwd, "recent_ops": recent, "asked_first": order[0]})
                            break  # the later views of this name would only repeat it
                    else:
                        rec.violation(f"LOOKUP/{view}/{state}/after-{op}", {"rseed": case["rseed"], "steps": case["steps"], "at_step": step}, {"name": n, "expected": exp, "got": gs, "PATH": entries, "cwd": cwd, "recent_ops": recent})
                        continue
                    if not fresh_ok:
                        rec.violation(f"LOOKUP/{view}/{state}/after-{op}", {"rseed": case["rseed"], "steps": case["steps"], "at_step": step}, {"name": n, "expected": exp, "got": gs, "PATH": entries, "cwd": cwd, "recent_ops": recent})
                if not step_cache_ok:
                    # resynchronise at once: one staleness must not be charged to the names that follow in this step
                    cc = CommandsCache(env, XSH.aliases)
                    XSH.commands_cache = cc
                    cc.update_cache()
                    good_paths = E.get_paths(env)
                    chmod_since_good = False
                    chmod_dirs.clear()
                    latent_path_edit = False
                    step_cache_ok = True
                    step_had_stale = True
            if step_cache_ok:
                good_paths = E.get_paths(env)
                chmod_since_good = False
                if must_rebuild:
                    latent_path_edit = False  # the merged map was rebuilt from the current $PATH in this step
            if op in ("create-exe", "create-nonexe", "delete", "rename", "replace-by-dir", "symlink-to-exe") and os.path.realpath(d) in {os.path.realpath(x) for x in E.get_paths(env)}:
                # a $PATH directory's mtime moved: the queries of this step made the cache re-list it and rebuild the merged map
                latent_path_edit = False
                chmod_dirs.discard(os.path.realpath(d))
            else:
                # resynchronise xonsh's cache so that one staleness is not re-reported at every later step
                cc = CommandsCache(env, XSH.aliases)
                XSH.commands_cache = cc
                cc.update_cache()
                good_paths = E.get_paths(env)
                chmod_since_good = False
            # explicit paths and cwd files
            for nm in ("./alpha", "sub/tool", "bin/beta", os.path.join(work, "bin", "gamma")):
                rec.count("lookups_compared")
                p = os.path.join(cwd, nm)
                expx = os.path.abspath(p) if (os.path.isfile(p) and os.access(p, os.X_OK)) else None
                got = E.locate_executable(nm)
                if (got is None) != (expx is None) or (got and os.path.realpath(got) != os.path.realpath(expx)):
                    rec.violation("EXPLICIT-PATH/" + ("found-although-absent-at-that-path" if expx is None else "not-found-or-wrong-file"), {"rseed": case["rseed"], "steps": case["steps"], "at_step": step}, {"name": nm, "expected": expx, "got": got, "cwd": cwd})
            # sampled: which file does a spawned bare name execute?
            if rng.random() < 0.25:
                n = rng.choice(NAMES)
                exp = posix_lookup(n, entries, cwd)
                w = shutil.which(n, path=os.pathsep.join(entries))
                if (w is None) == (exp is None):
                    rec.count("spawned_bare_names")
                    out = None
                    try:
                        with harness.alarm(30):
                            out = XSH.subproc_captured_stdout([n])
                    except harness.CaseTimeout:
                        out = "<HANG>"
                    except BaseException as x:  # noqa
                        out = None
                    ran = out.strip() if isinstance(out, str) and out.strip() else None
                    if (ran is None) != (exp is None) or (ran and os.path.realpath(ran) != os.path.realpath(exp)):
                        rec.violation(f"SPAWN/executed-file-differs/after-{op}", {"rseed": case["rseed"], "steps": case["steps"], "at_step": step}, {"name": n, "expected": exp, "ran": ran, "PATH": entries, "cwd": cwd})
        os.chdir(self.base)

    def run_shard(self, sh, rec):
        self._setup()
        if not self.caps:
            rec.inconclusive("could not drop CAP_DAC_OVERRIDE: execute bits do not apply to root")
        for i in harness.budgeted(range(sh["n"]), rec):
            case = {"rseed": f"{sh['seed']}/C08/{sh['index']}/{i}", "steps": sh["steps"]}
            if i < 2:
                rec.sample(case, "history")
            self.run_case(case, rec)


CHECK = C08()

if __name__ == "__main__":
    harness.main(CHECK)
