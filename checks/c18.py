"""C18 - tab-completing a path always inserts text that means that path.

One fresh scratch directory per adversarial name (file and directory); for typed prefixes and opening
quote styles the real Completer.complete_line is asked (an on_completer_filter handler vetoes every
completer except `path`, so the Completer's own splicing and closing-quote logic stays in the loop);
each offered completion is spliced into the line and the line is *executed* with a recording alias:
the recorded argv must be exactly [name] (name + "/" for a directory).  Second part: the command-line
analyser must never raise and its prefix/suffix must reproduce the text around the cursor for fuzz
strings at every cursor position.
"""

import os
import random
import shutil

from vlib import harness

SPECIAL = list(" '\"$\\!#-~*?[](){}&|;<>=,:%@`^+\t") + ["\n", "\r"]
FIXED = ["plain", "sp ace", "qu'ote", 'dq"uote', "do$llar", "$HOME", "back\\slash", "ba!ng", "both'\"q", "new\nline", "tab\tx", "#hash", "-dash", "~tilde", "~", "st*ar", "qm?ark", "br[ack]",
         "and", "or", "if", "a;b", "a&b", "a|b", "(par)", "a=b", "\u00fcn\u00ef", "{brace}", "a`b", "a@b", "@(x)", "a>b", "a<b", "a,b", "%pc", "two  spaces", " lead", "'", '"', "!", "$", "a\\'b",
         "\U0001F600", "a\\nb", "None", "True", "in", "not", "--opt", "-", "a:b", "x.y.z", "UPPER", "123", "e>o", "2>1", "$(cmd)", "${x}", "@$(c)", "![x]", "r'x'", "f'{x}'", "a#b", "a b c d", "^caret", "a+b", "~user"]


CLASSES = {
    "blank": [" "], "tab": ["\t"], "newline": ["\n"], "cr": ["\r"], "squote": ["'"], "dquote": ['"'], "backslash": ["\\"], "non-ascii": ["\u00fc", "\U0001F600", "\u0301"],
}
for _ch in "$!#~*?[](){}&|;<>=,:%@`^+":
    CLASSES[_ch] = [_ch]
POSITIONAL = ["trailing-backslash", "trailing-blank", "leading-blank", "lead-", "lead~", "lead#", "both-quotes", "both-quotes+$", "keyword", "nothing-special", "lead$"]


def make_name(rng, cls):
    """A name whose only special feature is ``cls`` (everything else is [a-z0-9.])."""
    w = lambda n: "".join(rng.choice("abxyz019") for _ in range(n))
    if cls == "trailing-backslash":
        return w(3) + "\\"
    if cls == "trailing-blank":
        return w(3) + " "
    if cls == "leading-blank":
        return " " + w(3)
    if cls in ("lead-", "lead~", "lead#", "lead$"):
        return cls[-1] + w(3)
    if cls == "both-quotes":
        return w(2) + "'" + w(1) + '"' + w(1)
    if cls == "both-quotes+$":
        return w(2) + "'" + '"' + "$" + w(1)
    if cls == "keyword":
        return rng.choice(["and", "or", "if", "in", "not", "None", "True", "for", "is"])
    if cls == "nothing-special":
        return w(rng.randint(1, 6)) + rng.choice(["", ".txt", ".d"])
    ch = rng.choice(CLASSES[cls])
    k = rng.choice(["mid", "mid", "end", "twice"])
    if k == "mid":
        return w(2) + ch + w(2)
    if k == "end" and cls not in ("blank", "backslash"):
        return w(3) + ch
    return w(1) + ch + w(1) + ch + w(1)


def classes(name):
    c = set()
    for ch in name:
        if ch in " \t":
            c.add("blank")
        elif ch in "\n\r":
            c.add("newline")
        elif ch in "'\"":
            c.add("squote" if ch == "'" else "dquote")
        elif ch == "\\":
            c.add("backslash")
        elif ch in "$!#~*?[](){}&|;<>=,:%@`^+":
            c.add(ch)
        elif ord(ch) > 127:
            c.add("non-ascii")
    if name.endswith("\\"):
        c.add("trailing-backslash")
    if name.endswith(" "):
        c.add("trailing-blank")
    if name[:1] in "-~#":
        c.add("lead" + name[0])
    return c


class C18:
    id = "C18"
    module = "checks.c18"
    level = "exploration"
    tables = True
    rule = (
        "cases = (adversarial file or directory name alone in a scratch directory, typed prefix in {empty, first char, half, up to first special char, full}, opening quote in {none, ', \", r', r\", ''', p', pr'}) -> every completion "
        "offered is spliced into `rec <line>` and executed; plus (fuzz text, cursor) pairs for the analyser, exhaustive over cursors for texts up to 80 chars; distinct_nontrivial = distinct (name, prefix, quote) triples whose name "
        "contains at least one shell/quote metacharacter, plus distinct analyser texts"
    )
    assumptions = [
        "only the path completer is judged: an on_completer_filter handler vetoes all other completers; $COMPLETE_DOTS=never, sandboxed $PATH, only the recording alias defined",
        "typed prefixes are text a user can have typed for that file: bare prefixes stop before the first blank/newline, prefixes inside an opened quote must be valid in that quote style",
        "names the OS rejects are skipped; NUL and '/' cannot occur in a name",
        "a trailing separator space after the completion is not part of the argument",
    ]

    def shards(self, tier, seed):
        per = 26 if tier == "quick" else 420
        fz = 700 if tier == "quick" else 12000
        return [dict(kind="mixed", index=i, names=per, fuzz=fz, timeout=420 if tier == "quick" else 3000) for i in range(16)]

    def floors(self, c, tier):
        r = []
        if c.get("completions_executed", 0) < 3000:
            r.append("fewer than 3000 completions executed")
        if c.get("analyser_calls", 0) < 20000:
            r.append("fewer than 20000 analyser calls")
        if c.get("quoted_prefix_cases", 0) < 500:
            r.append("opened-quote prefixes under-exercised")
        return r

    def _setup(self):
        from vlib.session import Recorder, make_session

        self.empty = os.path.join(os.environ["VERIF_SCRATCH"], f"emptybin-{os.getpid()}")
        os.makedirs(self.empty, exist_ok=True)
        self.base = os.path.join(os.environ["VERIF_SCRATCH"], f"c18-{os.getpid()}")
        os.makedirs(self.base, exist_ok=True)
        self.XSH, self.ex, self.ctx = make_session([self.empty], env={"COMPLETE_DOTS": "never", "XONSH_SUBPROC_RAISE_ERROR": False, "BASH_COMPLETIONS": [], "CDPATH": [], "THREAD_SUBPROCS": False, "CASE_SENSITIVE_COMPLETIONS": True})
        XSH = self.XSH
        for a in list(XSH.aliases):
            try:
                del XSH.aliases[a]
            except Exception:
                pass
        self.R = Recorder()
        XSH.aliases["rec"] = self.R.alias("rec")
        from xonsh.completer import Completer
        from xonsh.events import events

        @events.on_completer_filter
        def _only_path(completer=None, **kw):
            return completer == "path"

        self.comp = Completer()
        self.n = 0

    def one_name(self, name, isdir, rec, rng):
        self.n += 1
        d = os.path.join(self.base, "%05d" % self.n)
        os.makedirs(d)
        try:
            if isdir:
                os.mkdir(os.path.join(d, name))
            else:
                open(os.path.join(d, name), "w").close()
        except (OSError, ValueError):
            rec.count("skipped_os_rejects_name")
            shutil.rmtree(d, ignore_errors=True)
            return
        os.chdir(d)
        self.XSH.env["PWD"] = d
        exp = name + "/" if isdir else name
        self.cur_class = getattr(self, "cur_class", None)
        firstsp = next((i for i, ch in enumerate(name) if ch in SPECIAL), len(name))
        prefixes = sorted({"", name[:1], name[: max(1, len(name) // 2)], name[:firstsp], name})
        cls = classes(name)
        for pre in prefixes:
            for q in ("", "'", '"', "r'", 'r"', "'''", "p'", "pr'"):
                if q:
                    # a prefix typed inside an opened quote must be valid text there
                    if any(ch in pre for ch in "\n\r\t\\") or q[-1] in pre or (q == "'''" and "'" in pre):
                        continue
                    if not q.startswith(("r", "pr")) and ("$" in pre or "~" in pre[:1]):
                        continue
                else:
                    if any(ch in pre for ch in " \t\n\r'\"\\$!#~*?[](){}&|;<>=,:%@`^"):
                        continue  # typed bare, such characters would not be part of one word
                line = "rec " + q + pre
                self.one_completion(line, q, pre, name, exp, isdir, cls, rec)
        os.chdir(self.base)
        shutil.rmtree(d, ignore_errors=True)

    def one_completion(self, line, q, pre, name, exp, isdir, cls, rec):
        from vlib.session import settle

        case = {"name": name, "isdir": isdir, "line": line}
        try:
            with harness.alarm(20):
                comps, lprefix = self.comp.complete_line(line)
        except harness.CaseTimeout:
            rec.violation("COMPLETER/HANG", case, None)
            return
        except BaseException as x:  # noqa
            rec.violation(f"COMPLETER/EXCEPTION/{type(x).__name__}", case, {"msg": str(x)[:120]})
            return
        rec.count("complete_line_calls")
        if q:
            rec.count("quoted_prefix_cases")
        if not comps:
            rec.count("no_completion_offered")
            return
        meta = bool(cls)
        for c in comps:
            full = line[: len(line) - lprefix] + str(c)
            self.R.clear()
            got = None
            try:
                with harness.alarm(20):
                    self.ex.exec(full, glbs=self.ctx, locs=self.ctx, mode="exec")
                got = [list(e["argv"]) for e in self.R.snapshot()]
            except harness.CaseTimeout:
                got = "HANG"
            except SyntaxError:
                got = "SyntaxError"
            except BaseException as x:  # noqa
                got = "EXC-" + type(x).__name__
            rec.count("completions_executed")
            rec.case(nontrivial=(name, pre, q, isdir) if meta else None)
            if got == [[exp]] or (q.startswith("p") and isdir and got == [[name]]):
                rec.count("ok")  # a p-string is a Path: its str() has no trailing separator
                continue
            style = "bare" if not q else "raw-quote" if q.startswith(("r", "pr")) else "triple-quote" if q == "'''" else "path-quote" if q.startswith("p") else "quote"
            outcome = got if isinstance(got, str) else ("no-command-ran" if not got else "several-commands" if len(got) > 1 else "argument-count-differs" if len(got[0]) != 1 else "argument-value-differs")
            named = self.named(name, cls, q, style, outcome, got, exp)
            label = self.cur_class or ("+".join(sorted(cls)) or "nothing-special")
            mech = named or f"COMPLETION/wrong-argument/{style}/{label}"
            rec.violation(mech, dict(case, completion=str(c), spliced=full, **({"class": self.cur_class} if self.cur_class else {})), {"argv": got if isinstance(got, str) else got[:2], "expected": [exp], "outcome": outcome})

    def named(self, name, cls, q, style, outcome, got, exp):
        """Cause-level names for defects already triaged; each rule is keyed on the single special class the
        generated name carries and the opening-quote style - never on the concrete name."""
        c = self.cur_class
        if c == "trailing-backslash":
            return "COMPLETION/name-ending-in-a-backslash-gets-a-doubled-backslash-in-a-raw-string"
        if c == "trailing-blank":
            return "COMPLETION/trailing-blank-of-the-name-is-dropped"
        if c == "both-quotes+$":
            return "COMPLETION/name-with-both-quote-kinds-and-dollar-keeps-the-escaping-backslash"
        if style == "raw-quote" and c in ("squote", "dquote", "both-quotes"):
            return "COMPLETION/quote-character-inside-an-opened-raw-string-keeps-its-backslash"
        if style == "raw-quote" and c in ("newline", "cr", "tab"):
            return "COMPLETION/control-character-written-as-escape-inside-an-opened-raw-string"
        if style == "bare" and c == "!":
            return "COMPLETION/bang-in-name-completed-unquoted"
        if style != "bare" and c in (";", "|") and outcome == "SyntaxError":
            return "COMPLETION/separator-character-typed-inside-an-opened-quote-splits-the-word"
        if style == "triple-quote" and c == "squote" and name.endswith("'"):
            return "COMPLETION/name-ending-in-a-quote-inside-an-opened-triple-quote"
        return None

    def run_fuzz(self, text, rec, exhaustive=True):
        from xonsh.parsers.completion_context import CompletionContextParser

        if not hasattr(self, "ccp"):
            self.ccp = CompletionContextParser()
        cursors = range(len(text) + 1) if len(text) <= 80 else sorted({0, len(text)} | {random.Random(text).randrange(len(text)) for _ in range(20)})
        rec.case(nontrivial=text if len(text) > 3 else None)
        for cur in cursors:
            rec.count("analyser_calls")
            case = {"text": text, "cursor": cur}
            try:
                with harness.alarm(10):
                    ctx = self.ccp.parse(text, cur)
            except harness.CaseTimeout:
                rec.violation("ANALYSER/HANG" + ("/unterminated-f-string" if "f'" in text or 'f"' in text else ""), case, None)
                return
            except BaseException as x:  # noqa
                rec.violation(f"ANALYSER/EXCEPTION/{type(x).__name__}", case, {"msg": str(x)[:120]})
                return
            if ctx is None:
                rec.count("analyser_none")
                continue
            if ctx.command is not None:
                cc = ctx.command
                before, after = text[:cur], text[cur:]
                if cc.arg_index >= 0 and "\\\n" not in text and not (before[-1:] in "'\"" and after[:1] in "'\""):
                    # (a backslash-newline inside the argument is joined away by the tokenizer, and a cursor strictly inside
                    #  a run of quote characters has no unique reading: both are outside what the statement can demand)
                    import re as _re

                    tq = "/doubled-brace-in-f-string" if (_re.search(r"[fF][rR]?['\"]", text) and ("{{" in text or "}}" in text)) else ""
                    if not before.endswith(cc.raw_prefix):
                        rec.violation("ANALYSER/raw_prefix-not-a-suffix-of-text-before-cursor" + tq, case, {"raw_prefix": cc.raw_prefix, "before": before[-40:]})
                        return
                    suf = cc.suffix + ("" if cc.is_after_closing_quote else cc.closing_quote)
                    if not after.startswith(suf):
                        rec.violation("ANALYSER/suffix-not-a-prefix-of-text-after-cursor" + tq, case, {"suffix": suf, "after": after[:40]})
                        return
                rec.count("analyser_command_context")
            if ctx.python is not None:
                pc = ctx.python
                if pc.prefix != pc.multiline_code[: pc.cursor_index]:
                    rec.violation("ANALYSER/python-prefix-inconsistent", case, None)
                    return
                rec.count("analyser_python_context")

    def run_case(self, case, rec):
        if not hasattr(self, "XSH"):
            self._setup()
        if "text" in case:
            return self.run_fuzz(case["text"], rec)
        rng = random.Random(case["name"])
        self.cur_class = case.get("class")
        self.one_name(case["name"], case["isdir"], rec, rng)

    def run_shard(self, sh, rec):
        self._setup()
        rng = random.Random(f"{sh['seed']}/C18/{sh['index']}")
        allcls = list(CLASSES) + POSITIONAL
        order = allcls[:]
        random.Random(f"{sh['seed']}/C18/classes").shuffle(order)
        mine = order[sh["index"]::16]
        names = []
        while len(names) < sh["names"]:
            for c in mine:
                names.append((make_name(rng, c), c))
        for i, (nm, c) in enumerate(names[: sh["names"]]):
            for isdir in (False, True):
                if i < 1 and not isdir:
                    rec.sample({"name": nm, "isdir": isdir, "class": c}, "name")
                self.cur_class = c
                self.one_name(nm, isdir, rec, rng)
        self.cur_class = None
        # analyser fuzz
        from checks.c03 import C03

        LEX = ["![", "$(", "$[", "!(", "@(", "@$(", ")", "]", "}", "{", "${", "'", '"', "'''", "\\", "\n", " ", " ", ";", "&&", "||", "|", "&", ">", ">>", "<", "2>", "and", "or", "echo", "ls", "x", "-l", "--k=v", "*", "~", "$HOME", "$", "@", "!", "r'", "p'", "f'", "#", "=", "a/b", "cd"]
        for i in harness.budgeted(range(sh["fuzz"]), rec):
            k = rng.random()
            if k < 0.5:
                t = "".join(rng.choice(LEX) + rng.choice(["", " "]) for _ in range(rng.randint(1, 14)))
            elif k < 0.8:
                t = rng.choice(["ls ", "echo 'a b' ", "cd /usr/", "git commit -m \"x", "echo $(ls ", "x = $(echo ", "ls | grep ", "echo a && ls ", "for i in x:\n    ls ", "ls 'a'", "ls r'a\\b", "![ls ", "echo @(x) ", "ls > ", "ls 2> "]) + rng.choice(["", "a", "'", '"', " ", "b c", "-", "$", ")"])
            else:
                t = "".join(rng.choice(list("ab '\"$()[]{}|&;<>\\\n!@#=-~*")) for _ in range(rng.randint(1, 30)))
            if i < 2:
                rec.sample({"text": t}, "analyser")
            self.run_fuzz(t, rec)


CHECK = C18()

if __name__ == "__main__":
    harness.main(CHECK)
