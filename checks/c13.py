"""C13 - a crash or I/O failure while saving history never damages what was already saved.

Fault enumeration with the fork engine (vlib/faults.py): for every history-rewriting operation
instance the audited file-system events and write() calls are counted in a dry run, then every
event k is turned into a kill point (process dies before the call takes effect), every write into
partial writes of 4 prefix lengths, and every call into a failing call (ENOSPC / EIO / EACCES /
EMFILE).  After each fault the directory is judged: every history file must be loadable (embedded
index and plain JSON agree) and hold a superset of its earlier commands (flush) or exactly its
old or its new version (delete / erasedups / unlock / gc).  SQLite operations are killed at
enumerated write-class syscalls with strace fault injection and judged by PRAGMA integrity_check
and row conservation.
"""

import json
import os
import random
import shutil
import sqlite3
import subprocess
import sys
import time

from vlib import faults, harness

ERRS = ["ENOSPC", "EIO", "EACCES", "EMFILE"]
PREFIXES = ["0", "1", "half", "len-1"]


def load_file(path):
    """-> ('ok', data) | ('unloadable', reason)"""
    import xonsh.lib.lazyjson as LJ

    try:
        with open(path, encoding="utf-8", newline="\n") as f:
            text = f.read()
    except OSError as e:
        return "unloadable", "read: " + str(e)
    if not text:
        return "unloadable", "empty file"
    try:
        lj = LJ.LazyJSON(path, reopen=False)
        data = lj.load()
        lj.close()
    except Exception as e:
        return "unloadable", f"LazyJSON: {type(e).__name__}"
    try:
        plain = json.loads(text)["data"]
    except Exception as e:
        return "unloadable", f"json.loads: {type(e).__name__}"
    if plain != data or not isinstance(data.get("cmds"), list):
        return "unloadable", "index and plain JSON disagree"
    return "ok", data


def cmds_of(data):
    return [(c["inp"], c.get("rtn"), tuple(c["ts"])) for c in data["cmds"]]


class C13:
    id = "C13"
    module = "checks.c13"
    level = "fault_enumeration"
    tables = True
    exhaustive = True
    rule = (
        "cases = (operation in {flush at_exit, background flush, delete, erasedups, stale-lock unlock, gc removal}, generated pre-state of 1-3 history files with 0-40 commands, ASCII and Unicode, file sizes "
        "straddling 8 KiB) x every audited event k of that operation instance x {kill before the call, partial write of 0 / 1 / half / len-1 bytes, failing call with ENOSPC / EIO / EACCES / EMFILE, kill right after a rename / remove took effect} plus the whole operation under RLIMIT_FSIZE limits around every staged file's size; "
        "exhaustive per operation instance (event count from a dry run); SQLite append / delete / erasedups / gc are killed at every enumerated write-class syscall via strace injection (subset in quick); "
        "distinct_nontrivial = distinct (operation, pre-state shape, event kind, fault mode) tuples in which the fault actually fired"
    )
    assumptions = [
        "crash = process kill (user-space buffers lost, completed system calls kept); power loss / fsync ordering is not modelled",
        "stray *.json.tmp files left behind by a killed operation are not a violation",
        "the expected 'new version' of each file comes from a fault-free run of the same operation instance in a forked child",
        "faults are injected at Python's file API boundary (audit events, write() calls on the objects the history code obtains); SQLite's C-level writes are reached with strace syscall injection instead",
    ]

    def shards(self, tier, seed):
        per = 3 if tier == "quick" else 40
        out = [dict(kind="json", index=i, n=per, timeout=500 if tier == "quick" else 3000) for i in range(14)]
        out += [dict(kind="sqlite", index=50 + i, n=(4 if tier == "quick" else 14), timeout=500 if tier == "quick" else 3000) for i in range(2)]
        return out

    def floors(self, c, tier):
        r = []
        if c.get("faults_fired", 0) < 400:
            r.append(f"only {c.get('faults_fired', 0)} injected faults fired")
        if c.get("kill_points", 0) < 100 or c.get("failing_calls", 0) < 100 or c.get("partial_writes", 0) < 50:
            r.append("kill / failing-call / partial-write classes not all exercised")
        for op in ("flush-at-exit", "flush-background", "delete", "erasedups", "unlock", "gc-remove"):
            if c.get("op_" + op, 0) < 1:
                r.append(f"operation {op} never enumerated")
        if c.get("sqlite_kill_runs", 0) < 5:
            r.append("sqlite strace engine did not run")
        return r

    def _setup(self):
        from vlib.session import make_session

        self.dd = os.path.join(os.environ["VERIF_SCRATCH"], f"data13-{os.getpid()}")
        self.hd = os.path.join(self.dd, "history_json")
        os.makedirs(self.hd, exist_ok=True)
        self.XSH, _, _ = make_session([], env={"XONSH_DATA_DIR": self.dd, "HISTCONTROL": set()}, data_dir=self.dd)
        import xonsh.history.json as J
        import xonsh.lib.lazyjson as LJ
        import xonsh.xoreutils.uptime as up

        self.J, self.LJ = J, LJ
        self.boot = up.boottime()
        self.template = os.path.join(self.dd, "template")

    # ------------------------------------------------------------------ pre-states
    def make_prestate(self, rng, op):
        shutil.rmtree(self.template, ignore_errors=True)
        os.makedirs(self.template)
        nfiles = rng.randint(1, 3)
        now = time.time()
        texts = ["ls -la", "echo hi", "del me", "dup cmd", "dup cmd", "ünïcode \U0001F600", "x" * rng.choice([10, 200, 900]), "multi\nline", "del another", "git status"]
        files = []
        for i in range(nfiles):
            ncmd = rng.choice([0, 1, 3, 10, 40])
            cmds = [{"inp": rng.choice(texts), "rtn": 0, "ts": [now - 5000 + i * 100 + j, now - 5000 + i * 100 + j + 0.5]} for j in range(ncmd)]
            locked = False
            ts = [now - 6000 + i, now - 5000 + i]
            if op == "unlock" and i == 0:
                locked, ts = True, [self.boot - 1000, None]
            meta = {"cmds": cmds, "sessionid": f"s{i}", "ts": ts, "locked": locked}
            name = f"xonsh-s{i}.json"
            with open(os.path.join(self.template, name), "w", newline="\n", encoding="utf-8") as fp:
                self.LJ.ljdump(meta, fp, sort_keys=True)
            files.append(name)
        return files

    def restore(self):
        for f in os.listdir(self.hd):
            os.remove(os.path.join(self.hd, f))
        for f in os.listdir(self.template):
            shutil.copy(os.path.join(self.template, f), os.path.join(self.hd, f))

    def snapshot(self):
        out = {}
        for f in sorted(os.listdir(self.hd)):
            if f.endswith(".json"):
                out[f] = load_file(os.path.join(self.hd, f))
        return out

    def make_op(self, op, rng, files):
        J = self.J
        session = os.path.join(self.hd, files[-1])
        now = time.time()
        new_cmds = [{"inp": f"new {k} " + "y" * rng.choice([5, 300, 3000]), "rtn": 0, "ts": [now + k, now + k + 0.5], "out": "o"} for k in range(rng.choice([1, 3, 12]))]

        def mk_hist():
            h = J.JsonHistory(filename=session, sessionid="live", buffersize=1000, gc=False)
            return h

        if op in ("flush-at-exit", "flush-background"):
            def run():
                h = mk_hist()
                for c in new_cmds:
                    h.append(dict(c))
                hf = h.flush(at_exit=(op == "flush-at-exit"))
                if hf is not None and op == "flush-background":
                    hf.join(30)
            return run
        if op == "delete":
            def run():
                mk_hist().delete("^del")
            return run
        if op == "erasedups":
            def run():
                mk_hist().erasedups()
            return run
        if op == "unlock":
            def run():
                J.JsonHistoryGC.files(None, only_unlocked=True)
            return run
        if op == "gc-remove":
            def run():
                gc = J.JsonHistoryGC(wait_for_shell=False, size=(1, "files"), force=True)
                gc.join(30)
            return run
        raise ValueError(op)

    # ------------------------------------------------------------------ judge
    def judge(self, op, pre, new, post, rec, case, fault):
        """pre/new/post: {file: ('ok', data)|('unloadable', why)}"""
        for f, (st, data) in post.items():
            if st != "ok":
                was = pre.get(f, ("absent", None))[0]
                rec.violation(f"{op}/{fault['where']}/{fault['mode']}/file-left-unloadable", case, {"file": f, "why": data, "before": was, "fault": fault})
                return False
        for f, (st, data) in pre.items():
            if st != "ok":
                continue
            old = cmds_of(data)
            if f not in post:
                if op == "gc-remove" and f not in new:
                    continue  # a complete removal is the complete new version
                if op == "gc-remove":
                    continue
                rec.violation(f"{op}/{fault['where']}/{fault['mode']}/history-file-vanished", case, {"file": f, "fault": fault})
                return False
            cur = cmds_of(post[f][1])
            if op.startswith("flush"):
                if cur[: len(old)] != old:
                    rec.violation(f"{op}/{fault['where']}/{fault['mode']}/earlier-commands-lost", case, {"file": f, "had": len(old), "has": len(cur), "fault": fault})
                    return False
            else:
                want_new = cmds_of(new[f][1]) if f in new and new[f][0] == "ok" else None
                if cur != old and cur != want_new:
                    rec.violation(f"{op}/{fault['where']}/{fault['mode']}/neither-old-nor-new-version", case, {"file": f, "old": len(old), "new": None if want_new is None else len(want_new), "has": len(cur), "fault": fault})
                    return False
                if post[f][1].get("locked") not in (data.get("locked"), (new.get(f, (None, {}))[1] or {}).get("locked") if f in new and new[f][0] == "ok" else None):
                    rec.violation(f"{op}/{fault['where']}/{fault['mode']}/lock-flag-neither-old-nor-new", case, {"file": f, "fault": fault})
                    return False
        return True

    def run_case(self, case, rec):
        if not hasattr(self, "XSH"):
            self._setup()
        if case["kind"] == "sqlite":
            return self.run_sqlite(case, rec)
        rng = random.Random(case["rseed"])
        op = case["op"]
        files = self.make_prestate(rng, op)
        mods = [self.J]
        rec.count("op_" + op)
        # fault-free run: event count + expected new versions
        self.restore()
        pre = self.snapshot()
        st, events, _ = faults.run_child(self.make_op(op, random.Random(case["rseed"] + "/op"), files), dict(mode="count", watch=self.dd), mods)
        new = self.snapshot()
        new_sizes = {os.path.getsize(os.path.join(self.hd, f)) for f in os.listdir(self.hd) if f.endswith(".json")}
        if st != "done":
            rec.violation(f"{op}/fault-free-run/{st}", case, None)
            return
        rec.count("events_enumerated", len(events))
        if not events:
            rec.count("operation_instances_without_events")
            return
        only = case.get("only")  # replay of one fault
        for k, ev in enumerate(events, start=1):
            where = ev[0]
            plans = [dict(k=k, mode="kill")] if where != "open-read" else []
            if where == "open-write":
                plans.append(dict(k=k, mode="kill-after-open"))
            if where in ("os.rename", "os.remove"):
                plans.append(dict(k=k, mode="kill-after"))
            plans += [dict(k=k, mode="fail", err=e) for e in ERRS]
            if where == "write":
                plans += [dict(k=k, mode="partial", prefix=p) for p in PREFIXES]
            for plan in plans:
                fault = {"k": k, "where": where, "target": ev[1], "mode": plan["mode"] + ("-" + plan.get("err", plan.get("prefix", "")) if plan["mode"] in ("fail", "partial") else "")}
                if only and (only["k"], only["mode"]) != (fault["k"], fault["mode"]):
                    continue
                self.restore()
                st, _, fired = faults.run_child(self.make_op(op, random.Random(case["rseed"] + "/op"), files), dict(watch=self.dd, **plan), mods)
                rec.case(nontrivial=(op, tuple(len(cmds_of(v[1])) if v[0] == "ok" else -1 for v in pre.values()), where, fault["mode"]) if fired else None)
                if st == "timeout":
                    rec.violation(f"{op}/{where}/{fault['mode']}/operation-hangs", dict(case, only=fault), None)
                    continue
                if fired:
                    rec.count("faults_fired")
                    rec.count({"kill": "kill_points", "kill-after-open": "kill_points", "kill-after": "kill_points", "fail": "failing_calls", "partial": "partial_writes"}[plan["mode"]])
                post = self.snapshot()
                self.judge(op, pre, new, post, rec, dict(case, only=fault), dict(fault, mode=plan["mode"]))
        # resource-limit faults: the file system refuses to let any file grow beyond N bytes (short write, then EFBIG).
        # N is taken around the sizes of the files the fault-free run produced, so every staged file is cut at its
        # start, in the middle, one byte before its end and at the block sizes Python's buffers flush with.
        sizes = sorted({os.path.getsize(os.path.join(self.template, f)) for f in os.listdir(self.template)} | new_sizes)
        limits = {0, 1, 100}
        for sz in sizes:
            limits.update({sz // 2, max(sz - 1, 0)})
        limits.update(b for b in (4096, 8192, 16384) if sizes and b < max(sizes) * 2)
        for lim in sorted(limits):
            fault = {"k": 0, "where": "write", "target": "*", "mode": f"fsize-{lim}"}
            if only and (only["k"], only["mode"]) != (fault["k"], fault["mode"]):
                continue
            self.restore()
            st, _, _ = faults.run_child(self.make_op(op, random.Random(case["rseed"] + "/op"), files), dict(watch=self.dd, mode="count", fsize=lim), mods)
            rec.case(nontrivial=(op, tuple(len(cmds_of(v[1])) if v[0] == "ok" else -1 for v in pre.values()), "fsize", min(lim, 9999) // 512))
            if st == "timeout":
                rec.violation(f"{op}/write/file-size-limit/operation-hangs", dict(case, only=fault), None)
                continue
            rec.count("faults_fired")
            rec.count("file_size_limit_runs")
            post = self.snapshot()
            self.judge(op, pre, new, post, rec, dict(case, only=fault), dict(fault, mode="file-size-limit"))

    # ------------------------------------------------------------------ SQLite via strace
    def run_sqlite(self, case, rec):
        rng = random.Random(case["rseed"])
        op = case["op"]
        fn = os.path.join(self.dd, f"h-{os.getpid()}.sqlite")
        script = os.path.join(self.dd, "sqlite_op.py")
        with open(script, "w") as f:
            f.write(
                "import sys, os, re\n"
                "from vlib.session import make_session\n"
                "XSH, _, _ = make_session([])\n"
                "import xonsh.history.sqlite as S\n"
                "fn, op = sys.argv[1], sys.argv[2]\n"
                "pid = os.fork()\n"  # the traced writes happen in a child that issued no write before
                "if pid:\n"
                "    _, st = os.waitpid(pid, 0); os._exit(0)\n"
                "if op == 'append':\n"
                "    for i in range(3): S.xh_sqlite_append_history({'inp': 'added %d' % i, 'rtn': 0, 'ts': [2e9 + i, 2e9 + i + .5]}, 'live', False, filename=fn)\n"
                "elif op == 'delete': S.xh_sqlite_delete_input_matching(re.compile('^del'), filename=fn)\n"
                "elif op == 'erasedups': S.xh_sqlite_erasedups(filename=fn)\n"
                "elif op == 'gc': S.xh_sqlite_delete_items(3, filename=fn)\n"
                "os._exit(0)\n"
            )

        def fresh():
            for ext in ("", "-wal", "-shm", "-journal"):
                try:
                    os.remove(fn + ext)
                except OSError:
                    pass
            con = sqlite3.connect(fn)
            con.execute("PRAGMA journal_mode=WAL")
            con.execute("CREATE TABLE xonsh_history (inp TEXT, rtn INTEGER, tsb REAL, tse REAL, sessionid TEXT, out TEXT, info TEXT, frequency INTEGER default 1, cwd TEXT)")
            r2 = random.Random(case["rseed"] + "/rows")
            for i in range(case["rows"]):
                con.execute("INSERT INTO xonsh_history (inp, rtn, tsb, tse, sessionid) VALUES (?,?,?,?,?)", (r2.choice(["ls", "del x", "del y", "del " + "w" * 300, "dup", "dup", "dup2", "dup2", "echo " + "z" * 200]), 0, 1.6e9 + i, 1.6e9 + i + 0.5, "old"))
            con.commit()
            con.close()

        def rows():
            con = sqlite3.connect(fn)
            try:
                ok = con.execute("PRAGMA integrity_check").fetchone()[0]
                rs = list(con.execute("SELECT inp, tsb, frequency FROM xonsh_history ORDER BY tsb"))
            finally:
                con.close()
            return ok, rs

        env = dict(os.environ)
        base = [sys.executable, script, fn, op]
        fresh()
        pre = rows()[1]
        tr = os.path.join(self.dd, "trace.txt")
        r = subprocess.run(["strace", "-f", "-o", tr, "-e", "trace=write,pwrite64,fsync,fdatasync,ftruncate,unlink,rename,renameat2"] + base, env=env, capture_output=True, timeout=300)
        if r.returncode != 0 and not os.path.exists(tr):
            rec.inconclusive("strace is not usable in this sandbox: " + r.stderr.decode()[-200:])
            return
        want = rows()[1]
        counts = {}
        with open(tr, errors="replace") as f:
            for line in f:
                parts = line.split(None, 1)
                if len(parts) == 2:
                    for sc in ("pwrite64", "write", "fsync", "fdatasync", "ftruncate", "unlink", "rename"):
                        if parts[1].startswith(sc + "("):
                            if sc == "write" and not (".sqlite" in parts[1] or parts[1].startswith("write(3") or parts[1].startswith("write(4") or parts[1].startswith("write(5")):
                                continue
                            counts[sc] = counts.get(sc, 0) + 1
        rec.count("sqlite_syscalls_enumerated", sum(counts.values()))
        points = [(sc, k) for sc, n in counts.items() for k in range(1, n + 1)]
        rng.shuffle(points)
        # the data-carrying calls first, spread over the operation (first, quartiles, last), then the rest at random
        spread = []
        for sc in ("pwrite64", "write", "fsync", "fdatasync"):
            n = counts.get(sc, 0)
            for k in sorted({1, n // 4, n // 2, 3 * n // 4, n} - {0}):
                spread.append((sc, k))
        rng.shuffle(spread)
        points = spread[: max(4, case["maxpoints"] * 2 // 3)] + [p for p in points if p not in spread]
        for sc, k in points[: case["maxpoints"]]:
            fresh()
            subprocess.run(["strace", "-f", "-o", "/dev/null", "-e", f"trace={sc}", "-e", f"inject={sc}:signal=SIGKILL:when={k}"] + base, env=env, capture_output=True, timeout=300)
            rec.count("sqlite_kill_runs")
            rec.count("faults_fired")
            rec.count("kill_points")
            rec.case(nontrivial=("sqlite", op, sc, k))
            try:
                ok, post = rows()
            except sqlite3.DatabaseError as e:
                rec.violation(f"sqlite/{op}/kill-at-{sc}/database-unreadable", case, {"k": k, "err": str(e)[:80]})
                continue
            if ok != "ok":
                rec.violation(f"sqlite/{op}/kill-at-{sc}/integrity-check-fails", case, {"k": k, "msg": ok[:80]})
            elif op == "append" and [x for x in post if x[1] < 2e9] != pre:
                rec.violation(f"sqlite/{op}/kill-at-{sc}/committed-rows-lost", case, {"k": k})
            elif op != "append" and post != pre and post != want:
                rec.violation(f"sqlite/{op}/kill-at-{sc}/neither-old-nor-new-rows", case, {"k": k, "pre": len(pre), "want": len(want), "post": len(post)})

        def judge(how, detail):
            try:
                ok, post = rows()
            except sqlite3.DatabaseError as e:
                rec.violation(f"sqlite/{op}/{how}/database-unreadable", case, dict(detail, err=str(e)[:80]))
                return
            if ok != "ok":
                rec.violation(f"sqlite/{op}/{how}/integrity-check-fails", case, dict(detail, msg=ok[:80]))
            elif op == "append" and [x for x in post if x[1] < 2e9] != pre:
                rec.violation(f"sqlite/{op}/{how}/committed-rows-lost", case, detail)
            elif op != "append" and post != pre and post != want:
                rec.violation(f"sqlite/{op}/{how}/neither-old-nor-new-rows", case, dict(detail, pre=len(pre), want=len(want), post=len(post)))

        # failing calls: the k-th write-class syscall returns ENOSPC / EIO instead of being killed
        wpoints = [(sc, k) for sc, k in points if sc in ("pwrite64", "write", "fsync", "fdatasync", "ftruncate")]
        for sc, k in wpoints[: max(2, case["maxpoints"] // 2)]:
            err = rng.choice(["ENOSPC", "EIO"])
            fresh()
            subprocess.run(["strace", "-f", "-o", "/dev/null", "-e", f"trace={sc}", "-e", f"inject={sc}:error={err}:when={k}"] + base, env=env, capture_output=True, timeout=300)
            rec.count("sqlite_failing_call_runs")
            rec.count("faults_fired")
            rec.count("failing_calls")
            rec.case(nontrivial=("sqlite", op, sc, k, err))
            judge(f"{err}-at-{sc}", {"k": k})
        # the file system refuses to let any file grow beyond N bytes (database, WAL and journal alike)
        import resource
        import signal as _sig

        size = os.path.getsize(fn) if os.path.exists(fn) else 8192
        for lim in sorted({0, 4096, size, size + 1024, size + 4096, 2 * size}):
            def limit(lim=lim):
                _sig.signal(_sig.SIGXFSZ, _sig.SIG_IGN)
                resource.setrlimit(resource.RLIMIT_FSIZE, (lim, lim))

            fresh()
            subprocess.run(base, env=env, capture_output=True, timeout=300, preexec_fn=limit)
            rec.count("sqlite_file_size_limit_runs")
            rec.count("faults_fired")
            rec.case(nontrivial=("sqlite", op, "fsize", lim // 1024))
            judge("file-size-limit", {"limit": lim})

    def run_shard(self, sh, rec):
        self._setup()
        rng = random.Random(f"{sh['seed']}/C13/{sh['index']}")
        if sh["kind"] == "sqlite":
            for i in harness.budgeted(range(sh["n"]), rec):
                case = {"kind": "sqlite", "op": ["append", "delete", "erasedups", "gc"][i % 4], "rseed": f"{sh['seed']}/C13/sq/{sh['index']}/{i}", "rows": rng.choice([5, 30]), "maxpoints": 9 if sh["tier"] == "quick" else 40}
                if i < 1:
                    rec.sample(case, "sqlite")
                self.run_case(case, rec)
            return
        ops = ["flush-at-exit", "flush-background", "delete", "erasedups", "unlock", "gc-remove"]
        for i in harness.budgeted(range(sh["n"]), rec):
            op = ops[(sh["index"] + i) % len(ops)]
            case = {"kind": "json", "op": op, "rseed": f"{sh['seed']}/C13/{sh['index']}/{i}"}
            if i < 1:
                rec.sample(case, "json")
            self.run_case(case, rec)


CHECK = C13()

if __name__ == "__main__":
    harness.main(CHECK)
