"""C05 - chains, exit codes and fail-fast follow the documented truth table.

Random chain trees over pipelines of recording aliases (and real `exitn N` processes) with scripted
exit codes, every capture form per operand, decorator placement, both operand spellings (valid Python
text / not) and the four flag settings run through Execer.exec (plus a CLI subset for the process
exit status); the executed-command log, the escaping exception and the "later statement ran" sentinel
are compared with the 60-line reference evaluator of DESIGN Appendix A.1.
"""

import os
import random
import subprocess
import sys

from vlib import harness

CODES = [0, 0, 1, 2, 127, 255]
FORMS = ["bare"] * 4 + ["![]"] * 3 + ["!()"] * 2 + ["$[]", "$()"]


PREFIX = ["c0"]  # case-unique tag prefix: late log entries of an earlier case are never attributed to this one


class Leaf:
    def __init__(self, lid, stages, form, deco, pyvalid):
        self.lid, self.stages, self.form, self.deco, self.pyvalid = lid, stages, form, deco, pyvalid

    @property
    def rc(self):
        return self.stages[-1][1]

    def text(self):
        parts = []
        for i, (kind, code) in enumerate(self.stages):
            tag = f"{PREFIX[0]}L{self.lid}s{i}"
            if kind == "alias":
                parts.append(f"x{code} -{tag}" if self.pyvalid else f"x{code} {tag} w")
            else:
                parts.append(f"exitn {code} {tag}")
        if self.deco:
            parts[-1] = f"@{self.deco} " + parts[-1]  # the pipeline's code is its last stage's: decorate that command
        s = " | ".join(parts)
        if self.form == "bare":
            return s
        if self.form == "![]":
            return f"![{s}]"
        if self.form == "$[]":
            return f"$[{s}]"
        if self.form == "$()":
            return f"$({s})"
        if self.form == "!()":
            return f"!({s})"
        if self.form == "@$()":
            return f"x0 -{PREFIX[0]}L{self.lid}outer @$({s})"
        raise ValueError(self.form)


class Node:
    def __init__(self, op, a, b, paren=False):
        self.op, self.a, self.b, self.paren = op, a, b, paren

    def text(self):
        s = f"{txt(self.a)} {self.op} {txt(self.b)}"
        return f"({s})" if self.paren else s


def txt(n):
    return n.text()


def leaves(n):
    if isinstance(n, Leaf):
        return [n]
    return leaves(n.a) + leaves(n.b)


class Raised(Exception):
    def __init__(self, rc):
        self.rc = rc


def reference(n, flags, log, variant="base", in_chain=False):
    """A.1: returns (truth, last pipeline that ran).

    variant "inboolop" is NOT the specification: it describes the behaviour of a listed known finding
    ($XONSH_SUBPROC_CMD_RAISE_ERROR is not applied to chain operands that were wrapped in parse phase 1)
    and is only used to attribute an observed deviation to that finding."""
    if isinstance(n, Leaf):
        log.append(n.lid)
        rc = n.rc
        cmd = flags["CMD"] and n.deco != "error_ignore" and n.form != "!()"
        if variant == "inboolop" and in_chain and not n.pyvalid:
            cmd = False
        if rc != 0 and ((n.deco == "error_raise" and n.form != "!()") or cmd):
            raise Raised(rc)
        return rc == 0, n
    t, p = reference(n.a, flags, log, variant, True)
    if n.op in ("and", "&&"):
        return (t, p) if not t else reference(n.b, flags, log, variant, True)
    return (t, p) if t else reference(n.b, flags, log, variant, True)


def expected(tree, flags, variant="base"):
    log = []
    try:
        t, p = reference(tree, flags, log, variant)
        exp = ("noraise", None)
        if flags["RAISE"] and p.rc != 0 and p.form != "!()" and p.deco != "error_ignore":
            exp = ("CalledProcessError", p.rc)
    except Raised as r:
        exp = ("CalledProcessError", r.rc)
    return log, exp


def gen_leaf(rng, counter, single_form=None):
    counter[0] += 1
    nst = rng.choice([1, 1, 1, 2, 3])
    stages = [(rng.choice(["alias", "alias", "alias", "proc"]), rng.choice(CODES)) for _ in range(nst)]
    form = single_form or rng.choice(FORMS)
    deco = rng.choice([None, None, None, "error_raise", "error_ignore"])
    pyvalid = form == "bare" and rng.random() < 0.5 and all(k == "alias" for k, _ in stages) and nst == 1 and not deco
    return Leaf(counter[0], stages, form, deco, pyvalid)


def gen_tree(rng, depth, counter, single_form=None):
    """A flat chain `atom op atom op atom` whose tree is what Python's precedence makes of the text
    (and/&& bind tighter than or/||, left-associative); atoms are leaves or parenthesised sub-chains."""
    n = rng.choice([1, 1, 2, 2, 3, 4]) if depth == 0 else rng.choice([2, 3])
    atoms, ops = [], []
    for i in range(n):
        if depth == 0 and n > 1 and rng.random() < 0.15:
            sub = gen_tree(rng, 1, counter, single_form)
            sub.paren = True
            for l in leaves(sub):
                l.pyvalid = False  # inside parentheses such text is read as Python (C03's listed paren-group class)
            atoms.append(sub)
        else:
            atoms.append(gen_leaf(rng, counter, single_form))
        if i:
            ops.append(rng.choice(["and", "or", "&&", "||"]))
    # precedence: first fold and-groups, then or
    groups, cur = [], atoms[0]
    gops = []
    for op, at in zip(ops, atoms[1:]):
        if op in ("and", "&&"):
            cur = Node(op, cur, at)
        else:
            groups.append(cur)
            gops.append(op)
            cur = at
    groups.append(cur)
    tree = groups[0]
    for op, g in zip(gops, groups[1:]):
        tree = Node(op, tree, g)
    return tree


class C05:
    id = "C05"
    module = "checks.c05"
    level = "exploration"
    tables = True
    rule = (
        "cases = (chain tree of depth <= 2 with and/or/&&/|| and optional parenthesised sub-chains; leaves = pipelines of 1-3 stages of recording aliases / real `exitn N` children with exit codes "
        "from {0,1,2,127,255}; capture form per operand in {bare, ![], $[], $(), !()}; @error_raise / @error_ignore placement; operand text valid Python or not; RAISE x CMD_RAISE flag settings; "
        "followed by a sentinel statement) executed by Execer.exec, plus CLI runs (-c, script file, stdin) for the exit status; distinct_nontrivial = distinct (tree shape, codes, forms, decorators, spelling, flags) with at least two leaves or a decorator"
    )
    assumptions = [
        "reference evaluator = DESIGN Appendix A.1, written from the env-var docs and the statement of the property: only !() and @error_ignore are exempt from the statement-level raise",
        "chains whose operands are captured forms returning non-pipeline values ($() str, $[] None) are judged on the executed-command log and exception only where the result is a pipeline-like object; see counters for what was judged log-only",
        "logs are read after every returned pipeline has ended and no proxy thread is alive (`!()` starts asynchronously)",
    ]

    def shards(self, tier, seed):
        per = 170 if tier == "quick" else 2500
        out = [dict(kind="exec", index=i, n=per, timeout=420 if tier == "quick" else 3000) for i in range(15)]
        out.append(dict(kind="cli", index=90, n=(40 if tier == "quick" else 600), timeout=600 if tier == "quick" else 3000))
        return out

    def floors(self, c, tier):
        r = []
        if c.get("chains_judged", 0) < 1500:
            r.append("fewer than 1500 chains judged")
        if c.get("raised_expected", 0) < 200 or c.get("noraise_expected", 0) < 200:
            r.append("raise / no-raise outcomes not both exercised")
        if c.get("cli_runs", 0) < 30:
            r.append("CLI exit-status runs missing")
        for f in ("flags_RAISE1_CMD0", "flags_RAISE0_CMD0", "flags_RAISE1_CMD1", "flags_RAISE0_CMD1"):
            if c.get(f, 0) < 50:
                r.append(f"{f} under-exercised")
        return r

    def _setup(self):
        from vlib.session import Recorder, make_sandbox_path, make_session

        self.sb = make_sandbox_path(os.environ["VERIF_SCRATCH"])
        self.work = os.path.join(os.environ["VERIF_SCRATCH"], f"c05-{os.getpid()}")
        os.makedirs(self.work, exist_ok=True)
        os.chdir(self.work)
        self.dump = os.path.join(self.work, "argv.jsonl")
        self.XSH, self.ex, self.ctx = make_session([self.sb], env={"PWD": self.work, "VERIF_EXITN_LOG": self.dump, "THREAD_SUBPROCS": True})
        self.R = Recorder()
        for code in set(CODES):
            self.XSH.aliases[f"x{code}"] = self.R.alias(f"x{code}", rc=code, out=f"o{code}\n")  # a failing command may well print something

    def execute(self, src, flags):
        from vlib.session import settle

        env = self.XSH.env
        env["XONSH_SUBPROC_RAISE_ERROR"] = flags["RAISE"]
        env["XONSH_SUBPROC_CMD_RAISE_ERROR"] = flags["CMD"]
        self.R.clear()
        try:
            os.remove(self.dump)
        except OSError:
            pass
        self.ctx["after"] = []
        self.ctx.pop("_", None)
        out = ("noraise", None)
        try:
            with harness.alarm(30):
                self.ex.exec(src + "\nafter.append(1)\n", glbs=self.ctx, locs=self.ctx, mode="exec")
        except harness.CaseTimeout:
            out = ("HANG", None)
        except subprocess.CalledProcessError as e:
            out = ("CalledProcessError", e.returncode)
        except SyntaxError as e:
            out = ("SyntaxError", str(e)[:80])
        except BaseException as e:  # noqa
            out = (type(e).__name__, str(e)[:80])
        # end asynchronous !() objects
        for k, v in list(self.ctx.items()):
            if type(v).__name__ in ("CommandPipeline", "HiddenCommandPipeline"):
                try:
                    with harness.alarm(30):
                        v.end()
                except harness.CaseTimeout:
                    # a pipeline that never ends is C06's listed livelock / deadlock race, not a chain-rule matter: drop the
                    # object, report the case as a hang (re-tried by the caller, only judged when reproducible)
                    self.ctx.pop(k, None)
                    out = ("HANG", None)
                except BaseException:  # noqa  (a stored !() object may raise here under CMD_RAISE)
                    pass
        settle(5)
        ran = []
        for e in self.R.snapshot():
            for a in e["argv"]:
                a = a.lstrip("-")
                if a.startswith(PREFIX[0] + "L") and "s" in a:
                    ran.append((e["t"], a[len(PREFIX[0]):]))
        try:
            with open(self.dump) as fh:
                for l in fh:
                    parts = l.split()
                    if len(parts) >= 2 and parts[1].startswith(PREFIX[0] + "L"):
                        ran.append((float(parts[0]), parts[1][len(PREFIX[0]):]))
        except OSError:
            pass
        ran = [a for _, a in sorted(ran)]
        return out, ran, list(self.ctx["after"])

    def run_case(self, case, rec):
        if not hasattr(self, "XSH"):
            self._setup()
        if case.get("kind") == "cli":
            return self.run_cli(case, rec)

        class Buf:
            """first attempt: collect; a deviation is reported only when a second execution shows it again
            (schedule-dependent losses belong to C06/C09 and are counted here as transient)"""

            def __init__(s):
                s.v = []

            def violation(s, mech, c, d):
                s.v.append((mech, c, d))

            def __getattr__(s, name):
                return getattr(rec, name)

        b1 = Buf()
        self.run_exec_case(case, b1)
        if not b1.v:
            return
        b2 = Buf()
        b2.count = lambda *a, **k: None
        b2.case = lambda *a, **k: None
        self.run_exec_case(case, b2)
        m2 = {m for m, _, _ in b2.v}
        for mech, c, d in b1.v:
            if mech in m2:
                rec.violation(mech, c, d)
            else:
                rec.count("transient_deviation_not_reproduced")

    def run_exec_case(self, case, rec):
        rng = random.Random(case["rseed"])
        counter = [0]
        self.ncase = getattr(self, "ncase", 0) + 1
        PREFIX[0] = f"c{self.ncase}"
        tree = gen_tree(rng, 0, counter, single_form=case.get("form"))
        flags = case["flags"]
        src = txt(tree)
        if isinstance(tree, Leaf) and rng.random() < 0.3 and tree.form in ("$()", "!()"):
            src = "_v = " + src
        # ordinary Python boolean code earlier in the same compilation unit must not change what the chain does
        r2 = random.Random(case["rseed"] + "/prelude")
        if r2.random() < 0.35:
            src = r2.choice(["_p = 1 or 2\n", "_q = (0 and 1)\n", "if 1 > 0 and 2 > 1:\n    _p = 3\n", "_r = not (1 and 0) or 5\n", "def _f(a, b):\n    return a and b or None\n"]) + src
            rec.count("programs_with_a_python_boolean_prelude")
        lv = leaves(tree)
        # ---- reference
        log, exp = expected(tree, flags)
        exp_after = [1] if exp[0] == "noraise" else []
        got, ran, after = self.execute(src, flags)
        if got[0] == "HANG":
            # deadlocks of the capture machinery are C06/C09's subject; here only a reproducible hang is reported
            rec.count("hangs_seen")
            got, ran, after = self.execute(src, flags)
            if got[0] != "HANG":
                rec.count("transient_hang_not_judged")
                return
        # group the log by leaf, in order of first appearance
        seen = []
        stages = {}
        for a in ran:
            lid = int(a[1:a.index("s")])
            stages.setdefault(lid, set()).add(a)
            if lid not in seen:
                seen.append(lid)
        by_id = {l.lid: l for l in lv}
        shape = (self.shape(tree), tuple(sorted(flags.items())))
        rec.case(nontrivial=shape if (len(lv) >= 2 or any(l.deco for l in lv)) else None)
        rec.count("chains_judged")
        rec.count(f"flags_RAISE{int(flags['RAISE'])}_CMD{int(flags['CMD'])}")
        rec.count("raised_expected" if exp[0] != "noraise" else "noraise_expected")
        for l in lv:
            rec.count("form_" + l.form)
        forms = {l.form for l in lv}
        detail = {"src": src, "flags": flags, "expected": {"ran": log, "outcome": exp, "after": exp_after}, "got": {"ran": seen, "outcome": got, "after": after}}
        valueforms = forms & {"$()", "$[]"}
        multi = len(lv) > 1
        feats = []
        if multi and valueforms:
            feats.append("chain-operand-is-" + "+".join(sorted(valueforms)))
        if flags["CMD"]:
            feats.append("CMD_RAISE")
        if not flags["RAISE"]:
            feats.append("RAISE-off")
        if any(l.deco for l in lv):
            feats.append("deco=" + "+".join(sorted({l.deco for l in lv if l.deco})))
        if any(isinstance(x, Node) and x.paren for x in self.nodes(tree)):
            feats.append("paren-group")
        if any(l.pyvalid for l in lv) and any(not l.pyvalid for l in lv):
            feats.append("mixed-spelling")
        elif any(l.pyvalid for l in lv):
            feats.append("python-valid-text")
        if "!()" in forms:
            feats.append("!()")
        f = "/".join(feats) or "plain"
        if multi and valueforms:
            # `$()` / `$[]` as chain operands evaluate to str / None: Python value semantics, not exit codes; the
            # documentation does not promise otherwise.  Such chains are run (crash / hang monitor) but not judged.
            rec.count("value_form_chains_run_not_judged")
            if got[0] not in ("noraise", "CalledProcessError", "SyntaxError") and "paren-group" not in feats:
                rec.violation(f"UNEXPECTED-EXCEPTION-{got[0]}/value-form-chain", case, detail)
                return
            # which operands run follows Python's value semantics here - but whatever ran, the statement still raises iff the
            # last command that actually ran failed (judged on the observed log, for plain chains only)
            if got[0] in ("noraise", "CalledProcessError") and seen and not flags["CMD"] and not any(l.deco for l in lv) and "paren-group" not in feats and forms <= {"bare", "![]", "$()", "$[]"}:
                last = by_id.get(seen[-1])
                if last is not None:
                    rec.count("value_form_chains_judged_on_the_observed_log")
                    should = bool(flags["RAISE"]) and last.rc != 0
                    if should != (got[0] == "CalledProcessError"):
                        rec.violation("VALUE-FORM-CHAIN/" + ("did-not-raise-although-the-last-command-that-ran-failed" if should else "raised-although-the-last-command-that-ran-succeeded") + "/last=" + last.form, case, detail)
                    elif should and got[1] != last.rc:
                        rec.violation("VALUE-FORM-CHAIN/wrong-returncode-in-exception/last=" + last.form, case, detail)
            return
        if any(l.form == "!()" and l.deco == "error_raise" for l in lv):
            rec.count("error_raise_inside_captured_object_not_judged")  # the two documented rules conflict
            return
        if got[0] in ("SyntaxError",):
            if "paren-group" in feats:
                rec.count("parenthesised_chain_group_rejected_see_C03")
                return
            rec.violation(f"REJECTED/{f}", case, detail)
            return
        if got[0] not in ("noraise", "CalledProcessError"):
            if "paren-group" in feats and got[0] == "NameError":
                rec.count("parenthesised_chain_group_rejected_see_C03")  # the group was read as Python
                return
            rec.violation(f"UNEXPECTED-EXCEPTION-{got[0]}/{f}", case, detail)
            return
        # pipelines: every stage of a pipeline that ran must have run
        for lid in seen:
            want = {f"L{lid}s{i}" for i in range(len(by_id[lid].stages))} if lid in by_id else set()
            if lid in by_id and by_id[lid].form != "!()" and stages[lid] != want:
                rec.count("informational_pipeline_stage_not_logged")  # not part of the statement
        if (seen, got, after) != (log, exp, exp_after) and flags["CMD"] and multi:
            log2, exp2 = expected(tree, flags, "inboolop")
            if (seen, got, after) == (log2, exp2, [1] if exp2[0] == "noraise" else []):
                rec.violation("CMD_RAISE/not-applied-to-chain-operands-whose-text-is-not-valid-python", case, detail)
                return
        if seen != log:
            which = "ran-more" if len(seen) > len(log) else "ran-fewer" if len(seen) < len(log) else "ran-other"
            rec.violation(f"COMMANDS-RUN-DIFFER/{which}/{f}", case, detail)
            return
        if got[0] != exp[0]:
            rec.violation(("RAISED-UNEXPECTEDLY/" if got[0] != "noraise" else "DID-NOT-RAISE/") + f, case, detail)
            return
        if got[0] == "CalledProcessError" and got[1] != exp[1]:
            rec.violation(f"WRONG-RETURNCODE-IN-EXCEPTION/{f}", case, detail)
            return
        if after != exp_after:
            rec.violation(f"LATER-STATEMENT-" + ("RAN-AFTER-RAISE/" if after else "SKIPPED-WITHOUT-RAISE/") + f, case, detail)
            return
        rec.count("ok")

    def nodes(self, n):
        if isinstance(n, Leaf):
            return [n]
        return [n] + self.nodes(n.a) + self.nodes(n.b)

    def shape(self, n):
        if isinstance(n, Leaf):
            return ("L", tuple(n.stages), n.form, n.deco, n.pyvalid)
        return (n.op, n.paren, self.shape(n.a), self.shape(n.b))

    # ------------------------------------------------------------------ CLI exit status
    def run_cli(self, case, rec):
        rng = random.Random(case["rseed"])
        code = rng.choice([0, 1, 2, 3, 127, 255])
        kind = rng.choice(["last-fails", "last-ok", "exit-N", "chain", "raise-off", "python-exception", "ignored"])
        if kind == "last-fails":
            body, exp = f"sh -c 'exit {code}'\n", (lambda rc: rc != 0) if code else (lambda rc: rc == 0)
        elif kind == "last-ok":
            body, exp = f"sh -c 'exit {code}' || true\necho done\n", lambda rc: rc == 0
        elif kind == "exit-N":
            body, exp = f"echo a\nexit {code}\n", lambda rc: rc == code
        elif kind == "chain":
            body, exp = f"true && sh -c 'exit {code}'\necho later\n", (lambda rc: rc != 0) if code else (lambda rc: rc == 0)
        elif kind == "raise-off":
            body, exp = f"$XONSH_SUBPROC_RAISE_ERROR = False\nsh -c 'exit {code}'\necho later\n", lambda rc: rc == 0
        elif kind == "ignored":
            body, exp = f"@error_ignore sh -c 'exit {code}'\necho later\n", lambda rc: rc == 0
        else:
            body, exp = "x = 1\nraise ValueError('boom')\n", lambda rc: rc != 0
        how = rng.choice(["-c", "script", "stdin"])
        env = dict(os.environ, PATH=self.sb + ":/usr/bin:/bin", XONSH_SHOW_TRACEBACK="0")
        base = [sys.executable, "-m", "xonsh", "--no-rc", "--no-env"]
        try:
            if how == "-c":
                r = subprocess.run(base + ["-c", body], env=env, capture_output=True, text=True, timeout=120, stdin=subprocess.DEVNULL, cwd=self.work)
            elif how == "script":
                p = os.path.join(self.work, f"s{os.getpid()}.xsh")
                with open(p, "w") as fh:
                    fh.write(body)
                r = subprocess.run(base + [p], env=env, capture_output=True, text=True, timeout=120, stdin=subprocess.DEVNULL, cwd=self.work)
            else:
                r = subprocess.run(base, env=env, input=body, capture_output=True, text=True, timeout=120, cwd=self.work)
        except subprocess.TimeoutExpired:
            rec.violation(f"CLI/HANG/{kind}/{how}", case, {"body": body})
            return
        rec.case(nontrivial=(kind, how, code))
        rec.count("cli_runs")
        later = "later" in r.stdout
        detail = {"body": body, "how": how, "rc": r.returncode, "stdout": r.stdout[-200:], "stderr": r.stderr[-300:]}
        if not exp(r.returncode):
            rec.violation(f"CLI/WRONG-EXIT-STATUS/{kind}/{how}", case, detail)
        elif kind in ("chain", "last-fails") and code and later:
            rec.violation(f"CLI/LATER-STATEMENT-RAN-AFTER-RAISE/{kind}/{how}", case, detail)
        elif kind in ("raise-off", "ignored") and not later:
            rec.violation(f"CLI/LATER-STATEMENT-SKIPPED/{kind}/{how}", case, detail)

    def run_shard(self, sh, rec):
        self._setup()
        rng = random.Random(f"{sh['seed']}/C05/{sh['index']}")
        for i in harness.budgeted(range(sh["n"]), rec):
            if sh["kind"] == "cli":
                case = {"kind": "cli", "rseed": f"{sh['seed']}/C05/cli/{i}"}
            else:
                case = {"kind": "exec", "rseed": f"{sh['seed']}/C05/{sh['index']}/{i}", "flags": {"RAISE": rng.random() < 0.7, "CMD": rng.random() < 0.35}}
            if i < 2:
                rec.sample(case, sh["kind"])
            self.run_case(case, rec)


CHECK = C05()

if __name__ == "__main__":
    harness.main(CHECK)
