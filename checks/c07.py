"""C07 - redirections and pipes deliver each stream to exactly the documented place.

Every stage of a generated pipeline writes a unique tag to stdout (`<Oi>`), one to stderr (`<Ei>`) and,
when it has an input, echoes it wrapped in `<Ii>...</Ii>`; pre-existing target files hold `<OLD>`, the
input file `<IN>`.  The worker's fds 1 and 2 are regular files ("the terminal") for the duration of the
case.  After the command (and every helper thread) has finished, the place of every tag - target file,
inside the stdin of stage j, the capture, the capture's `.err`, terminal fd 1 / fd 2 - is compared, as a
multiset, with the place computed by the routing model of DESIGN Appendix A.2, whose operator table is
hard-coded here from docs/tutorial.rst ("Input/Output Redirection") and never read from xonsh.
"""

import os
import random
import re
import sys

from vlib import harness

# ---- documented operator table (tutorial) -------------------------------------------------------
SPELL = {
    "OUT_W": [">", "out>", "o>", "1>"],
    "OUT_A": [">>", "out>>", "o>>", "1>>"],
    "ERR_W": ["err>", "e>", "2>"],
    "ERR_A": ["err>>", "e>>", "2>>"],
    "ALL_W": ["all>", "a>", "&>"],
    "ALL_A": ["all>>", "a>>", "&>>"],
    "E2O": ["err>out", "err>o", "e>out", "e>o", "2>&1"],
    "O2E": ["out>err", "out>e", "o>err", "o>e", "1>&2"],
    "A2P": ["a>p", "all>p"],
    "E2P": ["e>p", "err>p"],
    "IN": ["<"],
}
# spellings the tokenizer accepts beyond the documented ones: must behave as their class or be rejected
UNDOC = {
    "E2O": ["2>1", "e>1", "err>1", "2>o", "2>out", "e>&1", "err>&1"],
    "O2E": ["1>2", "o>2", "out>2", "1>e", "1>err", "o>&2", "out>&2"],
}
FILE_CLASSES = ("OUT_W", "OUT_A", "ERR_W", "ERR_A", "ALL_W", "ALL_A")
KINDS = ["ext", "atag", "ptag", "rtag", "utag"]
PIPE_KINDS = ["ext", "atag", "ptag", "rtag"]
FORMS = ["bare", "$[]", "![]", "$()", "!()", "@$()"]

# the four capture kinds of xonsh (built_ins.subproc_*): forms of one kind run the same code path
CAPTURE_KIND = {"bare": "hiddenobject", "![]": "hiddenobject", "$[]": "uncaptured", "$()": "stdout", "@$()": "stdout", "!()": "object"}
TAG = re.compile(r"<(/?)(OLD|IN|[OEIQ]\d+)>")


def locate(sinks):
    """{tag: sorted list of places}.  The place of a tag is its *direct* container: 'in:Ij' when it sits
    inside the stdin echo of stage j (innermost), else the name of the sink - so a stream misrouted by
    stage i is reported once, for stage i, and not again for everything that stage carried."""
    out = {}
    for sink, text in sinks.items():
        stack = []
        for m in TAG.finditer(text or ""):
            close, name = m.group(1), m.group(2)
            here = "in:" + stack[-1] if stack else sink
            if name[0] == "I" and name != "IN":
                if close:
                    if stack and stack[-1] == name:
                        stack.pop()
                    else:
                        out.setdefault("~unbalanced", []).append(sink)
                else:
                    stack.append(name)
                continue
            out.setdefault(name, []).append(here)
    return {k: sorted(v) for k, v in out.items()}


# ---- routing model (DESIGN A.2) ------------------------------------------------------------------
class Conflict(Exception):
    def __init__(self, cls, strict):
        self.cls, self.strict = cls, strict


def route(case, soft_ok=False):
    """Returns (expected sinks dict, flexible) or raises Conflict(class, strict).  strict=True: the
    documentation makes this an error; strict=False: undocumented combination - error or model routing."""
    stages, form = case["stages"], case["form"]
    n = len(stages)
    files = {name: "<OLD>\n" for name in case.get("existing", [])}
    sinks = {"term1": "", "term2": "", "cap": "", "caperr": ""}
    soft = None
    plan = []
    for i, st in enumerate(stages):
        piped = i < n - 1
        ops = st["ops"]
        outs = [o for o in ops if o["cls"] in ("OUT_W", "OUT_A", "ALL_W", "ALL_A", "O2E", "A2P")]
        errs = [o for o in ops if o["cls"] in ("ERR_W", "ERR_A", "ALL_W", "ALL_A", "E2O", "E2P", "A2P")]
        ins = [o for o in ops if o["cls"] == "IN"]
        if len(outs) > 1:
            raise Conflict("two-sinks-for-stdout", True)
        if len(errs) > 1:
            raise Conflict("two-sinks-for-stderr", True)
        if len(ins) > 1:
            raise Conflict("two-inputs", True)
        if any(o["cls"] in ("A2P", "E2P") for o in ops) and not piped:
            raise Conflict("pipe-redirect-without-pipe", True)
        if ins and i > 0 and not soft_ok:
            raise Conflict("input-file-and-pipe", False)
        for o in ops:
            if o.get("multi"):
                raise Conflict("redirect-target-is-several-words", True)
            if o["cls"] == "IN" and o.get("missing"):
                raise Conflict("input-file-missing", True)
            if o["cls"] in FILE_CLASSES and o.get("nodir"):
                raise Conflict("target-directory-missing", True)
        if any(o["cls"] == "O2E" for o in ops) and any(o["cls"] == "E2O" for o in ops):
            raise Conflict("circular-merge", False)
        has_e2p = any(o["cls"] == "E2P" for o in ops)
        if piped and outs and outs[0]["cls"] != "A2P" and not has_e2p:
            soft = soft or "stdout-redirect-and-pipe"  # bash lets the pipe run dry; xonsh may reject
        d_out = ("pipe", i + 1) if piped else (("cap",) if form in ("$()", "!()", "@$()") else ("term1",))
        d_err = ("errdefault",)
        o_cls = outs[0]["cls"] if outs else None
        e_cls = errs[0]["cls"] if errs else None
        if o_cls in ("OUT_W", "OUT_A", "ALL_W", "ALL_A"):
            out = ("file", outs[0]["target"], o_cls[-1])
        elif o_cls == "A2P":
            out = ("pipe", i + 1)
        elif o_cls == "O2E":
            out = None
        else:
            out = d_out
        if e_cls in ("ERR_W", "ERR_A", "ALL_W", "ALL_A"):
            err = ("file", errs[0]["target"], e_cls[-1])
        elif e_cls in ("A2P", "E2P"):
            err = ("pipe", i + 1)
        elif e_cls == "E2O":
            err = out if out is not None else d_err
        else:
            err = d_err
        if out is None:
            out = err
        plan.append((out, err, ins[0]["target"] if ins else None))
    if soft and not soft_ok:
        raise Conflict(soft, False)
    # simulate
    pipe_in = {}
    opened = set()
    for i, (out, err, inp) in enumerate(plan):
        st = stages[i]
        if inp is not None:
            stdin = "<IN>\n"
        elif i > 0:
            stdin = pipe_in.get(i, "")
        else:
            stdin = None
        otext = f"<O{i}>\n" + (f"<I{i}>{stdin}</I{i}>\n" if stdin is not None else "") + f"<Q{i}>\n"
        etext = f"<E{i}>\n"
        for dest, text in ((out, otext), (err, etext)):
            if dest[0] == "file":
                name, mode = dest[1], dest[2]
                if name not in opened:
                    opened.add(name)
                    if mode == "W" or name not in files:
                        files[name] = ""
                files[name] += text
            elif dest[0] == "pipe":
                pipe_in[dest[1]] = pipe_in.get(dest[1], "") + text
            else:
                sinks[dest[0]] = sinks.get(dest[0], "") + text
    for name, text in files.items():
        sinks["file:" + name] = text
    return sinks


def expected_places(case, soft_ok=False):
    sinks = route(case, soft_ok)
    exp = locate(sinks)
    # unredirected stderr: the property does not say where it goes under !() - terminal fd 2 or the object's .err
    flex = {}
    for tag, places in exp.items():
        flex[tag] = [p for p in places]
    return flex, set(k for k in sinks if k.startswith("file:"))


def places_match(exp, act, form):
    """errdefault matches term2 always, caperr under !() only."""
    if len(exp) != len(act):
        return False
    act = list(act)
    for p in exp:
        if p == "errdefault":
            cands = ["term2"] + (["caperr"] if form == "!()" else [])
        else:
            cands = [p]
        for c in cands:
            if c in act:
                act.remove(c)
                break
        else:
            return False
    return True


def sinkclass(p):
    if p.startswith("file:"):
        return "file"
    if p.startswith("in:"):
        return "pipe"
    return p


# ---- rendering -----------------------------------------------------------------------------------
def render(case):
    parts = []
    for i, st in enumerate(case["stages"]):
        reads = i > 0 or any(o["cls"] == "IN" for o in st["ops"])
        cmd = {"ext": "tagger"}.get(st["kind"], st["kind"])
        words = [cmd, str(i)] + (["in"] if reads else [])
        pre = []
        for o in st["ops"]:
            w = [o["sp"]] + ([o["target"]] if o["cls"] in FILE_CLASSES or o["cls"] == "IN" else [])
            if o.get("prefix"):
                pre += w
            else:
                words += w
        parts.append(" ".join(pre + words))
    s = " | ".join(parts)
    f = case["form"]
    if f == "bare":
        return s
    if f in ("$[]", "![]"):
        return f"{f[:2]}{s}]"
    if f in ("$()", "!()"):
        return f"r = {f[:2]}{s})"
    if f == "@$()":
        return f"argv_dump @$({s})"
    raise ValueError(f)


_FAM = {"OUT_W": "OUT", "OUT_A": "OUT", "ERR_W": "ERR", "ERR_A": "ERR", "ALL_W": "ALL", "ALL_A": "ALL"}


def opsig(case, i, stream=None):
    """operator families of stage i; with stream ('O'/'E') only the operators that take part in routing that stream."""
    fams = [_FAM.get(o["cls"], o["cls"]) for o in case["stages"][i]["ops"]]
    if stream:
        fams = [f for f in fams if f != "IN"]  # where the input comes from plays no part in routing the outputs
    return "+".join(sorted(fams)) or "none"


def proxy_of(case, i):
    """which machinery runs the stage: external process, alias on a thread, alias on the main thread - and how the alias writes"""
    kind = case["stages"][i]["kind"]
    style = {"atag": "direct", "ptag": "print", "rtag": "direct", "utag": "direct"}.get(kind)  # print() vs handed/returned output
    if kind == "ext":
        return "ext" + ("" if case.get("threads", True) else "-nothread")
    if kind == "utag" or not case.get("threads", True):
        return "unthreaded:" + style
    return "threaded:" + style


# ---- generator -----------------------------------------------------------------------------------
def mkop(cls, sp, i, rng, existing, idx=0):
    o = {"cls": cls, "sp": sp}
    if cls in FILE_CLASSES:
        o["target"] = f"f{i}{cls[0].lower()}{idx}"
        if rng.random() < 0.5:
            existing.append(o["target"])
    elif cls == "IN":
        o["target"] = "inp"
    return o


def gen_single(rng, cls, sp, kind, form, undocumented=False):
    existing = []
    ops = [mkop(cls, sp, 0, rng, existing)]
    case = {"stages": [{"kind": kind, "ops": ops}], "form": form, "existing": existing, "threads": True}
    if undocumented:
        case["undoc"] = True
    if cls in ("A2P", "E2P"):
        # needs a following pipe to be legal
        case["stages"].append({"kind": rng.choice(PIPE_KINDS), "ops": []})
        if kind == "utag":
            case["stages"][0]["kind"] = "atag"
    if cls == "IN" and rng.random() < 0.3:
        ops[0]["prefix"] = True
    return case


COMBOS = [
    ("OUT", "ERR"), ("OUT", "E2O"), ("E2O", "OUT"), ("ERR", "O2E"), ("O2E", "ERR"), ("IN", "OUT"), ("IN", "ALL"), ("IN", "E2O"),
    ("OUT", "ERR", "IN"), ("IN", "O2E"), ("ALL", "IN"),
]
PIPE_COMBOS = [("OUT", "E2P"), ("E2P", "OUT"), ("E2P",), ("A2P",), ("E2O",), ("ERR",), ("IN",), ("IN", "E2O"), ("IN", "A2P"), ("ERR", "IN"), ()]
BAD = [
    ("OUT", "OUT"), ("ERR", "ERR"), ("ALL", "ERR"), ("ALL", "OUT"), ("OUT", "ALL"), ("ERR", "E2O"), ("E2O", "ERR"), ("OUT", "O2E"), ("O2E", "OUT"),
    ("A2P",), ("E2P",), ("IN", "IN"), ("IN-missing",), ("OUT-nodir",), ("ERR-nodir",), ("ALL-nodir",), ("OUT", "A2P"), ("E2O", "E2O"),
    ("OUT-multi",), ("ERR-multi",), ("ALL-multi",), ("OUT-multi",),
]


def pick(rng, fam, i, existing, idx):
    if fam.startswith("IN"):
        o = mkop("IN", "<", i, rng, existing)
        if fam.endswith("missing"):
            o["target"], o["missing"] = "missing_input", True
        if fam.endswith("multi"):
            for nm in ("m1.txt", "m2.txt"):
                if nm not in existing:
                    existing.append(nm)
            o["target"], o["multi"] = '@(["m1.txt", "m2.txt"])', True
        return o
    if fam.endswith("-multi"):
        # a target that expands to two words (a glob with two matches, a two-element @() list): an error, never the first word
        cls = fam.split("-")[0] + rng.choice(["_W", "_A"])
        o = mkop(cls, rng.choice(SPELL[cls]), i, rng, existing, idx)
        for nm in ("m1.txt", "m2.txt"):
            if nm not in existing:
                existing.append(nm)
        o["target"], o["multi"] = rng.choice(['@(["m1.txt", "m2.txt"])', '@(["m1.txt", "new.txt"])', '@(["new1.txt", "new2.txt", "m2.txt"])']), True
        return o
    nodir = fam.endswith("-nodir")
    fam = fam.split("-")[0]
    if fam in ("OUT", "ERR", "ALL"):
        cls = fam + rng.choice(["_W", "_A"])
    else:
        cls = fam
    o = mkop(cls, rng.choice(SPELL[cls]), i, rng, existing, idx)
    if nodir:
        o["target"], o["nodir"] = "nodir/x", True
    return o


def gen_random(rng):
    existing = []
    r = rng.random()
    n = rng.choice([1, 1, 2, 2, 2, 3, 3, 4])
    form = rng.choice(FORMS)
    stages = []
    for i in range(n):
        kind = rng.choice(KINDS if n == 1 else PIPE_KINDS)
        last = i == n - 1
        if r < 0.22 and (last or rng.random() < 0.5):
            combo = rng.choice(BAD)
            if not last and combo in (("A2P",), ("E2P",)):
                combo = ("OUT", "OUT")
        elif last:
            combo = rng.choice(COMBOS + [(), ("OUT",), ("ERR",), ("ALL",), ("E2O",), ("O2E",)])
            if i > 0:
                combo = tuple(c for c in combo if c != "IN") if rng.random() < 0.9 else combo
        else:
            combo = rng.choice(PIPE_COMBOS)
            if i > 0 and rng.random() < 0.9:
                combo = tuple(c for c in combo if c != "IN")
        ops = [pick(rng, fam, i, existing, k) for k, fam in enumerate(combo)]
        for o in ops:
            if o["cls"] == "IN" and rng.random() < 0.25:
                o["prefix"] = True
        stages.append({"kind": kind, "ops": ops})
    threads = rng.random() < 0.85
    if not threads:
        for st in stages:  # AVOID: print() in an alias on the main thread bypasses every redirect (known finding; directed witnesses kept)
            if st["kind"] == "ptag":
                st["kind"] = "atag"
    if sum(1 for st in stages if st["kind"] != "ext") >= 2:
        # AVOID: with two alias stages in one pipeline the sys.stdout redirect of the stage that finishes first is undone for
        # the other one (restore is not LIFO across threads), so print() output of the survivor goes to the terminal -
        # known finding with a directed witness; handle-writing aliases are unaffected
        for st in stages:
            if st["kind"] == "ptag":
                st["kind"] = "atag"
    if not threads and n > 1:
        for st in stages:  # without $THREAD_SUBPROCS callable aliases are documented as not pipeable
            st["kind"] = "ext"
    return {"stages": stages, "form": form, "existing": existing, "threads": threads}


def enumerate_singles(rng, full):
    """every documented spelling x stage kind (x capture form when full) as the only redirect of a stage."""
    out = []
    for cls, sps in SPELL.items():
        for sp in sps:
            for kind in KINDS:
                forms = FORMS if full else [rng.choice(FORMS)]
                for form in forms:
                    out.append(gen_single(rng, cls, sp, kind, form))
    for cls, sps in UNDOC.items():
        for sp in sps:
            for kind in KINDS if full else [rng.choice(KINDS)]:
                out.append(gen_single(rng, cls, sp, kind, rng.choice(FORMS), undocumented=True))
    return out


DIRECTED = [
    # tutorial's closing example
    {"stages": [{"kind": "ext", "ops": [{"cls": "E2O", "sp": "e>o"}, {"cls": "IN", "sp": "<", "target": "inp"}]},
                {"kind": "ext", "ops": [{"cls": "OUT_W", "sp": ">", "target": "output"}, {"cls": "ERR_A", "sp": "e>>", "target": "errors"}]}],
     "form": "bare", "existing": ["errors"], "threads": True},
    {"stages": [{"kind": "ext", "ops": [{"cls": "OUT_W", "sp": "o>", "target": "out0"}, {"cls": "E2P", "sp": "e>p"}]}, {"kind": "ext", "ops": []}],
     "form": "bare", "existing": [], "threads": True},
    # print() in an alias stage while another alias stage of the same pipeline finishes first
    {"stages": [{"kind": "ext", "ops": []}, {"kind": "rtag", "ops": []}, {"kind": "ptag", "ops": [{"cls": "OUT_W", "sp": ">", "target": "f2"}]}], "form": "bare", "existing": [], "threads": True},
    # print() inside an alias that runs on the main thread
    {"stages": [{"kind": "ptag", "ops": [{"cls": "OUT_W", "sp": ">", "target": "f0"}]}], "form": "bare", "existing": [], "threads": False},
    {"stages": [{"kind": "ptag", "ops": [{"cls": "ERR_W", "sp": "e>", "target": "f0"}]}], "form": "$()", "existing": [], "threads": False},
]


# ---- the check -----------------------------------------------------------------------------------
class C07:
    id = "C07"
    module = "checks.c07"
    level = "exploration"
    tables = True
    rule = (
        "cases = every documented redirect spelling (44) x stage kind {external process, alias writing to its handles, alias using print(), alias returning (out, err, rc), unthreadable alias} "
        "x capture form {bare, $[], ![], $(), !(), @$()} as a single redirect, plus seeded pipelines of 1-4 stages with operator combinations (o>+e>, e>o+>, o>e+e>, < with everything, o> f e>p |, a>p |), "
        "existing and missing targets, $THREAD_SUBPROCS on/off, and conflicting / malformed combinations (incl. output targets expanding to several words); every stage writes <Oi> to stdout, <Ei> to stderr, then <Qi> to stdout again; judged = multiset of places (file, stdin of stage j, capture, .err, terminal fd 1 / fd 2) of every "
        "<Oi>/<Qi>/<Ei>/<OLD>/<IN> tag vs the routing model; distinct_nontrivial = distinct (stage kinds, operator spellings, form, target states)"
    )
    assumptions = [
        "operator table hard-coded from docs/tutorial.rst; unredirected stderr may land on terminal fd 2 or, under !(), in the object's .err (the property does not say which)",
        "order of tags inside one sink is not judged (the property says completely and only, not ordered); truncation of an already opened target by a command that is then rejected is not judged",
        "combinations the tutorial does not mention (`> f |`, `o>e |`, `< f` on a piped stage, o>e with e>o) may either be rejected or follow the model; undocumented spellings (2>1, o>&2 ...) may be rejected or behave as their class",
        "a deviation is reported only when a second execution of the same case shows it again (schedule-dependent losses are C06's subject)",
    ]

    def shards(self, tier, seed):
        per = 110 if tier == "quick" else 1800
        out = [dict(kind="enum", index=i, timeout=600 if tier == "quick" else 5000) for i in range(6)]
        out += [dict(kind="rand", index=10 + i, n=per, timeout=600 if tier == "quick" else 5000) for i in range(10)]
        return out

    def floors(self, c, tier):
        r = []
        if c.get("tags_judged", 0) < 3000:
            r.append("fewer than 3000 tags judged")
        if c.get("set:documented_spellings", 0) < sum(len(v) for v in SPELL.values()):
            r.append("not every documented spelling exercised")
        for k in KINDS:
            if c.get("kind_" + k, 0) < 40:
                r.append(f"stage kind {k} under-exercised")
        if c.get("errors_expected_and_raised", 0) < 30:
            r.append("conflicting/malformed redirects under-exercised")
        return r

    def _setup(self):
        from vlib.session import make_sandbox_path, make_session
        from xonsh.tools import unthreadable

        scratch = os.environ["VERIF_SCRATCH"]
        self.sb = make_sandbox_path(scratch)
        self.work = os.path.join(scratch, f"c07-{os.getpid()}")
        os.makedirs(self.work, exist_ok=True)
        self.dump = os.path.join(scratch, f"c07-argv-{os.getpid()}.jsonl")
        self.XSH, self.ex, self.ctx = make_session([self.sb], env={"PWD": self.work, "THREAD_SUBPROCS": True, "VERIF_ARGV_OUT": self.dump, "XONSH_SUBPROC_RAISE_ERROR": False, "VERIF_TAGGER_LATE": "1"})

        def text(stdin):
            if stdin is None:
                return ""
            d = stdin.read()
            return d.decode() if isinstance(d, bytes) else d

        def body(args, stdin):
            tag = args[0]
            o = "<O%s>\n" % tag
            if len(args) > 1 and args[1] == "in":
                o += "<I%s>%s</I%s>\n" % (tag, text(stdin), tag)
            return o, "<E%s>\n" % tag

        # every stage writes stdout, then stderr, then stdout once more (<Q>): two streams sent to one file must interleave
        def atag(args, stdin=None, stdout=None, stderr=None):
            o, e = body(args, stdin)
            stdout.write(o)
            stdout.flush()
            stderr.write(e)
            stderr.flush()
            stdout.write("<Q%s>\n" % args[0])
            stdout.flush()
            return 0

        def ptag(args, stdin=None):
            o, e = body(args, stdin)
            print(o, end="", flush=True)
            print(e, end="", file=sys.stderr, flush=True)
            print("<Q%s>" % args[0], flush=True)
            return 0

        def rtag(args, stdin=None):
            o, e = body(args, stdin)
            return (o + "<Q%s>\n" % args[0], e, 0)

        def utag(args, stdin=None, stdout=None, stderr=None):
            return atag(args, stdin, stdout, stderr)

        al = self.XSH.aliases
        al["atag"], al["ptag"], al["rtag"], al["utag"] = atag, ptag, rtag, unthreadable(utag)
        os.chdir(self.work)
        self.t1 = os.open(os.path.join(scratch, f"c07-T1-{os.getpid()}"), os.O_RDWR | os.O_CREAT | os.O_APPEND, 0o600)
        self.t2 = os.open(os.path.join(scratch, f"c07-T2-{os.getpid()}"), os.O_RDWR | os.O_CREAT | os.O_APPEND, 0o600)
        self.real1, self.real2 = os.dup(1), os.dup(2)

    def execute(self, case, src):
        from vlib.session import read_argv_dump, repair_std, reset_jobs, settle

        for f in os.listdir(self.work):
            p = os.path.join(self.work, f)
            if os.path.isdir(p):
                import shutil

                shutil.rmtree(p, ignore_errors=True)
            else:
                os.unlink(p)
        for name in case.get("existing", []):
            with open(os.path.join(self.work, name), "w") as fh:
                fh.write("<OLD>\n")
        with open(os.path.join(self.work, "inp"), "w") as fh:
            fh.write("<IN>\n")
        try:
            os.unlink(self.dump)
        except OSError:
            pass
        self.XSH.env["THREAD_SUBPROCS"] = bool(case.get("threads", True))
        self.ctx.pop("r", None)
        self.stale_jobs = reset_jobs()
        self.std_repaired = repair_std()
        sys.stdout.flush()
        sys.stderr.flush()
        os.ftruncate(self.t1, 0)
        os.ftruncate(self.t2, 0)
        os.dup2(self.t1, 1)
        os.dup2(self.t2, 2)
        err = None
        try:
            try:
                with harness.alarm(12):
                    self.ex.exec(src + "\n", glbs=self.ctx, locs=None, mode="exec", filename="<c07>")
                    r = self.ctx.get("r")
                    if r is not None and hasattr(r, "end"):
                        r.end()
            except harness.CaseTimeout:
                err = ("HANG", "")
            except BaseException as e:  # noqa
                err = (type(e).__name__, str(e)[:160])
            settled = settle(5)
            for stream in (sys.stdout, sys.stderr):
                try:
                    stream.flush()
                except ValueError:
                    pass  # closed by xonsh: repaired (and counted) before the next case
        finally:
            os.dup2(self.real1, 1)
            os.dup2(self.real2, 2)
        sinks = {"term1": os.pread(self.t1, 1 << 20, 0).decode("utf-8", "replace"), "term2": os.pread(self.t2, 1 << 20, 0).decode("utf-8", "replace")}
        r = self.ctx.get("r")
        if case["form"] == "$()":
            sinks["cap"] = r if isinstance(r, str) else ""
        elif case["form"] == "!()" and r is not None:
            sinks["cap"] = getattr(r, "out", "") or ""
            sinks["caperr"] = getattr(r, "err", "") or ""
        elif case["form"] == "@$()":
            d = read_argv_dump(self.dump)
            sinks["cap"] = "\n".join("\n".join(e["argv"][1:]) for e in d)
        for f in sorted(os.listdir(self.work)):
            p = os.path.join(self.work, f)
            if f != "inp" and os.path.isfile(p):
                with open(p, errors="replace") as fh:
                    sinks["file:" + f] = fh.read()
        return err, sinks, settled

    def judge(self, case):
        """one execution -> list of (mechanism, detail)"""
        src = render(case)
        try:
            exp, exp_files = expected_places(case)
            conflict = None
        except Conflict as c:
            exp, exp_files, conflict = None, set(), c
        err, sinks, settled = self.execute(case, src)
        act = locate(sinks)
        nothread = "" if case.get("threads", True) else "/nothread"
        form = case["form"]
        kinds = "|".join(s["kind"] for s in case["stages"])
        out = []
        info = {"src": src, "error": err, "sinks": {k: v[:300] for k, v in sinks.items() if v}}
        ran = any(t[0] in "OEQ" and t not in ("OLD",) for t in act)
        if err and err[0] == "HANG":
            # never-returning commands are C06's subject (races in the capture machinery); the session may hold stuck
            # state afterwards, so it is rebuilt and the case is not judged here
            self._setup()
            return [], "hang-not-judged"
        if conflict is not None and (conflict.strict and not case.get("undoc")):
            if err and err[0] in ("XonshError", "SyntaxError") and not ran:
                return [], "error-ok"
            if err and conflict.cls == "redirect-target-is-several-words" and "Unsupported redirect" in str(err[1]) and not ran:
                return [], "error-ok"  # raised as a bare Exception by resolve_args_list
            if err is None or ran:
                return [(f"NO-ERROR/{conflict.cls}/{kinds}{nothread}", info)], "error-missing"
            return [(f"WRONG-ERROR/{conflict.cls}/{err[0]}/{kinds}{nothread}", info)], "error-wrong"
        if err and err[0] in ("XonshError", "SyntaxError") and not ran and (conflict is not None or case.get("undoc")):
            return [], "rejected-undocumented"
        if conflict is not None:
            # undocumented combination that xonsh accepted: judge against the soft model below
            try:
                exp, exp_files = expected_places_soft(case)
            except Conflict:
                return [], "accepted-undocumented-unmodelled"
        nalias = sum(1 for s in case["stages"] if s["kind"] != "ext")
        if err is not None and nalias >= 2 and err[0] == "ValueError" and "closed file" in err[1]:
            # two alias stages race on sys.stdout / sys.stderr (redirect restore and close are not per-thread): C06/C09 findings
            return [("RACE/alias-stages-2+/write-to-closed-file", info)], "raised"
        if err is not None:
            return [(f"RAISED/{err[0]}/{proxy_of(case, len(case['stages']) - 1)}/{opsig(case, len(case['stages']) - 1, 'any')}/{CAPTURE_KIND[form]}", info)], "raised"
        info["expected"] = exp
        info["actual"] = act
        n = len(case["stages"])
        m = re.search(r"Exception in \{'cls': '(\w+)'.*?\n(\w+)", sinks.get("term2", "") + sinks.get("caperr", ""), re.S)
        if m:
            # the alias itself blew up: one mechanism for the stage, not one per tag it failed to write
            i = next((i for i, s in enumerate(case["stages"]) if "'" + s["kind"] + "'" in sinks.get("term2", "") + sinks.get("caperr", "")), 0)
            return [(f"ALIAS-CRASHED/{m.group(1)}/{m.group(2)}/{'stdin-from-file' if 'IN' in opsig(case, i) else opsig(case, i)}", info)], "routed"
        for tag in sorted(set(exp) | set(act)):
            if tag[0] == "I" and tag != "IN":
                continue
            e, a = exp.get(tag, []), act.get(tag, [])
            if places_match(e, a, form):
                continue
            if not a and e and all(p.startswith("in:I") and not act.get("O" + p[4:]) for p in e):
                continue  # the stage that should have carried it wrote nothing anywhere: reported once, for that stage

            def who_of(i, stream=None):
                return f"{proxy_of(case, i)}/{opsig(case, i, stream)}/" + (f"final/{CAPTURE_KIND[form]}" if i == n - 1 else "piped")

            if tag[0] in "OEQ" and tag[1:].isdigit():
                i = int(tag[1:])
                who = who_of(i, "O" if tag[0] == "Q" else tag[0]) if i < n else "?"
            else:
                # <OLD>/<IN>: attribute to the stage owning the file
                who = "target-file"
                for i, st in enumerate(case["stages"]):
                    for o in st["ops"]:
                        if (tag == "OLD" and o.get("target") and any(p == "file:" + o["target"] for p in e + a)) or (tag == "IN" and o["cls"] == "IN"):
                            who = who_of(i)
            ecls = ",".join(sorted(sinkclass(p) for p in e)) or "nowhere"
            acls = ",".join(sorted(sinkclass(p) for p in a)) or "nowhere"
            if nalias >= 2 and acls == "nowhere" and case.get("threads", True):
                out.append(("RACE/alias-stages-2+/stream-lost", info))
            else:
                out.append((f"MISROUTE/{who}/{('O' if tag[0] == 'Q' else tag[0]) if tag[1:].isdigit() else tag}:{ecls}->{acls}", info))
        return out, "routed"

    def run_case(self, case, rec):
        if not hasattr(self, "XSH"):
            self._setup()
        key = (tuple((s["kind"], tuple((o["sp"], o.get("target") in case.get("existing", []), o.get("prefix", False)) for o in s["ops"])) for s in case["stages"]), case["form"], case.get("threads", True))
        rec.case(nontrivial=repr(key) if any(s["ops"] for s in case["stages"]) or len(case["stages"]) > 1 else None)
        v1, outcome = self.judge(case)
        rec.count("outcome_" + outcome)
        if self.stale_jobs:
            rec.count("unfinished_jobs_left_by_previous_case", self.stale_jobs)
        if self.std_repaired:
            for what in self.std_repaired:
                rec.count("sys_" + what + "_by_previous_case")
        for s in case["stages"]:
            rec.count("kind_" + s["kind"])
            for o in s["ops"]:
                rec.setadd("spellings", o["sp"])
                if not case.get("undoc") and o["sp"] in SPELL.get(o["cls"], []):
                    rec.setadd("documented_spellings", o["sp"])
        rec.count("form_" + case["form"])
        if outcome == "error-ok":
            rec.count("errors_expected_and_raised")
        if outcome == "routed" and not v1:
            rec.count("tags_judged", 2 * len(case["stages"]) + len(case.get("existing", [])))
        if not v1:
            return
        v2, _ = self.judge(case)
        m2 = {m for m, _ in v2}
        for mech, info in v1:
            if mech in m2:
                rec.violation(mech, case, info)
                rec.count("tags_judged")
            else:
                rec.count("transient_deviation_not_reproduced")

    def run_shard(self, sh, rec):
        self._setup()
        rng = random.Random(f"{sh['seed']}/C07/{sh['index']}")
        full = sh["tier"] != "quick"
        if sh["kind"] == "enum":
            cases = enumerate_singles(random.Random(f"{sh['seed']}/C07/enum"), full)
            cases = DIRECTED + cases
            cases = cases[sh["index"]::6]
        else:
            cases = [gen_random(rng) for _ in range(sh["n"])]
        for i, case in enumerate(harness.budgeted(cases, rec)):
            if i < 2:
                rec.sample({"src": render(case)}, sh["kind"])
            self.run_case(case, rec)


def expected_places_soft(case):
    """Model routing for combinations the tutorial leaves open, when xonsh accepts them: the explicit
    redirect wins over the pipe (the pipe then carries nothing from that stream)."""
    return expected_places(case, soft_ok=True)


CHECK = C07()

if __name__ == "__main__":
    harness.main(CHECK)
