"""C16 - $PWD, the process directory and the directory stack stay in step.

Random histories of cd / pushd / popd / dirs (all argument forms) over a real directory
tree with symlinks, deleted and inaccessible directories (DAC capabilities dropped so that
permission failures are real even as root).  After every step: invariants on the live
state + comparison with the reference model of DESIGN Appendix A.4.
"""

import contextlib
import ctypes
import io
import os
import random
import shutil

from vlib import harness


def drop_dac_caps():
    """Drop CAP_DAC_OVERRIDE / CAP_DAC_READ_SEARCH (stay uid 0) so mode bits apply to us."""
    libc = ctypes.CDLL(None, use_errno=True)

    class Hdr(ctypes.Structure):
        _fields_ = [("version", ctypes.c_uint32), ("pid", ctypes.c_int)]

    class Data(ctypes.Structure):
        _fields_ = [("effective", ctypes.c_uint32), ("permitted", ctypes.c_uint32), ("inheritable", ctypes.c_uint32)]

    hdr = Hdr(0x20080522, 0)
    data = (Data * 2)()
    if libc.capget(ctypes.byref(hdr), data) != 0:
        return False
    mask = ~((1 << 1) | (1 << 2)) & 0xFFFFFFFF
    data[0].effective &= mask
    data[0].permitted &= mask
    data[0].inheritable &= mask
    return libc.capset(ctypes.byref(hdr), data) == 0


DIRS = ["A", "B", "C", "A/x", "A/y", "B/z", "sp ace", "-dash", "+3", "~t", "C/deep/er", "A2"]


class Model:
    def __init__(self, P):
        self.P, self.O, self.S = P, ".", []


class C16:
    id = "C16"
    module = "checks.c16"
    level = "exploration"
    tables = True
    rule = (
        "cases = histories of 20 steps of cd / cd - / cd -N / cd -P / pushd [dir|+N|-N|-n dir] / popd [+N|-N|-n] / dirs [-c|-p|-v|-l|+N|-N] and external "
        "rmdir/mkdir/chmod of stack or target directories, under random $AUTO_PUSHD, $PUSHD_MINUS, $CDPATH, $DIRSTACK_SIZE in {0,1,3,20} (also changed in mid-history), cd() managers entered inline or made earlier and entered from another directory; every step is an evaluation; "
        "distinct_nontrivial = distinct (settings, op, argument class, stack depth before, outcome) tuples with stack depth >= 2 or a failing step"
    )
    assumptions = [
        "the reference model is DESIGN Appendix A.4 (docstrings of dirstack.py quoting the bash manual); 'reports an error' = non-zero rc or any stderr text",
        "when the logical ($PWD-relative) and physical (process-cwd-relative) reading of a relative target disagree (paths through symlinks) only the invariants are judged and the model is resynchronised",
        "the current directory itself and its ancestors are never removed by the harness",
        "after a reported violation the model is resynchronised from the live state so that one defect is not counted again at every later step",
    ]

    def shards(self, tier, seed):
        n = 16
        per = 900 if tier == "quick" else 12000
        return [dict(kind="hist", index=i, n=per, steps=20, timeout=420 if tier == "quick" else 3000) for i in range(n)]

    def floors(self, c, tier):
        r = []
        if c.get("steps", 0) < 10000:
            r.append("fewer than 10000 steps observed")
        for k in ("failed_steps", "deep_stack_steps", "chdir_denied_steps", "missing_target_steps", "symlink_steps"):
            if c.get(k, 0) < 20:
                r.append(f"{k} under-exercised ({c.get(k, 0)})")
        if c.get("withcd_stored_manager_entered_from_another_directory", 0) < 20:
            r.append("stored cd() managers entered from another directory under-exercised")
        return r

    # ------------------------------------------------------------------
    def _setup(self):
        from vlib.session import make_session

        self.XSH, _, _ = make_session([])
        import xonsh.dirstack as D

        self.D = D
        self.home = os.path.realpath(os.environ["HOME"])
        self.base = os.path.join(self.home, f"t16-{os.getpid()}")
        self.sib = self.home + "x"
        self.caps = drop_dac_caps()

    def build_tree(self):
        root = self.base
        if os.path.isdir(root):
            for dp, dn, fn in os.walk(root):
                for d in dn:
                    with contextlib.suppress(OSError):
                        os.chmod(os.path.join(dp, d), 0o755)
            shutil.rmtree(root, ignore_errors=True)
        for d in DIRS:
            os.makedirs(os.path.join(root, d))
        os.symlink(os.path.join(root, "A/x"), os.path.join(root, "lnk"))
        os.symlink("B", os.path.join(root, "rel-lnk"))
        os.symlink(os.path.join(root, "nowhere"), os.path.join(root, "broken"))
        open(os.path.join(root, "file"), "w").close()
        # a sibling of $HOME whose name starts with $HOME's text (for the `dirs` tilde rule)
        self.sib = self.home + "x"
        os.makedirs(os.path.join(self.sib, "d1"), exist_ok=True)
        return root

    # -- reference model -------------------------------------------------
    def model_step(self, m, op, args, env, root):
        """-> ('ok'|'err'|'amb', detail).  Mutates m only on 'ok'."""
        P, S = m.P, list(m.S)
        L = [P] + S
        B, F = ("-", "+") if env["PUSHD_MINUS"] else ("+", "-")
        size = env["DIRSTACK_SIZE"]

        def target(d):
            """Resolve d against $PWD.  None = not a usable directory; 'amb' when physical/logical disagree."""
            if not os.path.isdir(os.path.join(P, d)):
                return None  # every component must exist (no textual `x/..` cancelling)
            logical = os.path.abspath(os.path.join(P, d))
            phys = os.path.abspath(os.path.join(os.path.realpath(P), d))
            if os.path.realpath(logical) != os.path.realpath(phys):
                return "amb"
            if os.path.isdir(logical) and os.access(logical, os.X_OK):
                return logical
            return None

        def change(t, physical=False):
            m.O = P
            m.P = os.path.realpath(t) if physical else t

        def index(a):
            if len(a) < 2 or a[0] not in "+-":
                return None
            try:
                n = int(a[1:])
            except ValueError:
                return None
            return None if n < 0 else (a[0], n)

        if op == "cd":
            a = list(args)
            physical = bool(a and a[0] == "-P")
            if physical:
                a = a[1:]
            if len(a) > 1:
                return "err", "too many arguments"
            if not a:
                d = env["HOME"]
            else:
                d = a[0]
                t0 = target(d)
                if t0 == "amb":
                    return "amb", "symlinked relative path"
                if t0 is None and not os.path.isdir(os.path.join(P, d)):
                    if d == "-":
                        d = m.O
                    elif d.startswith("-"):
                        try:
                            n = int(d[1:])
                        except ValueError:
                            return "err", "bad -N"
                        if n == 0:
                            return "ok", "no-op"
                        if n < 0 or n > len(S):
                            return "err", "out of range"
                        d = S[n - 1]
                    else:
                        hit = None
                        for cdp in env["CDPATH"]:
                            cand = os.path.join(cdp, d)
                            if os.path.exists(cand):
                                hit = cand
                                break
                        if hit is None:
                            return "err", "no such directory"
                        d = hit
            t = target(d)
            if t == "amb":
                return "amb", "symlinked relative path"
            if t is None:
                return "err", "not a usable directory"
            if env["AUTO_PUSHD"]:
                m.S = ([P] + S)[:size]
            change(t, physical)
            return "ok", None
        if op == "pushd":
            a = list(args)
            nocd = "-n" in a
            a = [x for x in a if x not in ("-n", "-q", "--")]
            if len(a) > 1:
                return "err", "too many arguments"
            if not a:
                if nocd:
                    return "amb", "pushd -n without argument"
                if not S:
                    return "err", "empty stack"
                t = target(S[0])
                if t in (None, "amb"):
                    return ("err", "target unusable") if t is None else ("amb", "")
                m.S = ([P] + S[1:])[:size]
                change(t)
                return "ok", None
            d = a[0]
            if os.path.isdir(os.path.join(P, d)):
                t = target(d)
                if t == "amb" or d[:1] in "+-":
                    return "amb", "directory named like an option"
                if nocd:
                    m.S = ([d] + S)[:size]
                    return "ok", None
                if t is None:
                    return "err", "inaccessible"
                m.S = ([P] + S)[:size]
                change(t)
                return "ok", None
            r = index(d)
            if r is None:
                return "err", "malformed"
            if nocd:
                return "amb", "pushd -n +N"
            sign, n = r
            if n > len(S):
                return "err", "out of range"
            i = n if sign == B else len(L) - 1 - n
            L2 = L[i:] + L[:i]
            if L2[0] != P:
                t = target(L2[0])
                if t in (None, "amb"):
                    return ("err", "target unusable") if t is None else ("amb", "")
                m.O = P
            m.P = L2[0]
            m.S = L2[1:][:size]
            return "ok", "rotate" if i else "no-op"
        if op == "popd":
            a = list(args)
            nocd = "-n" in a
            a = [x for x in a if x not in ("-n", "-q", "--")]
            if len(a) > 1:
                return "err", "too many arguments"
            if not a:
                if not S:
                    return "err", "empty stack"
                if nocd:
                    m.S = S[1:]
                    return "ok", None
                t = target(S[0])
                if t in (None, "amb"):
                    return ("err", "target unusable") if t is None else ("amb", "")
                m.S = S[1:]
                change(t)
                return "ok", None
            r = index(a[0])
            if r is None:
                return "err", "malformed"
            sign, n = r
            if not S or n > len(S):
                return "err", "out of range"
            i = n if sign == B else len(L) - 1 - n
            if i == 0:
                if nocd:
                    m.S = S[1:]
                    return "ok", None
                t = target(S[0])
                if t in (None, "amb"):
                    return ("err", "target unusable") if t is None else ("amb", "")
                m.S = S[1:]
                change(t)
                return "ok", None
            m.S = S[: i - 1] + S[i:]
            return "ok", None
        if op == "dirs":
            a = list(args)
            if "-c" in a:
                m.S = []
                return "ok", ""
            long_ = "-l" in a
            idx = [x for x in a if x[:1] in "+-" and x[1:].isdigit()]
            flags = [x for x in a if x not in idx]
            if any(x not in ("-l", "-v", "-p", "-c") for x in flags):
                return "err", "malformed"
            home = os.path.expanduser("~")

            def show(p):
                p = os.path.expanduser(p)
                if not long_ and (p == home or p.startswith(home + os.sep)):
                    return "~" + p[len(home):]
                return p

            o = [show(p) for p in L]
            if idx:
                sign, n = idx[0][0], int(idx[0][1:])
                if n >= len(o):
                    return "err", "out of range"
                return "ok", o[n if sign == B else len(o) - 1 - n] + "\n"
            if "-v" in flags:
                pad = len(str(len(o) - 1))
                return "ok", "\n".join(" " * (pad - len(str(i))) + f"{i} {e}" for i, e in enumerate(o)) + "\n"
            if "-p" in flags:
                return "ok", "\n".join(o) + "\n"
            return "ok", " ".join(o) + "\n"
        return "amb", "unknown op"

    # ------------------------------------------------------------------
    def gen_step(self, rng, root, stack_len):
        r = rng.random()
        names = ["A", "B", "C", "x", "y", "z", "..", "../B", "lnk", "lnk/..", "rel-lnk", root + "/C", "sp ace", "A/x", "-dash", "+3", "~t", "deep/er", "../..", ".", "A2", self.sib + "/d1", "./-dash", "./+3"]
        names = names + [os.path.join(root, d) for d in DIRS] * 2
        bad = ["nonexist", "file", "broken", "A/nope", "nope/.."]
        if r < 0.10:
            victim = rng.choice(["A/x", "A/y", "B/z", "C/deep/er", "B", "sp ace", "A2"])
            return ("ext", [rng.choice(["rmdir", "chmod000", "chmod755", "mkdir"]), victim])
        if r < 0.115:
            # the limit is changed in mid-session: the next pushd has to cut the stack down to it
            return ("setsize", [rng.choice([0, 1, 2, 3, 5, 20])])
        if r < 0.14:
            return ("withcd", [rng.choice(names + bad), rng.random() < 0.4, rng.choice(["inline", "inline", "make", "stored", "stored"])])
        if r < 0.18:
            return ("fixcwd", [rng.choice(names)])
        if r < 0.44:
            args = rng.choice([[], ["-"], ["-1"], ["-2"], ["-3"], ["-0"], ["-x"], ["--"], ["-9"], ["A", "B"], ["-P", "lnk"], ["-P", "rel-lnk"], ["-P"]] + [[rng.choice(bad)]] * 2 + [[rng.choice(names)]] * 9)
            return ("cd", args)
        if r < 0.65:
            args = rng.choice([[], [], ["+0"], ["+1"], ["+2"], ["+3"], ["-0"], ["-1"], ["-2"], ["+9"], ["+x"], ["+"], ["-"], ["--"], ["-n", "A"], ["-n", root + "/B"], ["-n", root + "/A/y"], ["-q", "C"]] + [[rng.choice(bad)]] * 2 + [[rng.choice(names)]] * 16)
            return ("pushd", args)
        if r < 0.85:
            args = rng.choice([[], [], [], ["+0"], ["+1"], ["+2"], ["-0"], ["-1"], ["-2"], ["+9"], ["-x"], ["3"], ["+"], ["-n"], ["-n", "+1"], ["-q"]])
            return ("popd", args)
        args = rng.choice([[], ["-p"], ["-v"], ["-l"], ["-c"], ["+0"], ["+1"], ["-0"], ["-1"], ["+9"], ["-l", "-v"], ["+x"]])
        return ("dirs", args)

    def argclass(self, op, args):
        a = [x for x in args if x not in ("-q",)]
        if not a:
            return "noarg"
        out = []
        for x in a:
            if x in ("-n", "-P", "-c", "-p", "-v", "-l", "-"):
                out.append(x)
            elif x[:1] in "+-" and x[1:].isdigit():
                out.append("N")
            elif x[:1] in "+-":
                out.append("malformed")
            else:
                out.append("dir")
        return ",".join(out)

    def state(self):
        try:
            cwd = os.getcwd()
        except OSError:
            cwd = None
        env = self.XSH.env
        return (cwd, env["PWD"], env.get("OLDPWD"), list(self.D.DIRSTACK))

    def run_case(self, case, rec):
        if not hasattr(self, "XSH"):
            self._setup()
        XSH, D = self.XSH, self.D
        root = self.build_tree()
        env = case["env"]
        envm = dict(env, HOME=os.path.join(root, "A"), CDPATH=[os.path.join(root, c) for c in env["CDPATH"]])
        for k in ("PUSHD_MINUS", "AUTO_PUSHD", "DIRSTACK_SIZE"):
            XSH.env[k] = env[k]
        XSH.env["CDPATH"] = envm["CDPATH"]
        XSH.env["HOME"] = envm["HOME"]
        XSH.env["PUSHD_SILENT"] = True
        os.chdir(root)
        self.stored_cm = None
        XSH.env["PWD"] = root
        with contextlib.suppress(KeyError):
            del XSH.env["OLDPWD"]
        D.DIRSTACK = []
        m = Model(root)
        rel = lambda p: (os.path.relpath(p, root) if p and os.path.isabs(p) else p)
        trace = []
        for step in case["steps"]:
            op, args = step[0], list(step[1])
            trace.append([op, args])
            if op == "ext":
                what, victim = args
                p = os.path.join(root, victim)
                cur = os.path.realpath(os.getcwd())
                rp = os.path.realpath(p)
                if cur == rp or cur.startswith(rp + os.sep):
                    continue  # never pull the current directory from under the shell
                with contextlib.suppress(OSError):
                    if what == "rmdir":
                        os.chmod(p, 0o755)
                        shutil.rmtree(p)
                    elif what == "mkdir":
                        os.makedirs(p, exist_ok=True)
                    elif what == "chmod000" and self.caps:
                        os.chmod(p, 0)
                    elif what == "chmod755":
                        os.chmod(p, 0o755)
                continue
            if op == "setsize":
                env = dict(env, DIRSTACK_SIZE=args[0])
                envm = dict(envm, DIRSTACK_SIZE=args[0])
                XSH.env["DIRSTACK_SIZE"] = args[0]
                rec.count("steps_setsize" + ("_below_current_depth" if args[0] < len(D.DIRSTACK) else ""))
                continue
            if op in ("withcd", "fixcwd"):
                self.special_step(op, args, rec, case, trace, m)
                continue
            before = self.state()
            depth = len(before[3])
            mb = (m.P, m.O, list(m.S))
            exp, info = self.model_step(m, op, args, envm, root)
            f = {"cd": D.cd, "pushd": D.pushd, "popd": D.popd, "dirs": D.dirs}[op]
            buf = io.StringIO()
            out = None
            with contextlib.redirect_stderr(buf), contextlib.redirect_stdout(io.StringIO()):
                try:
                    r = f(list(args))
                except SystemExit as x:  # argparse rejected the arguments
                    r = (None, "usage", x.code if isinstance(x.code, int) else 2)
                except BaseException as x:  # noqa
                    r = ("EXC", repr(x)[:80], 99)
            if isinstance(r, tuple):
                out = r[0]
                rc = r[2] if len(r) > 2 and r[2] is not None else 0
                err = (r[1] or "") if len(r) > 1 else ""
            else:
                rc, err = 0, ""
            err = (err or "") + buf.getvalue()
            failed = bool(rc) or bool(err.strip())
            after = self.state()
            ac = self.argclass(op, args)
            rec.case(nontrivial=(tuple(sorted((k, str(v)) for k, v in env.items())), op, ac, depth, failed) if (depth >= 2 or failed) else None)
            rec.count("steps")
            if failed:
                rec.count("failed_steps")
            if depth >= 2:
                rec.count("deep_stack_steps")
            if "Permission denied" in err or "permission denied" in err:
                rec.count("chdir_denied_steps")
            if "No such file" in err or "no such file" in err:
                rec.count("missing_target_steps")
            if any("lnk" in a for a in args) or (before[1] and "lnk" in before[1]):
                rec.count("symlink_steps")
            detail = {
                "trace_tail": trace[-6:], "env": env, "rc": rc, "err": err.strip()[:120],
                "before": [rel(before[0]), rel(before[1]), rel(before[2]), [rel(x) for x in before[3]]],
                "after": [rel(after[0]), rel(after[1]), rel(after[2]), [rel(x) for x in after[3]]],
                "model": [rel(m.P), rel(m.O), [rel(x) for x in m.S]], "model_verdict": [exp, info],
            }
            bad = None
            cause = ""
            if "No such file" in err or "no such file" in err:
                cause = "/target-missing"
            elif "ermission denied" in err:
                cause = "/target-inaccessible"
            elif "ot a directory" in err:
                cause = "/target-not-a-directory"
            if isinstance(r, tuple) and r[0] == "EXC":
                bad = f"EXCEPTION/{op}/{ac}"
            elif after[0] is None or os.path.realpath(after[0]) != os.path.realpath(after[1]):
                bad = f"PWD-NOT-CWD/{op}/{ac}"
            elif failed and after != before:
                changed = [n for n, a, b in zip(("cwd", "PWD", "OLDPWD", "stack"), before, after) if a != b]
                if changed == ["stack"] and cause in ("/target-missing", "/target-inaccessible", "/target-not-a-directory") and err.strip().startswith("cd:"):
                    bad = f"FAILED-STEP-CHANGED-STATE/{op}/stack-updated-before-chdir-failed"
                else:
                    bad = f"FAILED-STEP-CHANGED-STATE/{op}/{ac}{cause}/changed={'+'.join(changed)}"
            elif op == "pushd" and not failed and len(after[3]) > max(env["DIRSTACK_SIZE"], 0):
                bad = f"STACK-EXCEEDS-DIRSTACK_SIZE/{op}/{ac}"
            elif not failed and after[1] != before[1] and after[2] != before[1]:
                bad = f"OLDPWD-NOT-PREVIOUS-DIRECTORY/{op}/{ac}"
            elif exp == "err" and not failed:
                bad = f"SILENT-FAILURE/{op}/{ac}/model-expects-error:{str(info).replace(' ', '-')}"
            elif exp == "ok" and failed:
                bad = f"UNEXPECTED-ERROR/{op}/{ac}{cause}"
            elif exp == "ok" and op == "dirs":
                if "-c" not in args and out != info:
                    if out is not None and "~x" in out and out.replace("~x", self.sib) == info:
                        bad = "DIRS-OUTPUT/tilde-for-non-home-prefix"
                    else:
                        bad = f"DIRS-OUTPUT/{ac}"
                elif [os.path.realpath(x) for x in m.S] != [os.path.realpath(x) for x in after[3]]:
                    bad = f"STATE-DIFFERS-FROM-MODEL/{op}/{ac}"
            elif exp == "ok":
                rp = os.path.realpath
                if rp(m.P) != rp(after[0]) or [rp(os.path.join(before[1], x)) for x in m.S] != [rp(os.path.join(before[1], x)) for x in after[3]]:
                    bad = f"STATE-DIFFERS-FROM-MODEL/{op}/{ac}" + ("/rotation" if info == "rotate" else "")
                elif m.O and after[2] and rp(os.path.join(before[1], m.O)) != rp(os.path.join(before[1], after[2])) and after[1] != before[1]:
                    bad = f"OLDPWD-DIFFERS-FROM-MODEL/{op}/{ac}"
            if exp == "amb":
                rec.count("ambiguous_steps_invariants_only")
            if bad:
                rec.violation(bad, {"env": env, "steps": case["steps"][: len(trace)]}, detail)
            if bad or exp != "ok" or True:
                # keep the model glued to the live state (the comparison above is per step)
                m.P, m.O, m.S = after[1], after[2] if after[2] is not None else m.O, list(after[3])
        # round trip: pushd d ; popd restores directory and stack
        if case.get("roundtrip"):
            d = case["roundtrip"]
            st0 = self.state()
            if os.path.isdir(d) and len(st0[3]) < env["DIRSTACK_SIZE"]:
                with contextlib.redirect_stderr(io.StringIO()), contextlib.redirect_stdout(io.StringIO()):
                    r1 = D.pushd([d])
                    r2 = D.popd([])
                st1 = self.state()
                rec.count("roundtrips")
                ok1 = not (r1[2] or (r1[1] or "").strip())
                ok2 = not (r2[2] or (r2[1] or "").strip())
                if ok1 and ok2 and (os.path.realpath(st0[0]) != os.path.realpath(st1[0]) or st0[3] != st1[3]):
                    rec.violation("ROUNDTRIP/pushd-then-popd-does-not-restore", {"env": env, "steps": case["steps"], "roundtrip": d}, {"before": st0, "after": st1})
        os.chdir(root)

    def special_step(self, op, args, rec, case, trace, m):
        XSH = self.XSH
        before = self.state()
        rec.case(nontrivial=(op, str(args[1:]), len(before[3])))
        rec.count("steps")
        rec.count("steps_" + op)
        if op == "withcd":
            from xonsh.built_ins import XonshPathLiteral

            d, do_raise = args[:2]
            how = args[2] if len(args) > 2 else "inline"
            if how == "make":
                # the manager object is made here and entered by a later step, from wherever the session is by then
                self.stored_cm = XonshPathLiteral(os.path.abspath(d)).cd()
                self.stored_cm_made_in = before[0]
                rec.count("withcd_managers_stored")
                return
            cm = XonshPathLiteral(d).cd()
            if how == "stored" and getattr(self, "stored_cm", None) is not None:
                cm = self.stored_cm
                rec.count("withcd_stored_manager_entered" + ("_from_another_directory" if self.stored_cm_made_in != before[0] else ""))
            try:
                with cm:
                    inside = os.getcwd()
                    if do_raise:
                        raise KeyError("verif")
            except KeyError:
                pass
            except OSError:
                rec.count("withcd_enter_failed")
            after = self.state()
            if after != before:
                rec.violation("WITH-CD/state-not-restored-after-block", {"env": case["env"], "steps": case["steps"][: len(trace)]}, {"before": before, "after": after})
        else:
            d = args[0]
            try:
                os.chdir(d)
            except OSError:
                return
            from xonsh.shells.base_shell import BaseShell

            class Stub:
                def print_color(self, *a, **k):
                    pass

            BaseShell._fix_cwd(Stub())
            after = self.state()
            if os.path.realpath(after[0]) != os.path.realpath(after[1]):
                rec.violation("FIX-CWD/PWD-not-resynchronised", {"env": case["env"], "steps": case["steps"][: len(trace)]}, {"before": before, "after": after})
            elif os.path.realpath(before[1]) != os.path.realpath(after[1]) and after[2] != before[1]:
                rec.violation("FIX-CWD/OLDPWD-not-previous-directory", {"env": case["env"], "steps": case["steps"][: len(trace)]}, {"before": before, "after": after})
            m.P, m.O, m.S = after[1], after[2] if after[2] is not None else m.O, list(after[3])

    def run_shard(self, sh, rec):
        self._setup()
        rng = random.Random(f"{sh['seed']}/C16/{sh['index']}")
        if not self.caps:
            rec.inconclusive("could not drop DAC capabilities: permission failures are not real")
        root = self.base
        for h in harness.budgeted(range(sh["n"]), rec):
            env = dict(PUSHD_MINUS=rng.random() < 0.3, AUTO_PUSHD=rng.random() < 0.3, DIRSTACK_SIZE=rng.choice([0, 1, 3, 20, 20]), CDPATH=rng.choice([[], [], ["C"], ["A", "B"]]))
            steps = [self.gen_step(rng, root, 0) for _ in range(sh["steps"])]
            case = {"env": env, "steps": steps, "roundtrip": rng.choice(["A", "B", "lnk", root + "/C"])}
            if h < 2:
                rec.sample(case, "history")
            self.run_case(case, rec)


CHECK = C16()

if __name__ == "__main__":
    harness.main(CHECK)
