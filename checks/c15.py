"""C15 - alias expansion terminates and preserves the user's arguments.

Monitors on the real Aliases / SubprocSpec objects: a frame counter on eval_alias
(termination decided on logical steps, not wall clock), a 25-line reference expander
written from the documented behaviour, the "user arguments are a suffix" invariant,
insertion-order independence and the spec-level view (SubprocSpec.build).
"""

import os
import random
import sys

from vlib import harness

NAMES = ["a", "b", "c", "d", "e", "ls", "g", "h", "grep", "k9", "m-x", "n.n"]
ALIAS_TOKENS = ["-x", "--k=v", "p q", "*", "z", "-", "--", "a=b", "{x}", "@", "é", "-l"]
USER_ARGS = ["u1", "u 2", "*", "-x", "$HOME", "~", "~/f", "a b  c", "", "'q'", '"d"', "\\", "$(x)", "@(y)", "`z`", ";", "&&", "|", ">", "#", "é😀", "-", "--", "a=b", "\n", "\t"]


class Call:
    """Stands for a callable alias (identity matters, name is for messages)."""

    def __init__(self, name):
        self.name = name


def gen_table(rng):
    n = rng.randint(1, 8)
    names = rng.sample(NAMES, n)
    t = {}
    for nm in names:
        r = rng.random()
        if r < 0.12:
            t[nm] = ("call",)
        elif r < 0.20:
            t[nm] = ("deco",)
        elif r < 0.28:
            # return_command alias: returns a fixed command (possibly naming another alias or itself) + the args it got
            head = rng.choice([x for x in names if t.get(x, ("",))[0] != "deco"] + ["ext1", nm])
            t[nm] = ("retcmd", [head] + [rng.choice(ALIAS_TOKENS) for _ in range(rng.randint(0, 2))], rng.random() < 0.3)
        elif r < 0.36:
            t[nm] = ("execstr", rng.choice(["echo 1 && echo 2", "echo $(whoami)", "ls | wc", "echo hi > /dev/null", "a or b"]))
        elif r < 0.46:
            head = rng.choice(names + ["ext1", "ext2", nm])
            toks = [head] + [rng.choice(["-x", "--k=v", "z", "-l", "'p q'", '"r s"']) for _ in range(rng.randint(0, 2))]
            t[nm] = ("str", " ".join(toks))
        else:
            head = rng.choice(names + ["ext1", "ext2", nm, nm])
            pre = []
            if rng.random() < 0.2:
                decos = [k for k, v in t.items() if v[0] == "deco"]
                if decos:
                    pre = [rng.choice(decos) for _ in range(rng.randint(1, 2))]
            t[nm] = ("list", pre + [head] + [rng.choice(ALIAS_TOKENS) for _ in range(rng.randint(0, 2))])
    for nm, v in list(t.items()):
        # a return_command alias answering with a decorator-alias-led command is not described anywhere: not generated
        if v[0] == "retcmd" and v[1][0] in t and t[v[1][0]][0] == "deco":
            t[nm] = ("retcmd", ["ext1"] + v[1][1:], v[2])
    return t


def split_simple(s):
    """Whitespace split honouring the simple quotes used by the generator ('p q', "r s")."""
    out, cur, q = [], "", None
    for ch in s:
        if q:
            if ch == q:
                q = None
            else:
                cur += ch
        elif ch in "'\"":
            q = ch
        elif ch == " ":
            if cur:
                out.append(cur)
                cur = ""
        else:
            cur += ch
    if cur:
        out.append(cur)
    return out


def reference(t, cmd):
    """Documented expansion.  Returns (result list | None, decorator names, uses_retcmd)."""
    name, *args = cmd
    if name not in t:
        return None, [], False
    decos = []
    seen = {name}
    acc = list(args)
    val = t[name]
    ret = False
    for _ in range(len(t) + 3):
        kind = val[0]
        if kind in ("call", "deco", "execstr"):
            return [("callable", kind)] + acc, decos, ret
        if kind == "retcmd":
            ret = True
            toks = list(val[1]) + list(acc)
            acc = []
        elif kind == "str":
            toks = split_simple(val[1])
        else:
            toks = list(val[1])
        if len(toks) > 1:
            i = 0
            while i < len(toks) and toks[i] in t and t[toks[i]][0] == "deco":
                decos.append(toks[i])
                i += 1
            toks = toks[i:]
            if not toks:
                return "EMPTY", decos, ret
        token, *rest = toks
        if token in seen or token not in t:
            return [token] + rest + acc, decos, ret
        seen.add(token)
        acc = rest + acc
        val = t[token]
    return "NONTERMINATION-IN-MODEL", decos, ret


class C15:
    id = "C15"
    module = "checks.c15"
    level = "exploration"
    tables = True
    rule = (
        "cases = (random alias table of 1-8 entries over list / plain-string / exec-string / callable / decorator / return_command aliases whose "
        "leading words refer to each other in arbitrary graphs incl. self-loops and cycles, invoked command with hostile user arguments), each table "
        "built in 3 random insertion orders and resolved (twice per table) through Aliases.get and SubprocSpec.build; distinct_nontrivial = distinct (table, command) pairs "
        "whose expansion chain has at least 2 links or meets a cycle"
    )
    assumptions = [
        "termination is decided on a logical bound: eval_alias may be entered at most len(table)+2 times per resolution; a 10 s alarm only guards the worker",
        "alias tokens in generated tables contain no $ or ~ (expand_path is the identity on them); user arguments do, and must pass through untouched",
        "return_command aliases in the workload return their fixed command followed by the arguments they received",
    ]

    def shards(self, tier, seed):
        n = 16
        per = 2500 if tier == "quick" else 40000
        out = [dict(kind="graphs", index=i, n=per, timeout=300 if tier == "quick" else 2400) for i in range(n)]
        out.append(dict(kind="reentry", index=99, n=40 if tier == "quick" else 400, timeout=300 if tier == "quick" else 1200))
        return out

    def floors(self, c, tier):
        r = []
        if c.get("resolutions", 0) < 1000:
            r.append("fewer than 1000 resolutions observed")
        if c.get("eval_alias_frames", 0) < 1000:
            r.append("the eval_alias frame counter never fired")
        if c.get("spec_builds", 0) < 200:
            r.append("SubprocSpec.build was not exercised")
        if c.get("reentry_bodies_entered", 0) < 20:
            r.append("callable-alias re-entry workload did not run")
        if c.get("chains_with_cycle", 0) < 20:
            r.append("too few cyclic chains generated")
        return r

    # ------------------------------------------------------------------ worker
    def _setup(self):
        from vlib.session import make_sandbox_path, make_session

        sb = make_sandbox_path(os.environ["VERIF_SCRATCH"])
        XSH, ex, ctx = make_session([sb])
        from xonsh import aliases as A

        self.XSH, self.A = XSH, A
        self.frames = [0]
        orig = A.Aliases.eval_alias
        frames = self.frames

        def counted(self_, *a, **k):
            frames[0] += 1
            if frames[0] > 200:
                raise harness.CaseTimeout()  # logical step bound, see assumptions
            return orig(self_, *a, **k)

        A.Aliases.eval_alias = counted
        return XSH

    def _build(self, t, order):
        A = self.A
        from xonsh.procs.specs import SpecAttrDecoratorAlias

        al = A.Aliases()
        objs = {}
        for nm in order:
            v = t[nm]
            if v[0] == "call":
                def f(args, stdin=None):
                    return 0
                f.__name__ = "call_" + nm.replace("-", "_").replace(".", "_")
                al[nm] = f
            elif v[0] == "deco":
                al[nm] = SpecAttrDecoratorAlias({"verif_mark_" + nm.replace("-", "_").replace(".", "_"): True}, "verif decorator", name=nm)
            elif v[0] == "retcmd":
                def mk(_c, _d):
                    def rc(args, decorators=None, env=None):
                        out = list(_c) + list(args)
                        return {"cmd": out, "env": {"VERIF_RC": "1"}} if _d else out
                    return rc

                rc = mk(list(v[1]), v[2])

                rc.__name__ = "rc_" + nm.replace("-", "_").replace(".", "_")
                al[nm] = A.Aliases.return_command(rc)
            elif v[0] in ("execstr", "str"):
                al[nm] = v[1]
            else:
                al[nm] = list(v[1])
            objs[nm] = al._raw[nm]
        return al, objs

    def _canon(self, res, t, objs):
        """xonsh result -> comparable form (callables become ('callable', kind))."""
        if res is None:
            return None
        out = []
        inv = {id(o): n for n, o in objs.items()}
        for x in res:
            if callable(x) and not isinstance(x, str):
                nm = inv.get(id(x))
                kind = t[nm][0] if nm else "?"
                out.append(("callable", kind))
            else:
                out.append(x)
        return out

    def run_graph_case(self, case, rec):
        if not hasattr(self, "XSH"):
            self._setup()
        XSH = self.XSH
        t = {k: tuple(v) for k, v in case["table"].items()}
        cmd = case["cmd"]
        orders = case["orders"]
        exp, exp_decos, uses_ret = reference(t, cmd)
        if exp in ("EMPTY", "NONTERMINATION-IN-MODEL"):
            rec.count("model_undefined")
            return
        chain_len = 0
        # chain statistics for the non-triviality rule
        name = cmd[0]
        seen = set()
        cur = name
        cyc = False
        while cur in t and cur not in seen and t[cur][0] in ("list", "str", "retcmd"):
            seen.add(cur)
            toks = split_simple(t[cur][1]) if t[cur][0] == "str" else list(t[cur][1])
            toks = [x for x in toks if not (x in t and t[x][0] == "deco")] or ["?"]
            cur = toks[0]
            chain_len += 1
            if cur in seen:
                cyc = True
        rec.case(nontrivial=(sorted(t.items()), cmd) if (chain_len >= 2 or cyc) else None)
        if cyc:
            rec.count("chains_with_cycle")
        if uses_ret:
            rec.count("chains_with_return_command")
        outs = []
        for order in orders:
            al, objs = self._build(t, order)
            XSH.commands_cache.aliases = al
            self.frames[0] = 0
            decos = []
            try:
                with harness.alarm(10):
                    r = al.get(list(cmd), decorators=decos)
                got = self._canon(list(r) if r is not None else None, t, objs)
            except harness.CaseTimeout:
                rec.violation("NONTERMINATION/eval_alias-frame-bound", case, {"frames": self.frames[0], "order": order})
                return
            except RecursionError:
                rec.violation("NONTERMINATION/RecursionError", case, {"order": order})
                return
            except Exception as e:
                got = f"EXC {type(e).__name__}: {e}"[:200]
            rec.count("resolutions")
            rec.count("eval_alias_frames", self.frames[0])
            if self.frames[0] > len(t) + 2:
                rec.violation("NONTERMINATION/eval_alias-frame-bound", case, {"frames": self.frames[0], "bound": len(t) + 2})
                return
            dn = [getattr(d, "name", "?") for d in decos]
            outs.append((got, dn))
            # the same command line resolved again on the same table: resolving must not wear the table out
            decos2 = []
            try:
                with harness.alarm(10):
                    r2 = al.get(list(cmd), decorators=decos2)
                got2 = self._canon(list(r2) if r2 is not None else None, t, objs)
            except Exception as e:
                got2 = f"EXC {type(e).__name__}: {e}"[:200]
            rec.count("repeated_resolutions")
            if (got2, [getattr(d, "name", "?") for d in decos2]) != (got, dn) and not isinstance(got, str):
                rec.violation("REPEATED-RESOLUTION/second-resolution-of-the-same-line-differs", case, {"first": [got, dn], "second": [got2, [getattr(d, "name", "?") for d in decos2]], "order": order})
                return
        g0, d0 = outs[0]
        if any(o != outs[0] for o in outs):
            rec.violation("ORDER-DEPENDENT/definition-order-changes-result", case, {"results": outs})
            return
        if isinstance(g0, str):
            rec.violation("EXCEPTION/" + g0.split(":")[0].replace("EXC ", ""), case, {"got": g0})
            return
        if g0 != exp and uses_ret and g0 is not None and exp is not None and len(g0) == len(exp):
            xp = XSH.expand_path
            if all(a == b or (isinstance(b, str) and ("$" in b or "~" in b) and a == xp(b)) for a, b in zip(g0, exp)):
                rec.violation("RETURN-COMMAND/user-arguments-expanded-a-second-time", case, {"got": g0, "expected": exp})
                return
        if g0 != exp:
            mech = "DIFF-FROM-REFERENCE/"
            args = cmd[1:]
            if g0 is not None and exp is not None and args and g0[-len(args):] != args and exp[-len(args):] == args:
                mech += "user-arguments-not-a-suffix"
            elif g0 is not None and exp is not None and sorted(map(str, g0)) == sorted(map(str, exp)):
                mech += "argument-order"
            elif g0 is not None and exp is not None and g0[:1] != exp[:1]:
                mech += "leading-word"
            else:
                mech += "tokens"
            rec.violation(mech, case, {"got": g0, "expected": exp})
            return
        if d0 != exp_decos:
            rec.violation("DECORATORS/collected-out-of-order-or-missing", case, {"got": d0, "expected": exp_decos})
            return
        args = cmd[1:]
        if g0 is not None and args and not uses_ret and g0[-len(args):] != args:
            rec.violation("DIFF-FROM-REFERENCE/user-arguments-not-a-suffix", case, {"got": g0})
            return
        # leading token of the result must not be an unexpanded alias that was not already expanded in this chain
        if g0 and isinstance(g0[0], str) and g0[0] in t and g0[0] not in (seen | {name}) and t[g0[0]][0] != "deco":
            rec.violation("UNEXPANDED/leading-word-still-an-alias", case, {"got": g0})
            return
        # ---- spec level
        if case.get("spec"):
            from xonsh.procs.specs import SubprocSpec

            al, objs = self._build(t, orders[0])
            XSH.commands_cache.aliases = al
            self.frames[0] = 0
            try:
                with harness.alarm(10):
                    spec = SubprocSpec.build(list(cmd))
                rec.count("spec_builds")
            except harness.CaseTimeout:
                rec.violation("NONTERMINATION/SubprocSpec.build", case, {"frames": self.frames[0]})
                return
            except Exception as e:
                # a decorator alias given as the command word, or an empty command, may be rejected
                rec.count("spec_build_exception_" + type(e).__name__)
                return
            lead_decos = []
            body = list(cmd)
            if len(body) > 1:
                while len(body) > 1 and body[0] in t and t[body[0]][0] == "deco":
                    lead_decos.append(body.pop(0))
            e2, ed2, _ = reference(t, body)
            if e2 in ("EMPTY", "NONTERMINATION-IN-MODEL"):
                return
            sd = [getattr(d, "name", "?") for d in spec.decorators]
            if sd != lead_decos + ed2:
                rec.violation("DECORATORS/spec-decorators-out-of-order-or-missing", case, {"got": sd, "expected": lead_decos + ed2})
                return
            if e2 is None:
                if spec.alias is not None or list(spec.cmd) != body:
                    rec.violation("SPEC/non-alias-command-altered", case, {"cmd": list(spec.cmd)})
                return
            if e2 and isinstance(e2[0], tuple):
                ok = callable(spec.alias) and list(spec.cmd) == e2[1:]
            else:
                ok = list(spec.cmd) == e2
            e2c = e2[1:] if (e2 and isinstance(e2[0], tuple) and callable(spec.alias)) else e2
            if not ok and _ and len(spec.cmd) == len(e2c):
                xp = XSH.expand_path
                if all(a == b or (isinstance(b, str) and ("$" in b or "~" in b) and a == xp(b)) for a, b in zip(spec.cmd, e2c)):
                    rec.violation("RETURN-COMMAND/user-arguments-expanded-a-second-time", case, {"spec.cmd": list(spec.cmd), "expected": e2})
                    return
            if not ok:
                rec.violation("SPEC/cmd-differs-from-expansion", case, {"cmd": [c if isinstance(c, str) else "<callable>" for c in spec.cmd], "alias_callable": callable(spec.alias), "expected": e2})
        rec.count("ok")

    def run_reentry(self, case, rec):
        """Callable aliases whose bodies run command lines naming aliases again ($__ALIAS_STACK)."""
        if not hasattr(self, "XSH"):
            self._setup()
        XSH = self.XSH
        from vlib.session import settle

        graph = case["graph"]  # name -> command line executed by its body
        al = self.A.Aliases()
        entered = []
        ex = XSH.execer

        def mk(nm, line):
            def body(args, stdin=None):
                entered.append(nm)
                if len(entered) > 50:
                    return 1
                try:
                    ex.exec(line + "\n", glbs={}, locs={}, mode="exec")
                except Exception as e:  # the blocked inner call reports an error: fine
                    entered.append("err:" + type(e).__name__)
                return 0
            body.__name__ = "body_" + nm
            return body

        for nm, line in graph.items():
            al[nm] = mk(nm, line)
        XSH.commands_cache.aliases = al
        XSH.env["XONSH_SUBPROC_RAISE_ERROR"] = False
        rec.case(nontrivial=sorted(graph.items()))
        rec.count("reentry_cases")
        self.frames[0] = 0  # the logical step counter is per case
        try:
            with harness.alarm(30):
                ex.exec(case["start"] + "\n", glbs={}, locs={}, mode="exec")
                settle(5)
        except harness.CaseTimeout:
            rec.violation("NONTERMINATION/callable-alias-re-entry", case, {"entered": entered[:60]})
            return
        except RecursionError:
            rec.violation("NONTERMINATION/callable-alias-re-entry-RecursionError", case, {"entered": entered[:60]})
            return
        except Exception as e:
            entered.append("top-err:" + type(e).__name__)
        names = [e for e in entered if not e.startswith(("err:", "top-err:"))]
        rec.count("reentry_bodies_entered", len(names))
        if len(names) > 50 or any(names.count(n) > 1 for n in set(names)):
            rec.violation("REENTRY/alias-body-entered-more-than-once-in-one-chain", case, {"entered": entered[:60]})

    def run_case(self, case, rec):
        if "graph" in case:
            return self.run_reentry(case, rec)
        return self.run_graph_case(case, rec)

    def run_shard(self, sh, rec):
        self._setup()
        rng = random.Random(f"{sh['seed']}/C15/{sh['index']}")
        if sh["kind"] == "reentry":
            names = ["ra", "rb", "rc", "rd"]
            for i in harness.budgeted(range(sh["n"]), rec):
                k = rng.randint(1, 4)
                ns = names[:k]
                graph = {n: rng.choice(ns) + " " + rng.choice(["x", "-y", "'z z'"]) for n in ns}
                case = {"graph": graph, "start": rng.choice(ns) + " top"}
                if i < 2:
                    rec.sample(case, "reentry")
                self.run_reentry(case, rec)
            return
        directed = [
            ({"ls": ("list", ["ls", "--color"])}, ["ls", "-l"]),
            ({"l": ("list", ["ls", "-CF"]), "ls": ("list", ["ls", "--color=auto"])}, ["l", "x"]),
            ({"a": ("list", ["b", "1"]), "b": ("list", ["a", "2"])}, ["a", "u"]),
            ({"a": ("list", ["b", "1"]), "b": ("list", ["c", "2"]), "c": ("list", ["a", "3"])}, ["b", "u", "v"]),
            ({"a": ("list", ["a"])}, ["a"]),
            ({"a": ("str", "b -x"), "b": ("str", "a -y")}, ["a", "u 2"]),
            ({"d": ("deco",), "a": ("list", ["d", "b", "1"]), "b": ("list", ["ext1", "2"])}, ["a", "u"]),
            ({"d": ("deco",), "e": ("deco",), "a": ("list", ["d", "e", "b"]), "b": ("list", ["e", "d", "c", "z"]), "c": ("call",)}, ["a", "u"]),
            ({"r": ("retcmd", ["r", "-x"], False)}, ["r", "u"]),
            ({"r": ("retcmd", ["b", "-x"], True), "b": ("list", ["r", "y"])}, ["r", "u"]),
        ]
        cases = []
        if sh["index"] == 0:
            for t, cmd in directed:
                cases.append((t, cmd))
        for _ in harness.budgeted(range(sh["n"]), rec):
            t = gen_table(rng)
            names = list(t)
            cmd = [rng.choice(names + names + ["nope"])] + [rng.choice(USER_ARGS) for _ in range(rng.randint(0, 4))]
            if rng.random() < 0.15:
                decos = [k for k, v in t.items() if v[0] == "deco"]
                if decos:
                    cmd = [rng.choice(decos)] + cmd
            cases.append((t, cmd))
        for i, (t, cmd) in enumerate(cases):
            names = list(t)
            orders = []
            for _ in range(3):
                o = names[:]
                rng.shuffle(o)
                orders.append(o)
            case = {"table": {k: list(v) for k, v in t.items()}, "cmd": cmd, "orders": orders, "spec": rng.random() < 0.5}
            if i < 3:
                rec.sample(case, "graph")
            self.run_case(case, rec)


CHECK = C15()

if __name__ == "__main__":
    harness.main(CHECK)
