"""C02 - code whose names are all bound runs as Python, never as a command.

Programs = command-shaped Python templates (`a -b`, `a | b`, `a and b`, `a > b`, ...) x the way each
free name got bound (assignment forms, import, def, class, for, with, except, walrus, global,
parameters of every kind) x scope depth (module, function, class, nested function, lambda,
comprehension), plus executable corpus statements.  Monitors: a spawn counter on
xonsh.procs.specs.run_subproc (no launch may happen), absence of __xonsh__.subproc_* calls in the
tree Execer.parse returns, and a differential run against builtin exec() on an equal namespace
(namespace, stdout, exception type).  After `del name` the same line must be launched.  A syntax
error anywhere in the input must leave the effect log empty.
"""

import ast
import contextlib
import io
import os
import random
import subprocess

from vlib import harness

TEMPLATES = [
    "a -b", "a --b", "a -b -c", "a | b", "a and b", "a or b", "not a", "a > b", "a < b", "a >> b", "a -b | c", "a * b", "a @ b", "a ,b", "a - b", "a +b", "a -b +c",
    "a <b >c", "a&b", "a ^b", "a %b", "a //b", "a -1", "a -b if c else a", "a is b", "a in [b]", "a == b", "a != b", "a >= b", "a <= b", "~a", "-a", "a ** b", "(a -b)", "[a -b]", "a if b else c",
]
# templates on attribute / item access use a namespace object
ATTR_TEMPLATES = ["o.a -b", "o.a | b", "d['k'] -b", "o.a and b", "o.f(a) -b", "o.a > b"]

BROKEN = ["x = = 1", "def (", "a b c ) (", "s = 'unterminated", "for in x:", "if True print(1)", "x = (1,", "class :", "1 +* 2 2", "import", "x = [1, 2", "lambda: :", "else:", "return return"]


def bind_stmt(rng, name, val):
    """Return (lines, kind): source lines that bind `name` to int `val` at the current scope."""
    k = rng.choice(["assign", "tuple", "starred", "augmented", "annotated", "from-import-as", "for", "with", "walrus", "chained", "try-else", "except-inner", "unpack-list", "while", "for-nested-target", "for-starred-target", "with-nested-target", "async-for-in-def"])
    if k == "for-nested-target":
        return [f"for _i, ({name}, _j) in [(0, ({val}, 1))]:", "    pass"], k
    if k == "for-starred-target":
        return [f"for _i, [{name}, *_j] in [(0, [{val}, 1, 2])]:", "    pass"], k
    if k == "with-nested-target":
        return [f"with _cm(({val}, (1, 2))) as ({name}, (_p, _q)):", "    pass"] if rng.random() < 0.5 else [f"with _cm((0, ({val}, 2))) as (_p, ({name}, _q)):", "    pass"], k
    if k == "async-for-in-def":
        k = "for-nested-target"
        return [f"for (_i, ({name},)) in [(0, ({val},))]:", "    pass"], k
    if k == "assign":
        return [f"{name} = {val}"], k
    if k == "tuple":
        return [f"{name}, _t = {val}, 0"], k
    if k == "starred":
        return [f"{name}, *_r = [{val}, 1, 2]"], k
    if k == "augmented":
        return [f"{name} = 0", f"{name} += {val}"], k
    if k == "annotated":
        return [f"{name}: int = {val}"], k
    if k == "from-import-as":
        return [f"from verif_c02_vals import v{val} as {name}"], k
    if k == "for":
        return [f"for {name} in [{val}]:", "    pass"], k
    if k == "with":
        return [f"with _cm({val}) as {name}:", "    pass"], k
    if k == "walrus":
        return [f"({name} := {val})"], k
    if k == "chained":
        return [f"_c = {name} = {val}"], k
    if k == "try-else":
        return ["try:", "    pass", "except Exception:", "    pass", "else:", f"    {name} = {val}"], k
    if k == "except-inner":
        return ["try:", f"    raise ValueError({val})", "except ValueError as _e:", f"    {name} = _e.args[0]"], k
    if k == "unpack-list":
        return [f"[{name}, _u] = [{val}, 0]"], k
    return [f"_w = 0", f"while _w < 1:", f"    {name} = {val}", "    _w += 1"], k


class C02:
    id = "C02"
    module = "checks.c02"
    level = "exploration"
    tables = True
    rule = (
        "cases = (command-shaped Python template over names a,b,c / attribute / item forms, binding form per name out of 17 statement kinds (nested / starred for and with targets included) + parameters of every kind + global, "
        "scope depth in {module, function, class, nested function, lambda, comprehension}) run through Execer.parse/exec and through builtin exec; plus del-then-use programs (name bound in the same scope, by an earlier input, at module level and deleted through `global`, in a nested block, function-local), "
        "mixed programs (Python templates after handled failing / succeeding / dead commands, compared with CPython on the program without its command lines), atomicity programs (effect; broken line) and executable corpus statements with all names bound; distinct_nontrivial = distinct (template, binding kinds, scope) triples and distinct other programs"
    )
    assumptions = [
        "every name read is bound by construction at the point of use (straight-line binding statements precede the use in the same scope or an enclosing one); the reference semantics is CPython's exec on an equal namespace",
        "$XONSH_BUILTINS_TO_CMD stays at its default False; the documented __xonsh__.builtin_cmd('name') wrapper is judged behaviourally",
        "launches are observed by a counter on xonsh.procs.specs.run_subproc (every subproc_* helper goes through it) and by scanning the returned tree for __xonsh__.subproc_* calls",
        "names bound only through exec()/globals() tricks are out of scope",
    ]

    def shards(self, tier, seed):
        per = 1500 if tier == "quick" else 20000
        return [dict(kind="mixed", index=i, n=per, timeout=420 if tier == "quick" else 3000) for i in range(16)]

    def floors(self, c, tier):
        r = []
        if c.get("programs_judged", 0) < 3000:
            r.append("fewer than 3000 programs judged")
        if c.get("del_programs_launched", 0) < 50:
            r.append("del-then-use programs never reached the spawn counter")
        if c.get("atomicity_programs", 0) < 100:
            r.append("atomicity programs missing")
        if c.get("mixed_programs", 0) < 300:
            r.append("mixed command / Python programs missing")
        for sc in ("module", "function", "class", "nested-function", "lambda", "comprehension", "corpus"):
            if c.get("scope_" + sc, 0) < 50:
                r.append(f"scope {sc} under-exercised")
        return r

    def _setup(self):
        import sys
        import types

        from vlib.session import make_sandbox_path, make_session

        self.sb = make_sandbox_path(os.environ["VERIF_SCRATCH"])
        self.XSH, self.ex, self.ctx = make_session([self.sb], env={"XONSH_SUBPROC_RAISE_ERROR": False})
        m = types.ModuleType("verif_c02_vals")
        for i in range(0, 60):
            setattr(m, f"v{i}", i)
        sys.modules["verif_c02_vals"] = m
        import xonsh.procs.specs as specs

        self.spawns = []
        spawns = self.spawns

        real_run_subproc = specs.run_subproc
        self.real_commands = False

        def fake_run_subproc(cmds, captured=False, envs=None, **kw):
            spawns.append([list(map(str, c)) if isinstance(c, (list, tuple)) else c for c in cmds])
            if self.real_commands:
                return real_run_subproc(cmds, captured=captured, envs=envs, **kw)
            return None

        specs.run_subproc = fake_run_subproc
        # commands of the mixed programs: they touch nothing but their exit status
        self.XSH.aliases["cfail"] = lambda args: 1
        self.XSH.aliases["cok"] = lambda args: 0

    def base_ns(self):
        class _cm:
            def __init__(s, v):
                s.v = v

            def __enter__(s):
                return s.v

            def __exit__(s, *a):
                return False

        class O:
            pass

        o = O()
        o.a = 7
        o.f = lambda x: x + 1
        return {"_cm": _cm, "o": o, "d": {"k": 9}, "log": []}

    def snapshot(self, ns):
        out = {}
        for k, v in ns.items():
            if k.startswith("__") or k in ("_cm", "o", "d", "_e"):
                continue
            if isinstance(v, (int, float, str, bool, tuple, list, type(None), dict, set)):
                import re as _re

                try:
                    out[k] = _re.sub(r" at 0x[0-9a-f]+", "", repr(v))[:2000]
                except Exception:
                    out[k] = "<unrepresentable " + type(v).__name__ + ">"
            elif callable(v):
                out[k] = "<callable>"
            else:
                out[k] = type(v).__name__
        return out

    def run_python(self, src):
        ns = self.base_ns()
        buf = io.StringIO()
        exc = None
        try:
            with contextlib.redirect_stdout(buf):
                exec(compile(src, "<c02>", "exec"), ns, ns)
        except BaseException as e:  # noqa
            exc = type(e).__name__
        return self.snapshot(ns), buf.getvalue(), exc

    def run_xonsh(self, src, earlier_input=None):
        ns = self.base_ns()
        buf = io.StringIO()
        exc = None
        self.spawns.clear()
        try:
            with harness.alarm(20), contextlib.redirect_stdout(buf):
                if earlier_input:
                    # names bound by an earlier input of the same session (session globals); a failing command at that
                    # earlier prompt was reported there and is history by now
                    try:
                        self.ex.exec(earlier_input, glbs=ns, locs=ns, mode="exec")
                    except subprocess.CalledProcessError:
                        pass
                    self.spawns.clear()
                self.ex.exec(src, glbs=ns, locs=ns, mode="exec")
        except harness.CaseTimeout:
            exc = "HANG"
        except BaseException as e:  # noqa
            exc = type(e).__name__
        return self.snapshot(ns), buf.getvalue(), exc, list(self.spawns)

    def tree_has_subproc(self, src, names):
        try:
            t = self.ex.parse(src, ctx=set(names))
        except SyntaxError:
            return "SyntaxError"
        except BaseException as e:  # noqa
            return "CRASH-" + type(e).__name__
        for n in ast.walk(t) if t is not None else []:
            if isinstance(n, ast.Attribute) and n.attr.startswith("subproc_") and isinstance(n.value, ast.Name) and n.value.id == "__xonsh__":
                if n.attr != "subproc_check_boolop":
                    return n.attr
        return None

    # ------------------------------------------------------------------ program builders
    def build(self, rng):
        tmpl = rng.choice(TEMPLATES + ATTR_TEMPLATES[: 2 if rng.random() < 0.8 else None])
        scope = rng.choice(["module", "function", "class", "nested-function", "lambda", "comprehension", "module", "function"])
        names = [n for n in ("a", "b", "c") if n in set(ast_names(tmpl))]
        vals = {n: rng.randint(2, 50) for n in names}
        kinds = {}
        lines = []
        use = f"res = {tmpl}" if rng.random() < 0.6 and "," not in tmpl else tmpl
        shadow = rng.random() < 0.15
        if shadow and names:
            # a builtin-named variable: `id -b`, `dir | b` ...
            bn = rng.choice(["id", "dir", "zip", "type", "len", "print_"])
            old = names[0]
            use = use.replace(old, bn) if old in use else use
            names = [bn if n == old else n for n in names]
            vals[bn] = vals.pop(old)
        if scope == "module":
            for n in names:
                l, k = bind_stmt(rng, n, vals[n])
                lines += l
                kinds[n] = k
            lines.append(use)
        elif scope in ("function", "nested-function"):
            params = []
            body = []
            pk = ["pos", "posonly", "default", "kwonly", "vararg", "kwarg"]
            for n in names:
                how = rng.choice(["param", "param", "local", "enclosing", "global-decl", "module-global"])
                if how == "param":
                    kinds[n] = "param-" + rng.choice(pk[:4])
                    params.append((n, kinds[n], vals[n]))
                elif how == "local":
                    l, k = bind_stmt(rng, n, vals[n])
                    body += l
                    kinds[n] = "local-" + k
                elif how == "enclosing" and scope == "nested-function":
                    kinds[n] = "enclosing"
                elif how == "global-decl":
                    body = [f"global {n}", f"{n} = {vals[n]}"] + body
                    kinds[n] = "global-decl"
                else:
                    lines.append(f"{n} = {vals[n]}")
                    kinds[n] = "module-global"
            sig, call = self.signature(params)
            body.append(use if not use.startswith("res =") else "return " + use[6:])
            fn = [f"def fn({sig}):"] + ["    " + x for x in body]
            if scope == "nested-function":
                outer_locals = [f"    {n} = {vals[n]}" for n in names if kinds.get(n) == "enclosing"]
                fn = ["def outer():"] + outer_locals + ["    " + x for x in fn] + [f"    return fn({call})"]
                lines += fn + ["res = outer()"]
            else:
                lines += fn + [f"res = fn({call})"]
        elif scope == "class":
            body = []
            for n in names:
                l, k = bind_stmt(rng, n, vals[n])
                body += l
                kinds[n] = "class-" + k
            body.append(use)
            lines += ["class K:"] + ["    " + x for x in body]
            if use.startswith("res ="):
                lines.append("res = K.res")
        elif scope == "lambda":
            param = names[0] if (rng.random() < 0.5 and names) else None
            for n in names:
                if n == param:
                    continue  # bound only as the lambda's parameter
                l, k = bind_stmt(rng, n, vals[n])
                lines += l
                kinds[n] = k
            expr = use[6:] if use.startswith("res =") else use
            if param:
                lines.append(f"res = (lambda {param}: {expr})({vals[param]})")
                kinds[param] = "lambda-param"
            else:
                lines.append(f"res = (lambda: {expr})()")
        else:
            for n in names[1:]:
                l, k = bind_stmt(rng, n, vals[n])
                lines += l
                kinds[n] = k
            expr = use[6:] if use.startswith("res =") else use
            if names:
                kinds[names[0]] = "comprehension-target"
                lines.append(rng.choice([f"res = [{expr} for {names[0]} in [{vals[names[0]]}]]", f"res = {{_k: ({expr}) for _k, {names[0]} in [(1, {vals[names[0]]})]}}", f"res = list(({expr}) for {names[0]} in [{vals[names[0]]}])"]))
            else:
                lines.append(f"res = [{expr} for _ in [0]]")
        return "\n".join(lines) + "\n", tmpl, scope, kinds

    def signature(self, params):
        pos_only = [p for p in params if p[1] == "param-posonly"]
        pos = [p for p in params if p[1] == "param-pos"]
        dflt = [p for p in params if p[1] == "param-default"]
        kwo = [p for p in params if p[1] == "param-kwonly"]
        parts = [p[0] for p in pos_only]
        if pos_only:
            parts.append("/")
        parts += [p[0] for p in pos] + [f"{p[0]}={p[2]}" for p in dflt]
        if kwo:
            parts.append("*")
            parts += [p[0] for p in kwo]
        call = [str(p[2]) for p in pos_only + pos] + [f"{p[0]}={p[2]}" for p in kwo]
        return ", ".join(parts), ", ".join(call)

    def run_case(self, case, rec):
        if not hasattr(self, "XSH"):
            self._setup()
        kind = case["kind"]
        src = case["src"]
        if kind == "python":
            rec.count("programs_judged")
            rec.count("scope_" + case.get("scope", "corpus"))
            rec.case(nontrivial=(case.get("tmpl"), tuple(sorted(case.get("kinds", {}).items())), case.get("scope")) if case.get("tmpl") else src)
            try:
                ct = ast.parse(src)
            except SyntaxError:
                rec.count("skipped_not_python")
                return
            if case.get("scope") == "corpus":
                # parser-level differences from CPython are C01's subject: only programs the context-free parser gets right are judged here
                from vlib.astnorm import firstdiff, norm as anorm

                try:
                    if firstdiff(anorm(ct), anorm(self.ex.parser.parse(src))) is not None:
                        rec.count("skipped_parser_level_difference_see_C01")
                        return
                except BaseException:  # noqa
                    rec.count("skipped_parser_level_difference_see_C01")
                    return
            py = self.run_python(src)
            xs = self.run_xonsh(src)
            feat = f"{case.get('scope', 'corpus')}/" + "+".join(sorted(set(case.get("kinds", {}).values()))) if case.get("kinds") else case.get("scope", "corpus")
            if xs[3]:
                kinds = set(case.get("kinds", {}).values())
                spawned_first = str(xs[3][0][0][0]) if xs[3] and xs[3][0] and isinstance(xs[3][0][0], list) and xs[3][0][0] else ""
                tm = case.get("tmpl", "")
                if any("walrus" in k for k in kinds):
                    # attribution by neutralisation: the same program with plain assignments instead of statement-level walrus
                    import re as _re

                    src2 = _re.sub(r"\((\w+) := (\d+)\)", r"\1 = \2", src)
                    if src2 != src and not self.run_xonsh(src2)[3]:
                        rec.violation("SPAWN/name-bound-by-statement-level-walrus-not-recognised", case, {"spawned": xs[3][:3]})
                        return
                try:
                    root = ast.parse(tm, mode="eval").body
                except SyntaxError:
                    root = None
                if ("comprehension-target" in kinds or "lambda-param" in kinds) and isinstance(root, (ast.BoolOp, ast.UnaryOp)):
                    rec.violation("SPAWN/comprehension-target-or-lambda-parameter-under-boolop-or-unary-operator-run-as-command", case, {"spawned": xs[3][:3]})
                    return
                rec.violation(f"SPAWN/bound-names-run-as-command/{feat}", case, {"spawned": xs[3][:3]})
                return
            if xs[2] == "SyntaxError" and py[2] != "SyntaxError":
                rec.violation(f"REJECTED/valid-python-with-bound-names/{feat}", case, {"python": py[2]})
                return
            if (py[0], py[1], py[2]) != (xs[0], xs[1], xs[2]):
                what = "exception" if py[2] != xs[2] else "stdout" if py[1] != xs[1] else "namespace"
                rec.violation(f"BEHAVIOUR-DIFFERS/{what}/{feat}", case, {"python": [py[2], py[1][:80], {k: v for k, v in py[0].items() if xs[0].get(k) != v}], "xonsh": [xs[2], xs[1][:80], {k: v for k, v in xs[0].items() if py[0].get(k) != v}]})
                return
            rec.count("ok")
        elif kind == "del":
            rec.count("del_programs")
            rec.case(nontrivial=src)
            xs = self.run_xonsh(src, case.get("earlier_input"))
            rec.count("del_where_" + case.get("where", "same-scope"))
            if xs[3]:
                rec.count("del_programs_launched")
                want = case["expect_cmd"]
                if xs[3][0][0][: len(want)] != want:
                    rec.violation("DEL/launched-command-differs", case, {"spawned": xs[3][:2], "expected_prefix": want})
            else:
                rec.violation("DEL/name-deleted-but-line-not-launched", case, {"exception": xs[2]})
        elif kind == "mixed":
            # Python statements of a program that also runs commands keep exactly Python's meaning: same namespace, output
            # and (no) exception as CPython gives for the program with its command lines taken out
            rec.count("mixed_programs")
            rec.count("mixed_" + case["shape"])
            rec.case(nontrivial=(case["tmpl"], case["shape"], bool(case.get("earlier_input"))))
            self.real_commands = True
            self.XSH.env["XONSH_SUBPROC_RAISE_ERROR"] = True
            try:
                xs = self.run_xonsh(src, case.get("earlier_input"))
            finally:
                self.real_commands = False
                self.XSH.env["XONSH_SUBPROC_RAISE_ERROR"] = False
                from vlib.session import reset_jobs, settle

                settle(2)
                reset_jobs()
            py = self.run_python(case["py_src"])
            foreign = [c for c in xs[3] if not (c and isinstance(c[0], list) and c[0] and c[0][0] in ("cfail", "cok"))]
            if foreign:
                rec.violation("MIXED/python-statement-launched-as-command", case, {"spawned": foreign[:2]})
            elif xs[2] != py[2]:
                rec.violation("MIXED/python-statement-raises-differently-after-a-command/" + str(xs[2]), case, {"xonsh_exception": xs[2], "python_exception": py[2]})
            elif xs[0] != py[0] or xs[1] != py[1]:
                keys = sorted(k for k in set(xs[0]) | set(py[0]) if xs[0].get(k) != py[0].get(k))
                rec.violation("MIXED/python-statement-computes-differently-after-a-command", case, {"differing": keys[:5], "xonsh": {k: xs[0].get(k) for k in keys[:5]}, "python": {k: py[0].get(k) for k in keys[:5]}})
            else:
                rec.count("ok")
        elif kind == "atomic":
            rec.count("atomicity_programs")
            rec.case(nontrivial=src)
            ns = self.base_ns()
            self.spawns.clear()
            exc = None
            try:
                with harness.alarm(20):
                    self.ex.exec(src, glbs=ns, locs=ns, mode=case.get("mode", "exec"))
            except harness.CaseTimeout:
                exc = "HANG"
            except SyntaxError:
                exc = "SyntaxError"
            except BaseException as e:  # noqa
                exc = type(e).__name__
            if exc != "SyntaxError":
                # xonsh may read the broken line as a command: then it is not a syntax error and nothing is claimed
                rec.count("atomic_not_a_syntax_error_for_xonsh")
                return
            if ns["log"] or self.spawns:
                rec.violation("ATOMICITY/effects-before-syntax-error", case, {"log": ns["log"], "spawns": self.spawns[:2]})
            else:
                rec.count("ok")

    SAFE = (ast.Module, ast.Expr, ast.Assign, ast.AugAssign, ast.AnnAssign, ast.Name, ast.Constant, ast.BinOp, ast.BoolOp, ast.UnaryOp, ast.Compare, ast.IfExp, ast.Tuple, ast.List, ast.Set, ast.Dict,
            ast.Subscript, ast.Slice, ast.ListComp, ast.SetComp, ast.DictComp, ast.GeneratorExp, ast.comprehension, ast.If, ast.For, ast.While, ast.Pass, ast.Break, ast.Continue, ast.Assert, ast.Delete,
            ast.JoinedStr, ast.FormattedValue, ast.Starred, ast.NamedExpr, ast.Lambda, ast.arguments, ast.arg, ast.Return, ast.FunctionDef, ast.Try, ast.ExceptHandler, ast.Raise, ast.With, ast.withitem,
            ast.expr_context, ast.operator, ast.boolop, ast.unaryop, ast.cmpop, ast.Call, ast.keyword, ast.Attribute)
    SAFE_CALLS = {"len", "str", "int", "range", "sorted", "list", "tuple", "dict", "set", "min", "max", "sum", "abs", "bool", "repr", "isinstance", "enumerate", "zip", "reversed", "any", "all", "float", "ord", "chr", "divmod", "round"}

    def corpus_programs(self, rng, n):
        """Executable, side-effect-free stdlib statements with every free name bound to an int by a prelude."""
        import builtins

        from checks.c01 import corpus_files, statements_of

        files = corpus_files()
        rng.shuffle(files)
        out = 0
        for fn in files:
            if out >= n:
                return
            _, stmts = statements_of(fn, maxlen=400)
            rng.shuffle(stmts)
            for st in stmts[:40]:
                try:
                    t = ast.parse(st)
                except SyntaxError:
                    continue
                nodes = list(ast.walk(t))
                if not all(isinstance(x, self.SAFE) for x in nodes) or len(nodes) < 6:
                    continue
                if any(isinstance(x, ast.Call) and not (isinstance(x.func, ast.Name) and x.func.id in self.SAFE_CALLS) for x in nodes):
                    continue
                if any(isinstance(x, ast.Attribute) for x in nodes) or any(isinstance(x, (ast.While,)) for x in nodes):
                    continue
                stored = {x.id for x in nodes if isinstance(x, ast.Name) and isinstance(x.ctx, ast.Store)} | {a.arg for x in nodes if isinstance(x, ast.arguments) for a in x.args + x.kwonlyargs + x.posonlyargs}
                free = sorted({x.id for x in nodes if isinstance(x, ast.Name) and isinstance(x.ctx, (ast.Load, ast.Del))} - set(dir(builtins)))
                prelude = "".join(f"{nm} = {rng.randint(1, 9)}\n" for nm in free)
                out += 1
                yield prelude + st
                if out >= n:
                    return

    def run_shard(self, sh, rec):
        self._setup()
        rng = random.Random(f"{sh['seed']}/C02/{sh['index']}")
        for src in self.corpus_programs(rng, max(30, sh["n"] // 6)):
            self.run_case({"kind": "python", "src": src, "scope": "corpus"}, rec)
        for i in harness.budgeted(range(sh["n"]), rec):
            r = rng.random()
            if r < 0.66:
                src, tmpl, scope, kinds = self.build(rng)
                case = {"kind": "python", "src": src, "tmpl": tmpl, "scope": scope, "kinds": kinds}
            elif r < 0.72:
                def bind(nm, val):
                    # the statement-level walrus is a listed finding of its own (its directed programs stay in the python kind)
                    while True:
                        lines, k = bind_stmt(rng, nm, val)
                        if k != "walrus":
                            return lines

                la, lb, lc = bind("a", rng.choice([0, 5])), bind("b", rng.choice([0, 3])), bind("c", 2)
                binds = "\n".join(la + lb + lc) + "\n"
                tmpl = rng.choice(["a and b", "a or b", "not a", "a and b or c", "a -b", "a | b", "a and (b or c)", "a < b", "a ,b"])
                use = f"res = {tmpl}\n" if "," not in tmpl else f"res = ({tmpl})\n"
                shape = rng.choice(["handled-failure-before", "handled-failure-before", "ok-command-before", "dead-command-before/if-false", "dead-command-before/uncalled-def", "handled-failure-inside-function", "command-after"])
                earlier = rng.choice([None, None, "cfail earlier\n", "cok earlier\n"])
                if shape == "handled-failure-before":
                    cmd, pyc = "try:\n    cfail x\nexcept Exception:\n    log.append('handled')\n", "log.append('handled')\n"
                elif shape == "ok-command-before":
                    cmd, pyc = "cok x\n", ""
                elif shape == "dead-command-before/if-false":
                    cmd, pyc = "if False:\n    cok never\n", ""
                elif shape == "dead-command-before/uncalled-def":
                    cmd, pyc = "def _never():\n    cfail never\n", "def _never():\n    pass\n"
                elif shape == "handled-failure-inside-function":
                    cmd = "def _g():\n    try:\n        cfail y\n    except Exception:\n        log.append('handled')\n_g()\n"
                    pyc = "def _g():\n    log.append('handled')\n_g()\n"
                else:
                    cmd, pyc = "", ""
                tail = "cok z\n" if shape == "command-after" else ""
                case = {"kind": "mixed", "src": binds + cmd + use + tail, "py_src": binds + pyc + use, "tmpl": tmpl, "shape": shape, "earlier_input": earlier}
            elif r < 0.86:
                n = rng.choice(["a", "b"])
                l, k = bind_stmt(rng, "a", 5)
                l2, k2 = bind_stmt(rng, "b", 3)
                tmpl = rng.choice(["a -b", "a -l", "a | b", "a -b -c", "a --b"])
                first = tmpl.split()[0]
                pre = rng.choice(["", "if True:\n    ", "for _i in [1]:\n    "])
                body = f"del {first}\n{tmpl}" if not pre else f"del {first}\n" + pre + tmpl
                binds = "\n".join(l + l2) + "\n"
                # where the deleted name was bound relative to the `del`: the same scope, an earlier input of the session,
                # the module scope (deleted inside a function through `global`), or a nested block of the same scope
                where = rng.choice(["same-scope", "same-scope", "earlier-input", "global-deleted-in-function", "deleted-in-nested-block", "function-local"])
                case = {"kind": "del", "expect_cmd": [first], "binding": k, "where": where}
                if where == "same-scope":
                    case["src"] = binds + body + "\n"
                elif where == "earlier-input":
                    case["earlier_input"] = binds
                    case["src"] = body + "\n"
                elif where == "global-deleted-in-function":
                    case["src"] = binds + f"def _zap():\n    global {first}\n    del {first}\n_zap()\n" + (pre + tmpl if pre else tmpl) + "\n"
                elif where == "deleted-in-nested-block":
                    case["src"] = binds + f"if True:\n    for _j in [1]:\n        del {first}\n" + (pre + tmpl if pre else tmpl) + "\n"
                else:
                    inner = binds + body + "\n"
                    if any(ln.startswith(("import ", "from ", "class ", "def ", "global ")) for ln in inner.splitlines()):
                        case["where"] = "same-scope"
                        case["src"] = inner
                    else:
                        case["src"] = "def _fn():\n" + "".join("    " + ln + "\n" for ln in inner.splitlines()) + "_fn()\n"
            else:
                broken = rng.choice(BROKEN)
                good = rng.choice(["log.append(1)", "log.append(1); x = 2", "echo_never_runs = 1\nlog.append(2)"])
                shape = rng.choice(["same-line", "next-line", "in-block", "later-block", "function-body"])
                if shape == "same-line":
                    src = good.split("\n")[0] + "; " + broken + "\n"
                elif shape == "next-line":
                    src = good + "\n" + broken + "\n"
                elif shape == "in-block":
                    src = good + "\nif True:\n    log.append(3)\n    " + broken + "\n"
                elif shape == "later-block":
                    src = good + "\nfor i in range(2):\n    log.append(i)\n\n\n" + broken + "\nlog.append(9)\n"
                else:
                    src = good + "\ndef g():\n    " + broken + "\nlog.append(4)\n"
                case = {"kind": "atomic", "src": src, "mode": rng.choice(["exec", "exec", "single"]) if "\n" not in src.strip() else "exec"}
            if i < 3:
                rec.sample(case, case["kind"])
            self.run_case(case, rec)


def ast_names(tmpl):
    try:
        return [n.id for n in ast.walk(ast.parse(tmpl)) if isinstance(n, ast.Name)]
    except SyntaxError:
        return []


CHECK = C02()

if __name__ == "__main__":
    harness.main(CHECK)
